import Pds.Proofs.TDigestShape
import Pds.Proofs.TDigestWidth
import Mathlib.Algebra.Order.Field.Rat
import Mathlib.Tactic.NormNum
/-!
Helper lemmas for the t-digest model, part 11: *rank accuracy* of `quantile` and `cdf` for a digest
whose centroids come from ONE compression pass over the data (no worst-case bound exists for the
general multi-pass case, so this is the deterministic core of the accuracy claim).

Setting.  `inp` is the list the pass ran on: centroids sorted by mean, positive weights
(for unit-weight data `xs`: the singletons `⟨x·1, 1⟩`, so `wLE inp v = #{x ∈ xs | x ≤ v}` and
`wLT inp v = #{x ∈ xs | x < v}`).  The centroids `cs` of the state satisfy `Fused inp cs` (each is
the fusion of a contiguous block of `inp`), `wmax` bounds every centroid weight, `S` is the total
weight.  Then

* `quantileInner s q = .val v` with `wLT inp v ≤ S·q + 3/2·wmax` and `S·q ≤ wLE inp v + 3/2·wmax`;
* `cdfInner s x = some r` with `wLT inp x − 3/2·wmax ≤ S·r ≤ wLE inp x + 3/2·wmax`.

Structure of the proof: (1) a lemma about piecewise-linear interpolation through knots `(a, b)` each
of which is "rank-accurate up to `e`" (`a − e ≤ lo b`, `hi b ≤ a + e`, `lo`/`hi` monotone) and whose
abscissae are at most `g` apart: the interpolant is rank-accurate up to `g + e`; (2) the knots of a
digest have `g = wmax`, `e = wmax/2`, given the invariant `Ranked` (the weight to the left of
centroid `i` is at most `lo mean_i`, and `hi mean_i` is at most the weight up to and including `i`);
(3) `Ranked` holds for the sorted input itself and is preserved by fusing neighbours; (4) the bridge
from histories of unit-weight insertions that fit into the backlog, and the `K0` instance.
-/
set_option linter.unusedSectionVars false
namespace Pds.TDigest
open Pds.PL
variable {α : Type} [Field α] [LinearOrder α] [IsStrictOrderedRing α]

/-! ### (1) interpolation through rank-accurate knots -/

/-- consecutive abscissae are at most `g` apart -/
def Gap (g : α) : α × α → List (α × α) → Prop
  | _, [] => True
  | p, k :: ks => k.1 - p.1 ≤ g ∧ Gap g k ks

/-- `plLE` through knots `(a, b)` with `a − e ≤ lo b` and `hi b ≤ a + e`, abscissae at most `g`
apart, `lo` and `hi` monotone: the value at `x` satisfies `x − g − e ≤ lo v` and `hi v ≤ x + g + e`. -/
theorem plLE_rank {lo hi : α → α} (hlo : ∀ a b, a ≤ b → lo a ≤ lo b) (hhi : ∀ a b, a ≤ b → hi a ≤ hi b)
    {e g : α} {p : α × α} {ks : List (α × α)} (hm : Mono p ks) (hg : Gap g p ks) (h0 : 0 ≤ g)
    (hk : ∀ k ∈ p :: ks, k.1 - e ≤ lo k.2 ∧ hi k.2 ≤ k.1 + e)
    {x : α} (hx : p.1 ≤ x) (hxl : x ≤ lastAbs p ks) :
    x - g - e ≤ lo (plLE p ks x) ∧ hi (plLE p ks x) ≤ x + g + e := by
  induction ks generalizing p with
  | nil =>
    simp only [lastAbs] at hxl
    have hp := hk p (by simp)
    simp only [plLE]
    constructor <;> linarith [hp.1, hp.2]
  | cons k ks ih =>
    have hp := hk p (by simp)
    have hkk := hk k (by simp)
    unfold plLE
    split
    · rename_i h
      have h1 : p.2 ≤ seg p k x := seg_ge hx hm.1 hm.2.1
      have h2 : seg p k x ≤ k.2 := seg_le hx h hm.2.1
      have h3 := hlo _ _ h1
      have h4 := hhi _ _ h2
      have h5 := hg.1
      constructor <;> linarith [hp.1, hkk.2]
    · rename_i h
      exact ih hm.2.2 hg.2 (fun k' hk' => hk k' (List.mem_cons_of_mem _ hk')) (not_le.1 h).le hxl

/-- the same for `plLT` on the swapped knots (the cdf): for `x` at or above the first ordinate,
`hi x − g − e ≤ plLT … x ≤ lo x + g + e`; `hi` must be bounded by the last abscissa (plus `e`). -/
theorem plLT_rank {lo hi : α → α} (hlo : ∀ a b, a ≤ b → lo a ≤ lo b) (hhi : ∀ a b, a ≤ b → hi a ≤ hi b)
    {e g : α} {p : α × α} {ks : List (α × α)} (hm : Mono p ks) (hg : Gap g p ks) (h0 : 0 ≤ g)
    (hk : ∀ k ∈ p :: ks, k.1 - e ≤ lo k.2 ∧ hi k.2 ≤ k.1 + e)
    (htop : ∀ y, hi y ≤ lastAbs p ks + e)
    {x : α} (hx : p.2 ≤ x) :
    hi x - g - e ≤ plLT p.swap (swap ks) x ∧ plLT p.swap (swap ks) x ≤ lo x + g + e := by
  induction ks generalizing p with
  | nil =>
    have hp := hk p (by simp)
    have h1 := htop x
    have h2 := hlo _ _ hx
    simp only [lastAbs] at h1
    simp only [swap, List.map_nil, plLT, Prod.snd_swap]
    constructor <;> linarith [hp.1]
  | cons k ks ih =>
    have hp := hk p (by simp)
    have hkk := hk k (by simp)
    simp only [swap, List.map_cons, plLT, Prod.fst_swap]
    split
    · rename_i h
      have h1 : p.swap.2 ≤ seg p.swap k.swap x := seg_ge hx hm.2.1 hm.1
      have h2 : seg p.swap k.swap x ≤ k.swap.2 := seg_le hx (le_of_lt h) hm.1
      simp only [Prod.snd_swap] at h1 h2
      have h3 := hlo _ _ hx
      have h4 := hhi _ _ (le_of_lt h)
      have h5 := hg.1
      constructor <;> linarith [hp.1, hkk.2]
    · rename_i h
      exact ih hm.2.2 hg.2 (fun k' hk' => hk k' (List.mem_cons_of_mem _ hk')) htop (not_lt.1 h)

/-! ### (2) the knots of a digest -/

/-- the knots of a digest whose centroids weigh at most `g` are at most `g` apart -/
theorem knots_gap (mx : α) {g : α} (h0 : 0 ≤ g) (cs : List (Centroid α)) (cum : α) (p : α × α)
    (hp : cum - p.1 ≤ g / 2) (hw : ∀ c ∈ cs, c.count ≤ g) : Gap g p (knots mx cum cs) := by
  induction cs generalizing cum p with
  | nil => exact ⟨by simp only []; linarith, trivial⟩
  | cons c cs ih =>
    have hc := hw c (by simp)
    refine ⟨by simp only []; linarith, ?_⟩
    apply ih
    · simp only []; linarith
    · exact fun d hd => hw d (by simp [hd])

/-- the rank invariant of a list of centroids w.r.t. rank functions `lo`, `hi`, with `cum` the weight
to the left of the list: for every centroid, the weight to its left is at most `lo mean`, and
`hi mean` is at most the weight up to and including it -/
def Ranked (lo hi : α → α) : α → List (Centroid α) → Prop
  | _, [] => True
  | cum, c :: cs => cum ≤ lo c.mean ∧ hi c.mean ≤ cum + c.count ∧ Ranked lo hi (cum + c.count) cs

/-- under `Ranked`, every knot `(a, b)` of the digest has `a − e ≤ lo b` and `hi b ≤ a + e`
(`e` = half the maximal centroid weight) -/
theorem knots_near {lo hi : α → α} (mx : α) {e : α} (cs : List (Centroid α)) (cum : α)
    (hr : Ranked lo hi cum cs) (hw : ∀ c ∈ cs, c.count ≤ 2 * e)
    (hmx : cum + sumCount cs - e ≤ lo mx ∧ hi mx ≤ cum + sumCount cs + e) :
    ∀ k ∈ knots mx cum cs, k.1 - e ≤ lo k.2 ∧ hi k.2 ≤ k.1 + e := by
  induction cs generalizing cum with
  | nil =>
    intro k hk
    simp only [knots, List.mem_singleton] at hk
    subst hk
    simpa using hmx
  | cons c cs ih =>
    have hc := hw c (by simp)
    obtain ⟨r1, r2, r3⟩ := hr
    intro k hk
    simp only [knots, List.mem_cons] at hk
    rcases hk with rfl | hk
    · constructor
      · simp only []; linarith
      · simp only []; linarith
    · refine ih (cum + c.count) r3 (fun d hd => hw d (by simp [hd])) ?_ k hk
      simp only [sumCount_cons] at hmx
      constructor
      · linarith [hmx.1]
      · linarith [hmx.2]

/-! ### (3) `Ranked` is preserved by the fusion pass -/

theorem Fused.ranked {lo hi : α → α} (hlo : ∀ a b, a ≤ b → lo a ≤ lo b) (hhi : ∀ a b, a ≤ b → hi a ≤ hi b)
    {inp out : List (Centroid α)} (h : Fused inp out) (hp : ∀ c ∈ inp, 0 < c.count)
    (hs : SortedMean inp) (cum : α) (hr : Ranked lo hi cum inp) : Ranked lo hi cum out := by
  induction h generalizing cum with
  | last c => exact hr
  | @fuse cur next rest out _ ih =>
    have hc := hp cur (by simp); have hn := hp next (by simp)
    unfold SortedMean at hs
    rw [List.pairwise_cons] at hs
    obtain ⟨h1, h2⟩ := hs
    rw [List.pairwise_cons] at h2
    have hcn : cur.mean ≤ next.mean := h1 next (by simp)
    have hlo' : cur.mean ≤ (cur.fuse next).mean := le_fuse_mean hc hn le_rfl hcn
    have hhi' : (cur.fuse next).mean ≤ next.mean := fuse_mean_le hc hn hcn le_rfl
    obtain ⟨r1, _, _, r4, r5⟩ := hr
    apply ih
    · intro c hc'
      rcases List.mem_cons.1 hc' with rfl | hc'
      · simp; linarith
      · exact hp c (by simp [hc'])
    · exact List.pairwise_cons.2 ⟨fun d hd => le_trans hhi' (h2.1 d hd), h2.2⟩
    · refine ⟨le_trans r1 (hlo _ _ hlo'), ?_, ?_⟩
      · have := hhi _ _ hhi'
        simp only [fuse_count]; linarith
      · simp only [fuse_count]; rwa [← add_assoc]
  | @push cur next rest out hf ih =>
    obtain ⟨r1, r2, r3⟩ := hr
    unfold SortedMean at hs
    rw [List.pairwise_cons] at hs
    exact ⟨r1, r2, ih (fun d hd => hp d (List.mem_cons_of_mem _ hd)) hs.2 _ r3⟩

/-! ### weighted rank functions of the input of the pass -/

/-- weight of the input centroids with mean `≤ v` -/
def wLE (inp : List (Centroid α)) (v : α) : α := sumCount (inp.filter (fun c => decide (c.mean ≤ v)))
/-- weight of the input centroids with mean `< v` -/
def wLT (inp : List (Centroid α)) (v : α) : α := sumCount (inp.filter (fun c => decide (c.mean < v)))

theorem sumCount_filter_mono {l : List (Centroid α)} (hp : ∀ c ∈ l, 0 ≤ c.count)
    {p q : Centroid α → Bool} (hpq : ∀ c ∈ l, p c = true → q c = true) :
    sumCount (l.filter p) ≤ sumCount (l.filter q) := by
  induction l with
  | nil => simp
  | cons c l ih =>
    have hc := hp c (by simp)
    have ih' := ih (fun d hd => hp d (by simp [hd])) (fun d hd => hpq d (by simp [hd]))
    cases h1 : p c with
    | true =>
      have h2 := hpq c (by simp) h1
      simp only [List.filter_cons, h1, h2, if_true, sumCount_cons]; linarith
    | false =>
      cases h2 : q c with
      | true => simp only [List.filter_cons, h1, h2, if_true, sumCount_cons]; simp; linarith
      | false => simp only [List.filter_cons, h1, h2]; simpa using ih'

theorem sumCount_filter_nonneg {l : List (Centroid α)} (hp : ∀ c ∈ l, 0 ≤ c.count)
    (p : Centroid α → Bool) : 0 ≤ sumCount (l.filter p) :=
  sumCount_nonneg' (fun c hc => hp c (List.mem_filter.1 hc).1)
where
  sumCount_nonneg' {l : List (Centroid α)} (h : ∀ c ∈ l, 0 ≤ c.count) : 0 ≤ sumCount l := by
    induction l with
    | nil => simp
    | cons c l ih =>
      have := h c (by simp)
      have := ih (fun d hd => h d (by simp [hd]))
      simp; linarith

theorem sumCount_filter_le {l : List (Centroid α)} (hp : ∀ c ∈ l, 0 ≤ c.count)
    (p : Centroid α → Bool) : sumCount (l.filter p) ≤ sumCount l := by
  induction l with
  | nil => simp
  | cons c l ih =>
    have hc := hp c (by simp)
    have ih' := ih (fun d hd => hp d (by simp [hd]))
    cases h1 : p c with
    | true => simp only [List.filter_cons, h1, if_true, sumCount_cons]; linarith
    | false => simp only [List.filter_cons, h1, sumCount_cons]; simp; linarith

theorem wLE_mono {inp : List (Centroid α)} (hp : ∀ c ∈ inp, 0 ≤ c.count) (a b : α) (h : a ≤ b) :
    wLE inp a ≤ wLE inp b :=
  sumCount_filter_mono hp (fun c _ hc => by
    simp only [decide_eq_true_eq] at hc ⊢; exact le_trans hc h)

theorem wLT_mono {inp : List (Centroid α)} (hp : ∀ c ∈ inp, 0 ≤ c.count) (a b : α) (h : a ≤ b) :
    wLT inp a ≤ wLT inp b :=
  sumCount_filter_mono hp (fun c _ hc => by
    simp only [decide_eq_true_eq] at hc ⊢; exact lt_of_lt_of_le hc h)

theorem wLE_nonneg {inp : List (Centroid α)} (hp : ∀ c ∈ inp, 0 ≤ c.count) (v : α) : 0 ≤ wLE inp v :=
  sumCount_filter_nonneg hp _

theorem wLT_nonneg {inp : List (Centroid α)} (hp : ∀ c ∈ inp, 0 ≤ c.count) (v : α) : 0 ≤ wLT inp v :=
  sumCount_filter_nonneg hp _

theorem wLE_le_sum {inp : List (Centroid α)} (hp : ∀ c ∈ inp, 0 ≤ c.count) (v : α) :
    wLE inp v ≤ sumCount inp := sumCount_filter_le hp _

theorem wLT_le_sum {inp : List (Centroid α)} (hp : ∀ c ∈ inp, 0 ≤ c.count) (v : α) :
    wLT inp v ≤ sumCount inp := sumCount_filter_le hp _

theorem wLT_le_wLE {inp : List (Centroid α)} (hp : ∀ c ∈ inp, 0 ≤ c.count) (v : α) :
    wLT inp v ≤ wLE inp v :=
  sumCount_filter_mono hp (fun c _ hc => by
    simp only [decide_eq_true_eq] at hc ⊢; exact le_of_lt hc)

theorem wLE_append (a b : List (Centroid α)) (v : α) : wLE (a ++ b) v = wLE a v + wLE b v := by
  simp [wLE, List.filter_append]

theorem wLT_append (a b : List (Centroid α)) (v : α) : wLT (a ++ b) v = wLT a v + wLT b v := by
  simp [wLT, List.filter_append]

theorem wLE_of_all {a : List (Centroid α)} {v : α} (h : ∀ c ∈ a, c.mean ≤ v) : wLE a v = sumCount a := by
  unfold wLE
  rw [List.filter_eq_self.2]
  intro c hc; simpa using h c hc

theorem wLT_of_none {a : List (Centroid α)} {v : α} (h : ∀ c ∈ a, v ≤ c.mean) : wLT a v = 0 := by
  unfold wLT
  rw [List.filter_eq_nil_iff.2]
  · rfl
  · intro c hc; simpa using h c hc

/-- a list sorted by mean (positive weights) satisfies the rank invariant w.r.t. its own weighted
rank functions -/
theorem ranked_suffix (all : List (Centroid α)) (hs : SortedMean all) (hp : ∀ c ∈ all, 0 < c.count) :
    ∀ (suf pre : List (Centroid α)), all = pre ++ suf →
      Ranked (wLE all) (wLT all) (sumCount pre) suf := by
  intro suf
  induction suf with
  | nil => intros; trivial
  | cons c suf ih =>
    intro pre e
    have hs' : SortedMean (pre ++ c :: suf) := e ▸ hs
    unfold SortedMean at hs'
    rw [List.pairwise_append] at hs'
    obtain ⟨_, h2, h3⟩ := hs'
    rw [List.pairwise_cons] at h2
    have e2 : all = (pre ++ [c]) ++ suf := by rw [e]; simp
    have hnn : ∀ l : List (Centroid α), (∀ d ∈ l, d ∈ all) → ∀ d ∈ l, 0 ≤ d.count :=
      fun l hl d hd => (hp d (hl d hd)).le
    refine ⟨?_, ?_, ?_⟩
    · rw [e, wLE_append, wLE_of_all (fun d hd => h3 d hd c (by simp))]
      have := wLE_nonneg (hnn (c :: suf) (fun d hd => by rw [e]; simp [hd])) c.mean
      linarith
    · rw [e2, wLT_append, wLT_of_none (fun d hd => h2.1 d hd), add_zero]
      have := wLT_le_sum (hnn (pre ++ [c]) (fun d hd => by rw [e2]; exact List.mem_append_left _ hd)) c.mean
      simpa using this
    · have := ih (pre ++ [c]) e2
      simpa using this

theorem ranked_self {inp : List (Centroid α)} (hs : SortedMean inp) (hp : ∀ c ∈ inp, 0 < c.count) :
    Ranked (wLE inp) (wLT inp) 0 inp := by
  have := ranked_suffix inp hs hp inp [] rfl
  simpa using this

/-! ### (A), (B): one pass over weighted input -/

/-- `s` is the result of one compression pass over the sorted, positively weighted list `inp`
whose means lie in `[mn, mx] = [s.min, s.max]` -/
structure OnePass (s : St α) (inp : List (Centroid α)) (mn mx : α) : Prop where
  backlog_nil : s.backlog = []
  fused : Fused inp s.centroids
  pos : ∀ c ∈ inp, 0 < c.count
  sorted : SortedMean inp
  hmin : s.min = some mn
  hmax : s.max = some mx
  range : ∀ c ∈ inp, mn ≤ c.mean ∧ c.mean ≤ mx

section OnePass
variable {s : St α} {inp : List (Centroid α)} {mn mx : α}

theorem OnePass.nonneg (h : OnePass s inp mn mx) : ∀ c ∈ inp, 0 ≤ c.count :=
  fun c hc => (h.pos c hc).le

theorem OnePass.wf (h : OnePass s inp mn mx) : WF s where
  backlog_nil := h.backlog_nil
  pos := h.fused.pos h.pos
  sorted := h.fused.sorted h.pos h.sorted
  bounds := fun _ => ⟨mn, mx, h.hmin, h.hmax, fun c hc =>
    ⟨h.fused.lower h.pos (fun d hd => (h.range d hd).1) c hc,
     h.fused.upper h.pos (fun d hd => (h.range d hd).2) c hc⟩⟩

theorem OnePass.shape (h : OnePass s inp mn mx) : ∃ c0 cs, Shape s c0 cs mn mx := by
  obtain ⟨c0, cs, mn', mx', hsh⟩ := h.wf.shape h.fused.ne_nil
  have e1 : mn' = mn := by
    have := hsh.hmin; rw [h.hmin] at this; exact (Option.some.inj this).symm
  have e2 : mx' = mx := by
    have := hsh.hmax; rw [h.hmax] at this; exact (Option.some.inj this).symm
  subst e1 e2
  exact ⟨c0, cs, hsh⟩

theorem OnePass.total (h : OnePass s inp mn mx) : sumCount s.centroids = sumCount inp :=
  h.fused.sumCount

theorem OnePass.ranked (h : OnePass s inp mn mx) : Ranked (wLE inp) (wLT inp) 0 s.centroids :=
  h.fused.ranked (wLE_mono h.nonneg) (wLT_mono h.nonneg) h.pos h.sorted 0 (ranked_self h.sorted h.pos)

theorem OnePass.wmax_nonneg (h : OnePass s inp mn mx) {wmax : α}
    (hw : ∀ c ∈ s.centroids, c.count ≤ wmax) : 0 ≤ wmax := by
  obtain ⟨c0, cs, hsh⟩ := h.shape
  have h1 := hsh.pos c0 (by rw [hsh.hc]; simp)
  have h2 := hw c0 (by rw [hsh.hc]; simp)
  linarith

/-- the knots of the digest are at most `wmax` apart -/
theorem OnePass.gap (h : OnePass s inp mn mx) {c0 : Centroid α} {cs : List (Centroid α)}
    (hsh : Shape s c0 cs mn mx) {wmax : α} (hw : ∀ c ∈ s.centroids, c.count ≤ wmax) :
    Gap wmax (0, mn) (knots mx 0 (c0 :: cs)) := by
  have h0 := h.wmax_nonneg hw
  refine knots_gap mx h0 (c0 :: cs) 0 (0, mn) (by simp only []; linarith) ?_
  rw [← hsh.hc]; exact hw

/-- every knot `(a, b)` of the digest has `a − wmax/2 ≤ wLE inp b` and `wLT inp b ≤ a + wmax/2` -/
theorem OnePass.near (h : OnePass s inp mn mx) {c0 : Centroid α} {cs : List (Centroid α)}
    (hsh : Shape s c0 cs mn mx) {wmax : α} (hw : ∀ c ∈ s.centroids, c.count ≤ wmax) :
    ∀ k ∈ (0, mn) :: knots mx 0 (c0 :: cs),
      k.1 - wmax / 2 ≤ wLE inp k.2 ∧ wLT inp k.2 ≤ k.1 + wmax / 2 := by
  have h0 := h.wmax_nonneg hw
  have hS : sumCount (c0 :: cs) = sumCount inp := by rw [← hsh.hc]; exact h.total
  intro k hk
  rcases List.mem_cons.1 hk with rfl | hk
  · constructor
    · have := wLE_nonneg h.nonneg mn
      simp only []; linarith
    · rw [wLT_of_none (fun c hc => (h.range c hc).1)]
      simp only []; linarith
  · refine knots_near mx (c0 :: cs) 0 ?_ ?_ ?_ k hk
    · rw [← hsh.hc]; exact h.ranked
    · intro c hc
      have := hw c (by rw [hsh.hc]; exact hc)
      linarith
    · rw [hS, wLE_of_all (fun c hc => (h.range c hc).2)]
      have := wLT_le_sum h.nonneg mx
      constructor <;> linarith

/-- (A), weighted form: the value `v` returned by `quantileInner s q` has weighted rank within
`3/2·wmax` of `S·q`: the input weight strictly below `v` is at most `S·q + 3/2·wmax`, the input weight
at or below `v` is at least `S·q − 3/2·wmax`. -/
theorem OnePass.quantile_rank (h : OnePass s inp mn mx) {wmax : α}
    (hw : ∀ c ∈ s.centroids, c.count ≤ wmax) {q : α} (hq0 : 0 ≤ q) (hq1 : q ≤ 1) :
    ∃ v, quantileInner s q = .val v ∧
      wLT inp v ≤ sumCount inp * q + 3 / 2 * wmax ∧ sumCount inp * q ≤ wLE inp v + 3 / 2 * wmax := by
  obtain ⟨c0, cs, hsh⟩ := h.shape
  have hS : sumCount (c0 :: cs) = sumCount inp := by rw [← hsh.hc]; exact h.total
  refine ⟨qv c0 cs mn mx q, hsh.quantile_eq hq0 hq1, ?_⟩
  have hx0 : (0, mn).1 ≤ sumCount (c0 :: cs) * q := mul_nonneg hsh.spos.le hq0
  have hx1 : sumCount (c0 :: cs) * q ≤ lastAbs (0, mn) (knots mx 0 (c0 :: cs)) := by
    rw [knots_lastAbs, zero_add]
    have := mul_le_mul_of_nonneg_left hq1 hsh.spos.le
    simpa using this
  have := plLE_rank (wLE_mono h.nonneg) (wLT_mono h.nonneg) hsh.mono (h.gap hsh hw)
    (h.wmax_nonneg hw) (h.near hsh hw) hx0 hx1
  rw [hS] at this
  unfold qv
  rw [hS]
  constructor <;> linarith [this.1, this.2]

/-- (B), weighted form: `S·cdf(x)` is within `3/2·wmax` of the weighted rank of `x`. -/
theorem OnePass.cdf_rank (h : OnePass s inp mn mx) {wmax : α}
    (hw : ∀ c ∈ s.centroids, c.count ≤ wmax) (x : α) :
    ∃ r, cdfInner s x = some r ∧
      wLT inp x - 3 / 2 * wmax ≤ sumCount inp * r ∧ sumCount inp * r ≤ wLE inp x + 3 / 2 * wmax := by
  obtain ⟨c0, cs, hsh⟩ := h.shape
  have hS : sumCount (c0 :: cs) = sumCount inp := by rw [← hsh.hc]; exact h.total
  have h0 := h.wmax_nonneg hw
  by_cases hx : x < mn
  · refine ⟨0, hsh.cdf_lt hx, ?_, ?_⟩
    · rw [wLT_of_none (fun c hc => le_trans hx.le (h.range c hc).1)]
      linarith
    · have := wLE_nonneg h.nonneg x
      linarith
  · have hx' : mn ≤ x := not_lt.1 hx
    refine ⟨cv c0 cs mn mx x, hsh.cdf_eq hx', ?_⟩
    have htop : ∀ y, wLT inp y ≤ lastAbs (0, mn) (knots mx 0 (c0 :: cs)) + wmax / 2 := by
      intro y
      rw [knots_lastAbs, zero_add, hS]
      have := wLT_le_sum h.nonneg y
      linarith
    have := plLT_rank (wLE_mono h.nonneg) (wLT_mono h.nonneg) hsh.mono (h.gap hsh hw)
      h0 (h.near hsh hw) htop (x := x) hx'
    have e : sumCount inp * cv c0 cs mn mx x = plLT (0, mn).swap (swap (knots mx 0 (c0 :: cs))) x := by
      unfold cv
      rw [hS]
      have hne : sumCount inp ≠ 0 := by rw [← hS]; exact hsh.spos.ne'
      rw [mul_div_cancel₀ _ hne]
      rfl
    rw [e]
    constructor <;> linarith [this.1, this.2]

end OnePass

/-! ### unit-weight data -/

/-- number of data values `< v` -/
def countLT (xs : List α) (v : α) : ℕ := (xs.filter (fun x => decide (x < v))).length
/-- number of data values `≤ v` -/
def countLE (xs : List α) (v : α) : ℕ := (xs.filter (fun x => decide (x ≤ v))).length

/-- the centroid that `insertWeighted sf s x 1` pushes onto the backlog -/
def unitC (x : α) : Centroid α := ⟨x * 1, 1⟩

@[simp] theorem unitC_mean (x : α) : (unitC x).mean = x := by
  simp [unitC, Centroid.mean]

@[simp] theorem unitC_count (x : α) : (unitC x).count = 1 := rfl

theorem sumCount_units (xs : List α) : sumCount (xs.map unitC) = (xs.length : α) := by
  induction xs with
  | nil => simp
  | cons x xs ih => simp [ih]; ring

theorem wLE_units_aux (xs : List α) (v : α) : wLE (xs.map unitC) v = (countLE xs v : α) := by
  induction xs with
  | nil => simp [wLE, countLE]
  | cons x xs ih =>
    unfold wLE countLE at ih ⊢
    by_cases h : x ≤ v
    · simp only [List.map_cons, List.filter_cons, unitC_mean, h, decide_true, if_true, sumCount_cons,
        unitC_count, List.length_cons, Nat.cast_add, Nat.cast_one, ih]
      ring
    · simp only [List.map_cons, List.filter_cons, unitC_mean, h, decide_false]
      simpa using ih

theorem wLT_units_aux (xs : List α) (v : α) : wLT (xs.map unitC) v = (countLT xs v : α) := by
  induction xs with
  | nil => simp [wLT, countLT]
  | cons x xs ih =>
    unfold wLT countLT at ih ⊢
    by_cases h : x < v
    · simp only [List.map_cons, List.filter_cons, unitC_mean, h, decide_true, if_true, sumCount_cons,
        unitC_count, List.length_cons, Nat.cast_add, Nat.cast_one, ih]
      ring
    · simp only [List.map_cons, List.filter_cons, unitC_mean, h, decide_false]
      simpa using ih

theorem wLE_units {inp : List (Centroid α)} {xs : List α} (hperm : inp.Perm (xs.map unitC)) (v : α) :
    wLE inp v = (countLE xs v : α) := by
  rw [← wLE_units_aux]
  exact sumCount_perm (hperm.filter _)

theorem wLT_units {inp : List (Centroid α)} {xs : List α} (hperm : inp.Perm (xs.map unitC)) (v : α) :
    wLT inp v = (countLT xs v : α) := by
  rw [← wLT_units_aux]
  exact sumCount_perm (hperm.filter _)

/-- `s` is the result of ONE compression pass over the unit-weight data `xs` (non-empty): empty
backlog, `min`/`max` are the extremes of `xs`, and the centroids are the fusion of contiguous blocks
of the mean-sorted singletons of `xs` -/
structure OnePassUnit (s : St α) (xs : List α) : Prop where
  ne : xs ≠ []
  backlog_nil : s.backlog = []
  mn : IsMinOf s.min xs
  mx : IsMaxOf s.max xs
  fused : Fused ((xs.map unitC).mergeSort leMean) s.centroids

theorem OnePassUnit.onePass {s : St α} {xs : List α} (h : OnePassUnit s xs) :
    ∃ mn mx, OnePass s ((xs.map unitC).mergeSort leMean) mn mx := by
  have hperm := List.mergeSort_perm (xs.map unitC) (leMean (α := α))
  have hmem : ∀ c ∈ (xs.map unitC).mergeSort leMean, ∃ x ∈ xs, c = unitC x := by
    intro c hc
    obtain ⟨x, hx, rfl⟩ := List.mem_map.1 (hperm.mem_iff.1 hc)
    exact ⟨x, hx, rfl⟩
  have hmn := h.mn; have hmx := h.mx
  cases hmin : s.min with
  | none => rw [hmin] at hmn; exact absurd hmn h.ne
  | some a =>
    cases hmax : s.max with
    | none => rw [hmax] at hmx; exact absurd hmx h.ne
    | some b =>
      rw [hmin] at hmn; rw [hmax] at hmx
      refine ⟨a, b, h.backlog_nil, h.fused, ?_, sortedMean_mergeSort _, hmin, hmax, ?_⟩
      · intro c hc
        obtain ⟨x, _, rfl⟩ := hmem c hc
        exact zero_lt_one
      · intro c hc
        obtain ⟨x, hx, rfl⟩ := hmem c hc
        rw [unitC_mean]
        exact ⟨hmn.2 x hx, hmx.2 x hx⟩

theorem OnePassUnit.total {s : St α} {xs : List α} (h : OnePassUnit s xs) :
    sumCount s.centroids = (xs.length : α) := by
  rw [h.fused.sumCount, sumCount_perm (List.mergeSort_perm _ _), sumCount_units]

theorem OnePassUnit.pos {s : St α} {xs : List α} (h : OnePassUnit s xs) :
    ∀ c ∈ s.centroids, 0 < c.count := by
  obtain ⟨mn, mx, hp⟩ := h.onePass
  exact hp.wf.pos

/-- (A) rank accuracy of `quantileInner` after one pass over unit-weight data `xs` (`n = xs.length`,
`wmax` any bound on the centroid weights): the value `v` returned for `q ∈ [0, 1]` satisfies
`#{x < v} ≤ n·q + 3/2·wmax` and `n·q ≤ #{x ≤ v} + 3/2·wmax`. -/
theorem OnePassUnit.quantile_rank {s : St α} {xs : List α} (h : OnePassUnit s xs) {wmax : α}
    (hw : ∀ c ∈ s.centroids, c.count ≤ wmax) {q : α} (hq0 : 0 ≤ q) (hq1 : q ≤ 1) :
    ∃ v, quantileInner s q = .val v ∧
      (countLT xs v : α) ≤ (xs.length : α) * q + 3 / 2 * wmax ∧
      (xs.length : α) * q ≤ (countLE xs v : α) + 3 / 2 * wmax := by
  obtain ⟨mn, mx, hp⟩ := h.onePass
  have hperm := List.mergeSort_perm (xs.map unitC) (leMean (α := α))
  obtain ⟨v, hv, h1, h2⟩ := hp.quantile_rank hw hq0 hq1
  rw [sumCount_perm hperm, sumCount_units] at h1 h2
  rw [wLT_units hperm] at h1
  rw [wLE_units hperm] at h2
  exact ⟨v, hv, h1, h2⟩

/-- (B) rank accuracy of `cdfInner` after one pass over unit-weight data: for every `x`,
`#{· < x} − 3/2·wmax ≤ n·cdf(x) ≤ #{· ≤ x} + 3/2·wmax`. -/
theorem OnePassUnit.cdf_rank {s : St α} {xs : List α} (h : OnePassUnit s xs) {wmax : α}
    (hw : ∀ c ∈ s.centroids, c.count ≤ wmax) (x : α) :
    ∃ r, cdfInner s x = some r ∧
      (countLT xs x : α) - 3 / 2 * wmax ≤ (xs.length : α) * r ∧
      (xs.length : α) * r ≤ (countLE xs x : α) + 3 / 2 * wmax := by
  obtain ⟨mn, mx, hp⟩ := h.onePass
  have hperm := List.mergeSort_perm (xs.map unitC) (leMean (α := α))
  obtain ⟨r, hr, h1, h2⟩ := hp.cdf_rank hw x
  rw [sumCount_perm hperm, sumCount_units] at h1 h2
  rw [wLT_units hperm] at h1
  rw [wLE_units hperm] at h2
  exact ⟨r, hr, h1, h2⟩

/-! ### (C) the bridge from histories -/

/-- the history "insert every element of `xs` with weight 1" -/
def unitInserts (xs : List α) : List (Op α) := xs.map (fun x => Op.insert x 1)

theorem isMinOf_reverse {o : Option α} {xs : List α} (h : IsMinOf o xs.reverse) : IsMinOf o xs := by
  cases o with
  | none => simpa [IsMinOf] using h
  | some m => simpa [IsMinOf] using h

theorem isMaxOf_reverse {o : Option α} {xs : List α} (h : IsMaxOf o xs.reverse) : IsMaxOf o xs := by
  cases o with
  | none => simpa [IsMaxOf] using h
  | some m => simpa [IsMaxOf] using h

/-- as long as the backlog has room, unit insertions only push onto the backlog -/
theorem run_unitInserts (sf : ScaleFn α) (xs : List α) : ∀ (s0 : St α) (acc : List α),
    s0.centroids = [] → s0.backlog.length + xs.length ≤ s0.maxBacklog →
    IsMinOf s0.min acc → IsMaxOf s0.max acc →
    ∃ s, run sf s0 (unitInserts xs) = some s ∧ s.centroids = [] ∧
      s.backlog = (xs.map unitC).reverse ++ s0.backlog ∧
      s.nSamples = s0.nSamples + xs.length ∧
      IsMinOf s.min (xs.reverse ++ acc) ∧ IsMaxOf s.max (xs.reverse ++ acc) := by
  induction xs with
  | nil =>
    intro s0 acc hc _ hmn hmx
    exact ⟨s0, rfl, hc, by simp, by simp, by simpa using hmn, by simpa using hmx⟩
  | cons x xs ih =>
    intro s0 acc hc hlen hmn hmx
    simp only [List.length_cons] at hlen
    have hstep : step sf s0 (Op.insert x 1) = some (pushed s0 x 1) := by
      simp only [step]
      rw [insertWeighted_pos sf s0 x zero_lt_one]
      have : ¬ (pushed s0 x 1).backlog.length > s0.maxBacklog := by
        rw [pushed_backlog_length]; omega
      simp only [this, if_false]
    obtain ⟨s, h1, h2, h3, h4, h5, h6⟩ := ih (pushed s0 x 1) (x :: acc) hc
      (by rw [pushed_backlog_length]; change _ ≤ s0.maxBacklog; omega)
      (isMinOf_minOpt hmn x) (isMaxOf_maxOpt hmx x)
    refine ⟨s, ?_, h2, ?_, ?_, ?_, ?_⟩
    · simp only [unitInserts, List.map_cons, run, hstep, Option.bind_some]
      exact h1
    · rw [h3]; simp [pushed, unitC]
    · rw [h4]; simp [pushed]; omega
    · simpa using h5
    · simpa using h6

/-- (C) If the non-empty data `xs` are inserted with weight 1 into a fresh digest whose backlog can
hold them all, then the state after the compression `merge` (which every read performs first) is a
one-pass digest of `xs`. -/
theorem onePassUnit_of_run (sf : ScaleFn α) {mb : Nat} {xs : List α} {s : St α}
    (h : run sf (new mb) (unitInserts xs) = some s) (hne : xs ≠ []) (hmb : xs.length ≤ mb) :
    OnePassUnit (merge sf s) xs := by
  obtain ⟨s', h1, h2, h3, _, h5, h6⟩ := run_unitInserts sf xs (new mb) [] rfl
    (by simpa [new] using hmb) (by simp [new, IsMinOf]) (by simp [new, IsMaxOf])
  rw [h] at h1
  cases h1
  simp only [List.append_nil] at h5 h6
  have hb : s.backlog = (xs.map unitC).reverse := by simpa [new] using h3
  have hbne : s.backlog ≠ [] := by
    rw [hb]; simpa using hne
  obtain ⟨c0, rest, hx, hm⟩ := merge_of_ne (sf := sf) hbne
  refine ⟨hne, merge_backlog sf s, ?_, ?_, ?_⟩
  · rw [merge_min]; exact isMinOf_reverse h5
  · rw [merge_max]; exact isMaxOf_reverse h6
  · rw [h2, hb, List.nil_append, List.reverse_reverse] at hx
    rw [hx, hm]
    exact ml_fused _ _ _ _ _ _ _

/-- the state a history of unit insertions leaves: everything sits in the backlog -/
theorem run_unitInserts_new (sf : ScaleFn α) {mb : Nat} {xs : List α} {s : St α}
    (h : run sf (new mb) (unitInserts xs) = some s) (hmb : xs.length ≤ mb) :
    s.centroids = [] ∧ s.backlog = (xs.map unitC).reverse ∧ s.nSamples = xs.length := by
  obtain ⟨s', h1, h2, h3, h4, _, _⟩ := run_unitInserts sf xs (new mb) [] rfl
    (by simpa [new] using hmb) (by simp [new, IsMinOf]) (by simp [new, IsMaxOf])
  rw [h] at h1
  cases h1
  exact ⟨h2, by simpa [new] using h3, by simpa [new] using h4⟩

/-- end to end, `quantile`: the public read compresses first and then returns a value whose rank
among the inserted data is within `3/2·wmax` of `n·q`. -/
theorem quantile_rank_of_run (sf : ScaleFn α) {mb : Nat} {xs : List α} {s : St α}
    (h : run sf (new mb) (unitInserts xs) = some s) (hne : xs ≠ []) (hmb : xs.length ≤ mb)
    {wmax : α} (hw : ∀ c ∈ (merge sf s).centroids, c.count ≤ wmax)
    {q : α} (hq0 : 0 ≤ q) (hq1 : q ≤ 1) :
    ∃ v, (quantile sf s q).2 = .val v ∧
      (countLT xs v : α) ≤ (xs.length : α) * q + 3 / 2 * wmax ∧
      (xs.length : α) * q ≤ (countLE xs v : α) + 3 / 2 * wmax := by
  have e : (quantile sf s q).2 = quantileInner (merge sf s) q := by
    simp [quantile, hq0, hq1]
  rw [e]
  exact (onePassUnit_of_run sf h hne hmb).quantile_rank hw hq0 hq1

/-- end to end, `cdf`: `n·cdf(x)` is within `3/2·wmax` of the rank of `x` among the inserted data. -/
theorem cdf_rank_of_run (sf : ScaleFn α) {mb : Nat} {xs : List α} {s : St α}
    (h : run sf (new mb) (unitInserts xs) = some s) (hne : xs ≠ []) (hmb : xs.length ≤ mb)
    {wmax : α} (hw : ∀ c ∈ (merge sf s).centroids, c.count ≤ wmax) (x : α) :
    ∃ r, (cdf sf s x).2 = some r ∧
      (countLT xs x : α) - 3 / 2 * wmax ≤ (xs.length : α) * r ∧
      (xs.length : α) * r ≤ (countLE xs x : α) + 3 / 2 * wmax :=
  (onePassUnit_of_run sf h hne hmb).cdf_rank hw x

/-! ### (D) `K0`: explicit bound -/

/-- with `K0` and compression `δ`, after one pass over `n` unit-weight values every centroid weighs
at most `max 1 (2/δ·n)`: it is an unfused singleton, or a cluster formed by the pass, which holds at
most `2/δ` of the total weight (`merge_width`, `lim_width_k0`) -/
theorem k0_unit_wmax {δ : α} (hδ : 0 < δ) {mb : Nat} {xs : List α} {s : St α}
    (h : run (k0 δ) (new mb) (unitInserts xs) = some s) (hne : xs ≠ []) (hmb : xs.length ≤ mb) :
    ∀ c ∈ (merge (k0 δ) s).centroids, c.count ≤ max 1 (2 / δ * (xs.length : α)) := by
  have hop := onePassUnit_of_run (k0 δ) h hne hmb
  obtain ⟨hc, hb, _⟩ := run_unitInserts_new (k0 δ) h hmb
  intro c hcm
  rcases merge_width (k0 δ) s hop.pos (fun q h0 h1 => lim_width_k0 hδ _ h0 h1.le) c hcm
    with hin | hle
  · rw [hc, hb, List.nil_append, List.mem_reverse] at hin
    obtain ⟨x, _, rfl⟩ := List.mem_map.1 hin
    exact le_max_left _ _
  · rw [hop.total] at hle
    have hn : (0 : α) < (xs.length : α) := by exact_mod_cast List.length_pos_iff.2 hne
    rw [div_le_iff₀ hn] at hle
    exact le_trans hle (le_max_right _ _)

theorem max_one_eq {δ n : α} (hn : 0 < n) : max 1 (2 / δ * n) = n * max (1 / n) (2 / δ) := by
  rw [mul_max_of_nonneg _ _ hn.le, mul_one_div_cancel hn.ne', mul_comm n]

/-- (D) `K0`, `quantile`: rank error at most `3/2·max 1 (2n/δ)` -/
theorem quantile_rank_K0 {δ : α} (hδ : 0 < δ) {mb : Nat} {xs : List α} {s : St α}
    (h : run (k0 δ) (new mb) (unitInserts xs) = some s) (hne : xs ≠ []) (hmb : xs.length ≤ mb)
    {q : α} (hq0 : 0 ≤ q) (hq1 : q ≤ 1) :
    ∃ v, (quantile (k0 δ) s q).2 = .val v ∧
      (countLT xs v : α) ≤ (xs.length : α) * q + 3 / 2 * max 1 (2 / δ * (xs.length : α)) ∧
      (xs.length : α) * q ≤ (countLE xs v : α) + 3 / 2 * max 1 (2 / δ * (xs.length : α)) :=
  quantile_rank_of_run (k0 δ) h hne hmb (k0_unit_wmax hδ h hne hmb) hq0 hq1

/-- (D) `K0`, `cdf`: rank error at most `3/2·max 1 (2n/δ)` -/
theorem cdf_rank_K0 {δ : α} (hδ : 0 < δ) {mb : Nat} {xs : List α} {s : St α}
    (h : run (k0 δ) (new mb) (unitInserts xs) = some s) (hne : xs ≠ []) (hmb : xs.length ≤ mb) (x : α) :
    ∃ r, (cdf (k0 δ) s x).2 = some r ∧
      (countLT xs x : α) - 3 / 2 * max 1 (2 / δ * (xs.length : α)) ≤ (xs.length : α) * r ∧
      (xs.length : α) * r ≤ (countLE xs x : α) + 3 / 2 * max 1 (2 / δ * (xs.length : α)) :=
  cdf_rank_of_run (k0 δ) h hne hmb (k0_unit_wmax hδ h hne hmb) x

/-- (D) as fractions of `n`: the empirical distribution function `F̂` of the data satisfies
`F̂(v−) ≤ q + ε` and `q ≤ F̂(v) + ε` with `ε = 3/2·max (1/n) (2/δ)` -/
theorem quantile_rank_K0_frac {δ : α} (hδ : 0 < δ) {mb : Nat} {xs : List α} {s : St α}
    (h : run (k0 δ) (new mb) (unitInserts xs) = some s) (hne : xs ≠ []) (hmb : xs.length ≤ mb)
    {q : α} (hq0 : 0 ≤ q) (hq1 : q ≤ 1) :
    ∃ v, (quantile (k0 δ) s q).2 = .val v ∧
      (countLT xs v : α) / (xs.length : α) ≤ q + 3 / 2 * max (1 / (xs.length : α)) (2 / δ) ∧
      q ≤ (countLE xs v : α) / (xs.length : α) + 3 / 2 * max (1 / (xs.length : α)) (2 / δ) := by
  obtain ⟨v, hv, h1, h2⟩ := quantile_rank_K0 hδ h hne hmb hq0 hq1
  have hn : (0 : α) < (xs.length : α) := by exact_mod_cast List.length_pos_iff.2 hne
  rw [max_one_eq hn] at h1 h2
  refine ⟨v, hv, ?_, ?_⟩
  · rw [div_le_iff₀ hn]; linarith
  · refine le_of_mul_le_mul_right ?_ hn
    rw [add_mul, div_mul_cancel₀ _ hn.ne']
    linarith

/-- (D) as fractions of `n`, `cdf`: `F̂(x−) − ε ≤ cdf(x) ≤ F̂(x) + ε` with `ε = 3/2·max (1/n) (2/δ)` -/
theorem cdf_rank_K0_frac {δ : α} (hδ : 0 < δ) {mb : Nat} {xs : List α} {s : St α}
    (h : run (k0 δ) (new mb) (unitInserts xs) = some s) (hne : xs ≠ []) (hmb : xs.length ≤ mb) (x : α) :
    ∃ r, (cdf (k0 δ) s x).2 = some r ∧
      (countLT xs x : α) / (xs.length : α) - 3 / 2 * max (1 / (xs.length : α)) (2 / δ) ≤ r ∧
      r ≤ (countLE xs x : α) / (xs.length : α) + 3 / 2 * max (1 / (xs.length : α)) (2 / δ) := by
  obtain ⟨r, hr, h1, h2⟩ := cdf_rank_K0 hδ h hne hmb x
  have hn : (0 : α) < (xs.length : α) := by exact_mod_cast List.length_pos_iff.2 hne
  rw [max_one_eq hn] at h1 h2
  refine ⟨r, hr, ?_, ?_⟩
  · refine le_of_mul_le_mul_right ?_ hn
    rw [sub_mul, div_mul_cancel₀ _ hn.ne']
    linarith
  · refine le_of_mul_le_mul_right ?_ hn
    rw [add_mul, div_mul_cancel₀ _ hn.ne']
    linarith

/-! ### non-vacuity (over ℚ) -/

/-- six values in shuffled order -/
def exData : List ℚ := [3, 1, 6, 2, 5, 4]

/-- the state after inserting them with weight 1 (`K0`, `δ = 4`, room for 10 in the backlog) -/
def exBacklog : St ℚ :=
  ⟨[], 6, some 1, some 6, [⟨4, 1⟩, ⟨5, 1⟩, ⟨2, 1⟩, ⟨6, 1⟩, ⟨1, 1⟩, ⟨3, 1⟩], 10⟩

/-- the state after the compression: two clusters of three values each -/
def exDigest : St ℚ := ⟨[⟨6, 3⟩, ⟨15, 3⟩], 6, some 1, some 6, [], 10⟩

theorem ex_rank_run : run (k0 (4 : ℚ)) (new 10) (unitInserts exData) = some exBacklog := by
  norm_num [exData, exBacklog, unitInserts, run, step, insertWeighted, new, minOpt, maxOpt]

theorem ex_rank_merge : merge (k0 (4 : ℚ)) exBacklog = exDigest := by
  norm_num [exBacklog, exDigest, merge, List.mergeSort, List.MergeSort.Internal.splitInTwo,
    List.merge, mergeLoop, k0, Centroid.fuse, Centroid.mean, totalCount]

/-- the hypotheses of (A)/(B) hold for this digest -/
theorem ex_rank_onePass : OnePassUnit exDigest exData := by
  have := onePassUnit_of_run (k0 (4 : ℚ)) ex_rank_run (by simp [exData]) (by simp [exData])
  rwa [ex_rank_merge] at this

/-- … with `wmax = 3 = max 1 (2/δ·n)` -/
example : ∀ c ∈ exDigest.centroids, c.count ≤ max 1 (2 / 4 * (exData.length : ℚ)) := by
  have := k0_unit_wmax (by norm_num : (0 : ℚ) < 4) ex_rank_run (by simp [exData]) (by simp [exData])
  rwa [ex_rank_merge] at this

example : max 1 (2 / 4 * (exData.length : ℚ)) = 3 := by norm_num [exData]

/-- the median: the digest answers `7/2`; three values lie below it, three at or below; `n·q = 3` -/
example : quantileInner exDigest (1 / 2) = .val (7 / 2) := by
  norm_num [exDigest, quantileInner, quantileLoop, interpolate, clampedMean, totalCount, half,
    Centroid.mean]

example : countLT exData (7 / 2) = 3 ∧ countLE exData (7 / 2) = 3 := by
  constructor <;> norm_num [exData, countLT, countLE, List.filter]

example : cdfInner exDigest (7 / 2) = some (1 / 2) := by
  norm_num [exDigest, cdfInner, cdfLoop, interpolate, clampedMean, totalCount, half, Centroid.mean]

/-- (A) on the example, via the weighted-free statement for one-pass digests … -/
example : ∃ v, quantileInner exDigest (1 / 2) = .val v ∧
    (countLT exData v : ℚ) ≤ (exData.length : ℚ) * (1 / 2) + 3 / 2 * 3 ∧
    (exData.length : ℚ) * (1 / 2) ≤ (countLE exData v : ℚ) + 3 / 2 * 3 :=
  ex_rank_onePass.quantile_rank (wmax := 3) (by simp [exDigest]) (by norm_num) (by norm_num)

/-- … and end to end from the history with the `K0` bound -/
example : ∃ v, (quantile (k0 (4 : ℚ)) exBacklog (1 / 2)).2 = .val v ∧
    (countLT exData v : ℚ) ≤ (exData.length : ℚ) * (1 / 2) + 3 / 2 * max 1 (2 / 4 * (exData.length : ℚ)) ∧
    (exData.length : ℚ) * (1 / 2) ≤ (countLE exData v : ℚ) + 3 / 2 * max 1 (2 / 4 * (exData.length : ℚ)) :=
  quantile_rank_K0 (by norm_num) ex_rank_run (by simp [exData]) (by simp [exData]) (by norm_num)
    (by norm_num)

/-- (B) on the example, end to end -/
example : ∃ r, (cdf (k0 (4 : ℚ)) exBacklog (7 / 2)).2 = some r ∧
    (countLT exData (7 / 2) : ℚ) - 3 / 2 * max 1 (2 / 4 * (exData.length : ℚ)) ≤ (exData.length : ℚ) * r ∧
    (exData.length : ℚ) * r ≤ (countLE exData (7 / 2) : ℚ) + 3 / 2 * max 1 (2 / 4 * (exData.length : ℚ)) :=
  cdf_rank_K0 (by norm_num) ex_rank_run (by simp [exData]) (by simp [exData]) (7 / 2)

/-- `unitInserts xs` is by definition `xs.map (fun x => Op.insert x 1)`: a hypothesis written with the
explicit `map` is accepted as is -/
example (sf : ScaleFn α) {mb : Nat} {xs : List α} {s : St α}
    (h : run sf (new mb) (xs.map (fun x => Op.insert x 1)) = some s) (hne : xs ≠ [])
    (hmb : xs.length ≤ mb) : OnePassUnit (merge sf s) xs :=
  onePassUnit_of_run sf h hne hmb

end Pds.TDigest
