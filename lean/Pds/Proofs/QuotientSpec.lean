import Pds.Proofs.QuotientRefine
import Mathlib.Data.Finset.Dedup
/-!
Facts about the *specification* `specStep`/`specFrom` alone (no model involved): what the final
set and the result list of a history are.
-/
namespace Pds.Quotient
variable {N : Nat}

theorem specStep_mem (S : Finset (Fin N × Nat)) (x y : Fin N × Nat) :
    y ∈ (specStep S x).1 ↔ (y ∈ S ∨ (y = x ∧ (specStep S x).2 = .ok true)) := by
  unfold specStep
  by_cases h1 : x ∈ S
  · simp [h1]
  · by_cases h2 : S.card = N
    · simp [h1, h2]
    · simp only [h1, h2, if_false, Finset.mem_insert, and_true]
      exact or_comm

theorem specStep_mono (S : Finset (Fin N × Nat)) (x : Fin N × Nat) : S ⊆ (specStep S x).1 :=
  fun y hy => (specStep_mem S x y).mpr (Or.inl hy)

theorem specStep_ok_true_iff (S : Finset (Fin N × Nat)) (x : Fin N × Nat) :
    (specStep S x).2 = .ok true ↔ (x ∉ S ∧ S.card ≠ N) := by
  unfold specStep
  by_cases h1 : x ∈ S
  · simp [h1]
  · by_cases h2 : S.card = N <;> simp [h1, h2]

theorem specStep_ok_false_iff (S : Finset (Fin N × Nat)) (x : Fin N × Nat) :
    (specStep S x).2 = .ok false ↔ x ∈ S := by
  unfold specStep
  by_cases h1 : x ∈ S
  · simp [h1]
  · by_cases h2 : S.card = N <;> simp [h1, h2]

theorem specStep_full_iff (S : Finset (Fin N × Nat)) (x : Fin N × Nat) :
    (specStep S x).2 = .full ↔ (x ∉ S ∧ S.card = N) := by
  unfold specStep
  by_cases h1 : x ∈ S
  · simp [h1]
  · by_cases h2 : S.card = N <;> simp [h1, h2]

theorem specFrom_append (S : Finset (Fin N × Nat)) (h1 h2 : List (Fin N × Nat)) :
    specFrom S (h1 ++ h2) =
      ((specFrom (specFrom S h1).1 h2).1, (specFrom S h1).2 ++ (specFrom (specFrom S h1).1 h2).2) := by
  induction h1 generalizing S with
  | nil => rfl
  | cons x xs ih => simp [specFrom, ih]

theorem specFrom_length (S : Finset (Fin N × Nat)) (h : List (Fin N × Nat)) :
    (specFrom S h).2.length = h.length := by
  induction h generalizing S with
  | nil => rfl
  | cons x xs ih => simp [specFrom, ih]

/-- a pair is in the final set iff it was there initially or some insert of it returned `ok true` -/
theorem specFrom_mem (S : Finset (Fin N × Nat)) (h : List (Fin N × Nat)) (y : Fin N × Nat) :
    y ∈ (specFrom S h).1 ↔ (y ∈ S ∨ ∃ pre post, h = pre ++ y :: post ∧
      (specStep (specFrom S pre).1 y).2 = .ok true) := by
  induction h generalizing S with
  | nil => simp [specFrom]
  | cons x xs ih =>
    show y ∈ (specFrom (specStep S x).1 xs).1 ↔ _
    rw [ih, specStep_mem]
    constructor
    · rintro ((h1 | ⟨rfl, h2⟩) | ⟨pre, post, rfl, h2⟩)
      · exact Or.inl h1
      · exact Or.inr ⟨[], xs, rfl, h2⟩
      · exact Or.inr ⟨x :: pre, post, rfl, h2⟩
    · rintro (h1 | ⟨pre, post, h2, h3⟩)
      · exact Or.inl (Or.inl h1)
      · rcases pre with _ | ⟨p, pre⟩
        · simp only [List.nil_append, List.cons.injEq] at h2
          obtain ⟨rfl, rfl⟩ := h2
          exact Or.inl (Or.inr ⟨rfl, h3⟩)
        · simp only [List.cons_append, List.cons.injEq] at h2
          obtain ⟨rfl, rfl⟩ := h2
          exact Or.inr ⟨pre, post, rfl, h3⟩

/-- if all distinct pairs fit, nothing is rejected and the final set is the set of inserted pairs -/
theorem specFrom_fits (S : Finset (Fin N × Nat)) (h : List (Fin N × Nat))
    (hfit : (S ∪ h.toFinset).card ≤ N) :
    (specFrom S h).1 = S ∪ h.toFinset ∧ ∀ res ∈ (specFrom S h).2, res ≠ .full := by
  induction h generalizing S with
  | nil => simp [specFrom]
  | cons x xs ih =>
    have hS1 : (specStep S x).1 = Insert.insert x S ∧ (specStep S x).2 ≠ .full := by
      unfold specStep
      by_cases h1 : x ∈ S
      · simp [h1, Finset.insert_eq_of_mem h1]
      · have : S.card ≠ N := by
          intro h2
          have hsub : Insert.insert x S ⊆ S ∪ (x :: xs).toFinset := by
            intro y hy
            rcases Finset.mem_insert.mp hy with rfl | hy
            · exact Finset.mem_union_right _ (by simp)
            · exact Finset.mem_union_left _ hy
          have := Finset.card_le_card hsub
          rw [Finset.card_insert_of_notMem h1] at this
          omega
        simp [h1, this]
    have heq : Insert.insert x S ∪ xs.toFinset = S ∪ (x :: xs).toFinset := by
      rw [List.toFinset_cons, Finset.insert_union, Finset.union_insert]
    obtain ⟨i1, i2⟩ := ih (specStep S x).1 (by rw [hS1.1, heq]; exact hfit)
    constructor
    · show (specFrom (specStep S x).1 xs).1 = _
      rw [i1, hS1.1, heq]
    · intro res hres
      simp only [specFrom, List.mem_cons] at hres
      rcases hres with rfl | hres
      · exact hS1.2
      · exact i2 res hres

end Pds.Quotient
