import Pds.Proofs.QuotientInsert2
/-!
Reference-free statements: `Stores t P` says that `t` satisfies the invariant (for some unshifted
reference slot and ghost) and stores exactly the pairs satisfying `P`.
-/
namespace Pds.Quotient
variable {N : Nat}

/-- `t` is a well-formed table storing exactly the pairs `P` -/
def Stores (t : St N) (P : Fin N → Nat → Prop) : Prop :=
  ∃ z qt, LInv t z qt ∧ ∀ a r, Abs t z qt a r ↔ P a r

/-- move the reference slot to the start of the cluster containing `a` -/
theorem to_cluster {t : St N} {z : Fin N} {qt : Nat → Nat} (h : LInv t z qt) (a : Fin N) :
    ∃ z' qt' ka, ClusterCtx t z' qt' ka ∧ a = pos z' ka ∧
      ∀ a r, Abs t z' qt' a r ↔ Abs t z qt a r := by
  obtain ⟨ka0, hka0, rfl⟩ := exists_pos z a
  obtain ⟨kb, h1, _, h3, h4⟩ := walkBack_spec h ka0 (N + 1) hka0 (by omega)
  have hkb : kb < N := by omega
  refine ⟨pos z kb, rebQt N kb qt, ka0 - kb, ⟨h.rebase hkb h3, by omega, ?_⟩, ?_, h.rebase_abs hkb h3⟩
  · intro k hk1 hk2
    rw [at_rebase1]
    exact h4 (k + kb) (by omega) (by omega)
  · rw [pos_pos]; congr 1; omega

theorem stores_empty (hN : 0 < N) : Stores (empty N) (fun _ _ => False) := by
  refine ⟨⟨0, hN⟩, fun k => k, ?_, ?_⟩
  · constructor <;> intros <;> simp_all [St.at, Slot.used]
  · intro a r
    simp [Abs, St.at, Slot.used]

theorem scan_gen {t : St N} {P : Fin N → Nat → Prop} (hs : Stores t P) (a : Fin N) (r : Nat)
    (oi : Bool) : ∃ sr, scan t a r oi = some sr ∧ (sr.present = true ↔ P a r) := by
  obtain ⟨z, qt, h, hP⟩ := hs
  obtain ⟨z', qt', ka, c, rfl, habs⟩ := to_cluster h a
  obtain ⟨sr, h1, h2, _⟩ := scan_spec c r oi
  exact ⟨sr, h1, by rw [h2, habs, hP]⟩

theorem insert_known {t : St N} {P : Fin N → Nat → Prop} (hs : Stores t P) {a : Fin N} {r : Nat}
    (hp : P a r) : insertInternal t a r = some (t, .ok false) := by
  obtain ⟨sr, h1, h2⟩ := scan_gen hs a r true
  rw [insertInternal_eq, h1]
  simp [h2.mpr hp]

theorem insert_full {t : St N} {P : Fin N → Nat → Prop} (hs : Stores t P) {a : Fin N} {r : Nat}
    (hp : ¬ P a r) (hn : t.n = N) : insertInternal t a r = some (t, .full) := by
  obtain ⟨sr, h1, h2⟩ := scan_gen hs a r true
  have : sr.present = false := by
    cases hx : sr.present
    · rfl
    · exact absurd (h2.mp hx) hp
  rw [insertInternal_eq, h1]
  simp [this, hn]

theorem insert_fresh {t : St N} {P : Fin N → Nat → Prop} (hs : Stores t P) {a : Fin N} {r : Nat}
    (hp : ¬ P a r) (hn : t.n ≠ N) (hfree : ∃ p, (t.get p).used = false) :
    ∃ tf, insertInternal t a r = some (tf, .ok true) ∧ tf.n = t.n + 1 ∧
      Stores tf (fun a' r' => P a' r' ∨ (a' = a ∧ r' = r)) ∧
      ∃ sr, scan t a r true = some sr ∧ (tf.get sr.position).rem = r := by
  obtain ⟨z, qt, h, hP⟩ := hs
  obtain ⟨z', qt', ka, c, rfl, habs⟩ := to_cluster h a
  obtain ⟨p, hp0⟩ := hfree
  obtain ⟨e, he, rfl⟩ := exists_pos z' p
  obtain ⟨tf, qtf, h1, h2, h3, h4, h5⟩ := insert_new c r (by rw [habs, hP]; exact hp) hn ⟨e, he, hp0⟩
  refine ⟨tf, h1, h2, ⟨z', qtf, h3, ?_⟩, h5⟩
  intro a' r'
  rw [h4, habs, hP]

end Pds.Quotient
