/-
Invariant of the `LossyCounter` model (`Pds.Lossy`) along a stream, in natural-number arithmetic.
-/
import Pds.Model.Lossy
namespace Pds.Proofs.Lossy
open Pds.Lossy

/-- the keys of the tracked entries -/
def keys (l : List Entry) : List Nat := l.map (·.key)

/-- feed a stream to a counter -/
def run (s0 : St) (xs : List Nat) : St := xs.foldl (fun s x => (add s x).1) s0

theorem run_snoc (s0 : St) (xs : List Nat) (x : Nat) : run s0 (xs ++ [x]) = (add (run s0 xs) x).1 := by
  simp [run, List.foldl_append]

/-! ### window arithmetic -/

/-- the current window index `⌈(n+1)/w⌉` computed by `add` is `⌊n/w⌋ + 1` -/
theorem bCur_eq {n w : Nat} :
    (n + 1) / w + (if (n + 1) % w = 0 then 0 else 1) = n / w + 1 := by
  rw [Nat.succ_div]
  by_cases h : w ∣ n + 1
  · have : (n + 1) % w = 0 := Nat.mod_eq_zero_of_dvd h
    simp [h, this]
  · have : (n + 1) % w ≠ 0 := fun h' => h (Nat.dvd_of_mod_eq_zero h')
    simp [h, this]

theorem div_succ_of_end {n w : Nat} (h : (n + 1) % w = 0) : (n + 1) / w = n / w + 1 := by
  rw [Nat.succ_div]; simp [Nat.dvd_of_mod_eq_zero h]

theorem div_succ_of_not_end {n w : Nat} (h : ¬ (n + 1) % w = 0) : (n + 1) / w = n / w := by
  rw [Nat.succ_div]
  have : ¬ w ∣ n + 1 := fun h' => h (Nat.mod_eq_zero_of_dvd h')
  simp [this]

/-- `Δ + 1 ≤ ⌈n/w⌉` in multiplication form -/
theorem delta_ceil_iff {d n w : Nat} (hw : 0 < w) : d + 1 ≤ (n + w - 1) / w ↔ d * w + 1 ≤ n := by
  rw [Nat.le_div_iff_mul_le hw, Nat.add_mul]
  omega

/-! ### `bump` -/

theorem bump_none_iff (x : Nat) (l : List Entry) : bump x l = none ↔ x ∉ keys l := by
  induction l with
  | nil => simp [bump, keys]
  | cons e es ih =>
    simp only [bump, keys, List.map_cons, List.mem_cons, not_or]
    by_cases h : e.key = x
    · simp [h]
    · simp only [h, if_false, Option.map_eq_none_iff]
      rw [ih]; simp [keys, Ne.symm h]

theorem bump_keys {x : Nat} {l l' : List Entry} (h : bump x l = some l') : keys l' = keys l := by
  induction l generalizing l' with
  | nil => simp [bump] at h
  | cons e es ih =>
    simp only [bump] at h
    by_cases hk : e.key = x
    · rw [if_pos hk, Option.some.injEq] at h
      subst h; simp [keys]
    · simp only [hk, if_false, Option.map_eq_some_iff] at h
      obtain ⟨k, hk', rfl⟩ := h
      simp [keys] at ih ⊢
      exact ih hk'

/-- with distinct keys, `bump` increments exactly the entry of `x` -/
theorem bump_mem {x : Nat} {l l' : List Entry} (hnd : (keys l).Nodup) (h : bump x l = some l')
    {e' : Entry} (he' : e' ∈ l') :
    (e'.key ≠ x ∧ e' ∈ l) ∨ (∃ e ∈ l, e.key = x ∧ e' = { e with f := e.f + 1 }) := by
  induction l generalizing l' with
  | nil => simp [bump] at h
  | cons e es ih =>
    simp only [bump] at h
    simp only [keys, List.map_cons, List.nodup_cons] at hnd
    by_cases hk : e.key = x
    · rw [if_pos hk, Option.some.injEq] at h
      subst h
      rcases List.mem_cons.1 he' with rfl | hm
      · exact Or.inr ⟨e, by simp, hk, rfl⟩
      · left
        refine ⟨?_, by simp [hm]⟩
        intro hx
        exact hnd.1 (List.mem_map.2 ⟨e', hm, by rw [hx, hk]⟩)
    · simp only [hk, if_false, Option.map_eq_some_iff] at h
      obtain ⟨k, hk', rfl⟩ := h
      rcases List.mem_cons.1 he' with rfl | hm
      · exact Or.inl ⟨hk, by simp⟩
      · rcases ih hnd.2 hk' hm with ⟨h1, h2⟩ | ⟨e0, h1, h2, h3⟩
        · exact Or.inl ⟨h1, by simp [h2]⟩
        · exact Or.inr ⟨e0, by simp [h1], h2, h3⟩

/-! ### `add`, with the window index simplified -/

/-- the entry list after the increment / insertion, before pruning -/
def touched (s : St) (x : Nat) : List Entry :=
  match bump x s.known with
  | some k => k
  | none => ⟨x, 1, s.n / s.width⟩ :: s.known

theorem add_eq (s : St) (x : Nat) :
    add s x =
      ({ s with
          n := s.n + 1,
          known := if (s.n + 1) % s.width = 0
            then (touched s x).filter (fun e => e.f + e.delta > s.n / s.width + 1)
            else touched s x },
       (bump x s.known).isNone) := by
  unfold add touched
  simp only [bCur_eq, Nat.add_sub_cancel]
  cases bump x s.known <;> simp

theorem add_fst_width (s : St) (x : Nat) : (add s x).1.width = s.width := rfl
theorem add_fst_n (s : St) (x : Nat) : (add s x).1.n = s.n + 1 := rfl

/-! ### the invariant -/

/-- what holds of a tracked entry after the stream `xs` (window width `w`) -/
structure EntryOk (w : Nat) (xs : List Nat) (e : Entry) : Prop where
  f_pos : 1 ≤ e.f
  f_le : e.f ≤ xs.count e.key
  le_fd : xs.count e.key ≤ e.f + e.delta
  delta_lt : e.delta * w + 1 ≤ xs.length
  /-- `f` only counts occurrences since the start of window `Δ + 1` -/
  recent : e.f ≤ (xs.drop (e.delta * w)).count e.key

structure Inv (w : Nat) (xs : List Nat) (s : St) : Prop where
  width_eq : s.width = w
  n_eq : s.n = xs.length
  nodup : (keys s.known).Nodup
  entries : ∀ e ∈ s.known, EntryOk w xs e
  /-- an entry survives the pruning at the end of every completed window -/
  alive : ∀ e ∈ s.known, xs.length / w < e.f + e.delta
  untracked : ∀ x, x ∉ keys s.known → xs.count x ≤ xs.length / w

theorem inv_new {w : Nat} : Inv w [] ⟨w, 0, []⟩ :=
  ⟨rfl, rfl, by simp [keys], by simp, by simp, by simp⟩

theorem entryOk_snoc_other {w : Nat} {xs : List Nat} {e : Entry} {x : Nat} (h : EntryOk w xs e)
    (hx : e.key ≠ x) : EntryOk w (xs ++ [x]) e := by
  have hle : e.delta * w ≤ xs.length := by have := h.delta_lt; omega
  have hc : List.count e.key [x] = 0 := by simp [Ne.symm hx]
  refine ⟨h.f_pos, ?_, ?_, ?_, ?_⟩
  · rw [List.count_append, hc]; exact h.f_le
  · rw [List.count_append, hc]; exact h.le_fd
  · have := h.delta_lt; simp; omega
  · rw [List.drop_append_of_le_length hle, List.count_append, hc]; exact h.recent

theorem entryOk_snoc_bump {w : Nat} {xs : List Nat} {e : Entry} (h : EntryOk w xs e) :
    EntryOk w (xs ++ [e.key]) { e with f := e.f + 1 } := by
  have hle : e.delta * w ≤ xs.length := by have := h.delta_lt; omega
  have hc : List.count e.key [e.key] = 1 := by simp
  refine ⟨by simp, ?_, ?_, ?_, ?_⟩ <;> dsimp only
  · show e.f + 1 ≤ _
    rw [List.count_append, hc]; have := h.f_le; omega
  · show _ ≤ e.f + 1 + e.delta
    rw [List.count_append, hc]; have := h.le_fd; omega
  · show e.delta * w + 1 ≤ _
    have := h.delta_lt; simp; omega
  · show e.f + 1 ≤ (List.drop (e.delta * w) _).count e.key
    rw [List.drop_append_of_le_length hle, List.count_append, hc]; have := h.recent; omega

theorem entryOk_snoc_new {w : Nat} {xs : List Nat} {x : Nat} (hx : xs.count x ≤ xs.length / w) :
    EntryOk w (xs ++ [x]) ⟨x, 1, xs.length / w⟩ := by
  have hle : xs.length / w * w ≤ xs.length := Nat.div_mul_le_self _ _
  have hc : List.count x [x] = 1 := by simp
  refine ⟨by simp, ?_, ?_, ?_, ?_⟩ <;> dsimp only
  · show 1 ≤ _
    rw [List.count_append, hc]; omega
  · show _ ≤ 1 + xs.length / w
    rw [List.count_append, hc]; omega
  · show xs.length / w * w + 1 ≤ _
    simp; omega
  · show 1 ≤ (List.drop (xs.length / w * w) _).count x
    rw [List.drop_append_of_le_length hle, List.count_append, hc]; omega

/-- the list before pruning: keys, and entry properties -/
theorem touched_spec {w : Nat} {xs : List Nat} {s : St} (h : Inv w xs s) (x : Nat) :
    (keys (touched s x)).Nodup ∧
    (∀ y, y ∈ keys (touched s x) ↔ y = x ∨ y ∈ keys s.known) ∧
    (∀ e ∈ touched s x, EntryOk w (xs ++ [x]) e ∧ xs.length / w < e.f + e.delta) := by
  unfold touched
  cases hb : bump x s.known with
  | none =>
    have hx : x ∉ keys s.known := (bump_none_iff x s.known).1 hb
    refine ⟨?_, ?_, ?_⟩
    · simp only [keys, List.map_cons, List.nodup_cons]
      exact ⟨hx, h.nodup⟩
    · intro y; simp [keys]
    · intro e he
      rcases List.mem_cons.1 he with rfl | hm
      · rw [h.n_eq, h.width_eq]
        refine ⟨entryOk_snoc_new (h.untracked x hx), ?_⟩
        dsimp only; omega
      · have hne : e.key ≠ x := fun hk => hx (List.mem_map.2 ⟨e, hm, hk⟩)
        exact ⟨entryOk_snoc_other (h.entries e hm) hne, h.alive e hm⟩
  | some k =>
    have hk := bump_keys hb
    have hx : x ∈ keys s.known := by
      apply Decidable.byContradiction
      intro hx; rw [(bump_none_iff x s.known).2 hx] at hb; cases hb
    dsimp only
    refine ⟨?_, ?_, ?_⟩
    · simp only [hk]; exact h.nodup
    · intro y; simp only [hk]
      constructor
      · exact Or.inr
      · rintro (rfl | h') <;> assumption
    · intro e' he'
      rcases bump_mem h.nodup hb he' with ⟨h1, h2⟩ | ⟨e, h1, h2, rfl⟩
      · exact ⟨entryOk_snoc_other (h.entries e' h2) h1, h.alive e' h2⟩
      · subst h2
        refine ⟨entryOk_snoc_bump (h.entries e h1), ?_⟩
        have := h.alive e h1
        show _ < e.f + 1 + e.delta
        omega

theorem keys_filter_nodup {l : List Entry} (p : Entry → Bool) (h : (keys l).Nodup) :
    (keys (l.filter p)).Nodup :=
  List.Nodup.sublist (List.Sublist.map _ List.filter_sublist) h

/-- the invariant is preserved by `add` -/
theorem inv_add {w : Nat} {xs : List Nat} {s : St} (h : Inv w xs s) (x : Nat) :
    Inv w (xs ++ [x]) (add s x).1 := by
  obtain ⟨tnd, tkeys, tent⟩ := touched_spec h x
  rw [add_eq s x]
  simp only [h.width_eq, h.n_eq] at *
  have hlen : (xs ++ [x]).length = xs.length + 1 := by simp
  by_cases hend : (xs.length + 1) % w = 0
  · -- a window ends: prune
    have hq : (xs.length + 1) / w = xs.length / w + 1 := div_succ_of_end hend
    simp only [hend, if_true]
    refine ⟨rfl, by simp, keys_filter_nodup _ tnd, ?_, ?_, ?_⟩
    · intro e he
      exact (tent e (List.mem_filter.1 he).1).1
    · intro e he
      have := (List.mem_filter.1 he).2
      rw [hlen, hq]; simpa using this
    · intro y hy
      rw [hlen, hq]
      by_cases hyk : y ∈ keys (touched s x)
      · obtain ⟨e, he, rfl⟩ := List.mem_map.1 hyk
        have hnf : ¬ (e.f + e.delta > xs.length / w + 1) := by
          intro hgt
          exact hy (List.mem_map.2 ⟨e, List.mem_filter.2 ⟨he, by simpa using hgt⟩, rfl⟩)
        have := (tent e he).1.le_fd
        omega
      · rw [tkeys] at hyk
        have hne : y ≠ x := fun hh => hyk (Or.inl hh)
        have hc : List.count y [x] = 0 := by simp [Ne.symm hne]
        rw [List.count_append, hc]
        have := h.untracked y (fun hh => hyk (Or.inr hh))
        omega
  · have hq : (xs.length + 1) / w = xs.length / w := div_succ_of_not_end hend
    simp only [hend, if_false]
    refine ⟨rfl, by simp, tnd, fun e he => (tent e he).1, ?_, ?_⟩
    · intro e he
      rw [hlen, hq]; exact (tent e he).2
    · intro y hy
      rw [hlen, hq]
      rw [tkeys] at hy
      have hne : y ≠ x := fun hh => hy (Or.inl hh)
      have hc : List.count y [x] = 0 := by simp [Ne.symm hne]
      rw [List.count_append, hc]
      exact h.untracked y (fun hh => hy (Or.inr hh))

/-- the invariant holds at every prefix -/
theorem snoc_induction {α : Type} {P : List α → Prop} (nil : P [])
    (snoc : ∀ xs x, P xs → P (xs ++ [x])) : ∀ xs, P xs := by
  intro xs
  rw [← List.reverse_reverse xs]
  induction xs.reverse with
  | nil => exact nil
  | cons a l ih => rw [List.reverse_cons]; exact snoc _ _ ih

theorem inv_run (w : Nat) (xs : List Nat) : Inv w xs (run ⟨w, 0, []⟩ xs) := by
  induction xs using snoc_induction with
  | nil => exact inv_new
  | snoc xs x ih => rw [run_snoc]; exact inv_add ih x

theorem new_eq {w : Nat} (hw : 0 < w) : new w = some ⟨w, 0, []⟩ := by simp [new, hw]

end Pds.Proofs.Lossy
