import Pds.Model.HllCount
/-!
Kernel-evaluated facts about the generated HyperLogLog++ tables (C03 part C).  Every table fact is a
closed Boolean check over the exact decimals `rawDec`/`biasDec` (or the `UInt64` bit patterns),
evaluated by `decide +kernel` in one pass over the row, and then turned into an indexed statement
(`∀ i < size, …`) by a generic soundness lemma proved once.
-/
set_option maxRecDepth 8000
namespace Pds.HllCount
open Pds.Generated

/-- a decimal literal `mantissa / 10^exp` -/
abbrev Dec := Int × Nat

/-- `d · 10^18` as an integer (exact when `exp ≤ 18`; every table entry has `exp ≤ 16`). -/
def scaled (d : Dec) : Int := d.1 * 10 ^ (18 - d.2)

/-- `row[i]` (`0` outside the row) -/
def entry (row : Array Dec) (i : Nat) : Dec := row.getD i (0, 0)

/-- nearest integer to `X / 10^18` -/
def nearest (X : Int) : Int := (X + 5 * 10 ^ 17) / 10 ^ 18

/-- `(raw[i] − bias[i]) · 10^18` -/
def diffScaled (raw bias : Array Dec) (i : Nat) : Int := scaled (entry raw i) - scaled (entry bias i)

/-- the integer nearest to `raw[i] − bias[i]`: the calibrated cardinality at table point `i` -/
def calC (raw bias : Array Dec) (i : Nat) : Int := nearest (diffScaled raw bias i)

/-- smaller step of the calibrated cardinalities of row `b`: `max 1 ⌊2^b/40⌋` -/
def stepLo (b : Nat) : Nat := max 1 (2 ^ b / 40)
/-- larger step: `⌊2^b/40⌋ + 1` -/
def stepHi (b : Nat) : Nat := 2 ^ b / 40 + 1

/-- Calibration of one precision row (`b` = precision):
* raw and bias rows have the same positive length, all decimal exponents are `≤ 18`;
* `|raw[i] − bias[i] − c[i]| ≤ 2^b · 10^-15` (print noise of an f64 of magnitude `≤ 5·2^b`);
* `c[0] = 1`; successive differences of `c` lie in `{max 1 ⌊2^b/40⌋, ⌊2^b/40⌋ + 1}`
  (200 table points spread over `0 … 5·2^b`); `c[last] ≤ 5·2^b`. -/
def CalRow (raw bias : Array Dec) (b : Nat) : Prop :=
  raw.size = bias.size ∧ 0 < raw.size ∧
  (∀ i, i < raw.size → (entry raw i).2 ≤ 18 ∧ (entry bias i).2 ≤ 18) ∧
  (∀ i, i < raw.size → (diffScaled raw bias i - calC raw bias i * 10 ^ 18).natAbs ≤ 1000 * 2 ^ b) ∧
  calC raw bias 0 = 1 ∧
  (∀ i, i + 1 < raw.size →
    calC raw bias (i + 1) - calC raw bias i = (stepLo b : Int) ∨
    calC raw bias (i + 1) - calC raw bias i = (stepHi b : Int)) ∧
  calC raw bias (raw.size - 1) ≤ 5 * 2 ^ b

/-! ### generic list plumbing -/

/-- a Boolean relation holds between all adjacent elements -/
def adjAll (P : Int → Int → Bool) : List Int → Bool
  | a :: b :: t => P a b && adjAll P (b :: t)
  | _ => true

theorem adjAll_iff (P : Int → Int → Bool) (l : List Int) :
    adjAll P l = true ↔ ∀ i, i + 1 < l.length → P (l.getD i 0) (l.getD (i + 1) 0) = true := by
  induction l with
  | nil => simp [adjAll]
  | cons a t ih =>
    cases t with
    | nil => simp [adjAll]
    | cons b t =>
      simp only [adjAll, Bool.and_eq_true, ih]
      constructor
      · rintro ⟨h0, h⟩ i hi
        cases i with
        | zero => simpa using h0
        | succ i =>
          have := h i (by simpa using hi)
          simpa using this
      · intro h
        refine ⟨by simpa using h 0 (by simp), fun i hi => ?_⟩
        have := h (i + 1) (by simpa using hi)
        simpa using this

/-- indices `k + j` of the descents `l[j+1] < l[j]` -/
def descentsFrom (k : Nat) : List Int → List Nat
  | a :: b :: t => if b < a then k :: descentsFrom (k + 1) (b :: t) else descentsFrom (k + 1) (b :: t)
  | _ => []

theorem mem_descentsFrom (l : List Int) : ∀ k x,
    x ∈ descentsFrom k l ↔ ∃ j, x = k + j ∧ j + 1 < l.length ∧ l.getD (j + 1) 0 < l.getD j 0 := by
  induction l with
  | nil => intro k x; simp [descentsFrom]
  | cons a t ih =>
    cases t with
    | nil => intro k x; simp [descentsFrom]
    | cons b t =>
      intro k x
      have key : (∃ j, x = k + j ∧ j + 1 < (a :: b :: t).length ∧
            (a :: b :: t).getD (j + 1) 0 < (a :: b :: t).getD j 0) ↔
          (x = k ∧ b < a) ∨ ∃ j, x = k + 1 + j ∧ j + 1 < (b :: t).length ∧
            (b :: t).getD (j + 1) 0 < (b :: t).getD j 0 := by
        constructor
        · rintro ⟨j, hx, hj, hlt⟩
          cases j with
          | zero => exact Or.inl ⟨by omega, by simpa using hlt⟩
          | succ j => exact Or.inr ⟨j, by omega, by simpa using hj, by simpa using hlt⟩
        · rintro (⟨hx, hlt⟩ | ⟨j, hx, hj, hlt⟩)
          · exact ⟨0, by omega, by simp, by simpa using hlt⟩
          · exact ⟨j + 1, by omega, by simpa using hj, by simpa using hlt⟩
      rw [key]
      simp only [descentsFrom]
      split
      · rename_i hlt
        rw [List.mem_cons, ih]
        simp [hlt]
      · rename_i hlt
        rw [ih]
        simp [hlt]

theorem getD_zipWith {α β γ : Type} (f : α → β → γ) (d1 : α) (d2 : β) (d : γ) (hd : f d1 d2 = d) :
    ∀ (l1 : List α) (l2 : List β), l1.length = l2.length → ∀ i,
      (List.zipWith f l1 l2).getD i d = f (l1.getD i d1) (l2.getD i d2) := by
  intro l1
  induction l1 with
  | nil => intro l2 h i; cases l2 <;> simp_all
  | cons a t ih =>
    intro l2 h i
    cases l2 with
    | nil => simp at h
    | cons b t2 =>
      cases i with
      | zero => simp
      | succ i => simpa using ih t2 (by simpa using h) i

theorem toList_getD {α : Type} (a : Array α) (i : Nat) (d : α) : a.toList.getD i d = a.getD i d := by
  simp [List.getD, Array.getD]
  split <;> simp_all

/-! ### one-pass checks and their soundness -/

/-- `c` as a list -/
def rowC (raw bias : List Dec) : List Int :=
  List.zipWith (fun r b => nearest (scaled r - scaled b)) raw bias

/-- exponents and rounding error, entry by entry -/
def rowErrOk (tol : Nat) (raw bias : List Dec) : Bool :=
  (List.zipWith (fun r b => decide (r.2 ≤ 18 ∧ b.2 ≤ 18 ∧
      ((scaled r - scaled b) - nearest (scaled r - scaled b) * 10 ^ 18).natAbs ≤ tol)) raw bias).all id

def calRowCheck (raw bias : Array Dec) (b : Nat) : Bool :=
  raw.size == bias.size && decide (0 < raw.size) &&
  rowErrOk (1000 * 2 ^ b) raw.toList bias.toList &&
  ((rowC raw.toList bias.toList).getD 0 0 == 1) &&
  adjAll (fun x y => y - x == (stepLo b : Int) || y - x == (stepHi b : Int))
    (rowC raw.toList bias.toList) &&
  decide ((rowC raw.toList bias.toList).getD (raw.size - 1) 0 ≤ 5 * 2 ^ b)

theorem getD_rowC (raw bias : Array Dec) (h : raw.size = bias.size) (i : Nat) :
    (rowC raw.toList bias.toList).getD i 0 = calC raw bias i := by
  unfold rowC
  rw [getD_zipWith _ (0, 0) (0, 0) 0 (by decide) _ _ (by simpa using h), toList_getD, toList_getD]
  rfl

theorem calRowCheck_sound {raw bias : Array Dec} {b : Nat} (h : calRowCheck raw bias b = true) :
    CalRow raw bias b := by
  unfold calRowCheck at h
  simp only [Bool.and_eq_true, beq_iff_eq, decide_eq_true_eq] at h
  obtain ⟨⟨⟨⟨⟨hsz, hpos⟩, herr⟩, h0⟩, hsteps⟩, hlast⟩ := h
  have hlen : (rowC raw.toList bias.toList).length = raw.size := by
    simp [rowC, ← hsz]
  have herr' : ∀ i, i < raw.size → (entry raw i).2 ≤ 18 ∧ (entry bias i).2 ≤ 18 ∧
      (diffScaled raw bias i - calC raw bias i * 10 ^ 18).natAbs ≤ 1000 * 2 ^ b := by
    intro i hi
    unfold rowErrOk at herr
    rw [List.all_eq_true] at herr
    have hi2 : i < bias.size := hsz ▸ hi
    have := herr (decide ((raw[i]).2 ≤ 18 ∧ (bias[i]).2 ≤ 18 ∧
      ((scaled raw[i] - scaled bias[i]) - nearest (scaled raw[i] - scaled bias[i]) * 10 ^ 18).natAbs
        ≤ 1000 * 2 ^ b)) (by
        rw [List.mem_iff_getElem]
        refine ⟨i, by simpa [← hsz] using hi, ?_⟩
        simp)
    have e1 : entry raw i = raw[i] := by simp [entry, Array.getD, hi]
    have e2 : entry bias i = bias[i] := by simp [entry, Array.getD, hi2]
    simpa [calC, diffScaled, e1, e2] using this
  refine ⟨hsz, hpos, fun i hi => ⟨(herr' i hi).1, (herr' i hi).2.1⟩, fun i hi => (herr' i hi).2.2, ?_, ?_, ?_⟩
  · rw [← getD_rowC raw bias hsz]; exact h0
  · intro i hi
    rw [adjAll_iff] at hsteps
    have := hsteps i (by rw [hlen]; exact hi)
    rw [getD_rowC raw bias hsz, getD_rowC raw bias hsz] at this
    simp only [Bool.or_eq_true, beq_iff_eq] at this
    exact this
  · rw [← getD_rowC raw bias hsz]; exact hlast


/-! ### consequences of `CalRow` -/

theorem stepLo_pos (b : Nat) : 1 ≤ stepLo b := by unfold stepLo; omega
theorem stepLo_le_stepHi (b : Nat) : stepLo b ≤ stepHi b := by
  unfold stepLo stepHi; generalize 2 ^ b / 40 = q; omega

/-- The calibrated cardinalities grow by at least `stepLo` and at most `stepHi` per table point. -/
theorem CalRow.affine {raw bias : Array Dec} {b : Nat} (h : CalRow raw bias b) :
    ∀ i, i < raw.size → 1 + (i : Int) * stepLo b ≤ calC raw bias i ∧ calC raw bias i ≤ 1 + (i : Int) * stepHi b := by
  obtain ⟨_, _, _, _, h0, hstep, _⟩ := h
  intro i
  induction i with
  | zero => intro _; rw [h0]; simp
  | succ i ih =>
    intro hi
    have ⟨l, u⟩ := ih (by omega)
    have hle : (stepLo b : Int) ≤ stepHi b := by exact_mod_cast stepLo_le_stepHi b
    have e1 : ((i + 1 : Nat) : Int) * (stepLo b : Int) = (i : Int) * stepLo b + stepLo b := by
      rw [Int.natCast_add, Int.add_mul]; simp
    have e2 : ((i + 1 : Nat) : Int) * (stepHi b : Int) = (i : Int) * stepHi b + stepHi b := by
      rw [Int.natCast_add, Int.add_mul]; simp
    rw [e1, e2]
    rcases hstep i hi with hs | hs <;> omega

/-- … in particular they are strictly increasing along the row. -/
theorem CalRow.strictMono {raw bias : Array Dec} {b : Nat} (h : CalRow raw bias b) :
    ∀ j i, i < j → j < raw.size → calC raw bias i < calC raw bias j := by
  obtain ⟨_, _, _, _, _, hstep, _⟩ := h
  have hlo : (1 : Int) ≤ stepLo b := by exact_mod_cast stepLo_pos b
  have hhi : (1 : Int) ≤ stepHi b := by have := stepLo_le_stepHi b; omega
  intro j
  induction j with
  | zero => intro i hi; omega
  | succ j ih =>
    intro i hij hj
    have hs := hstep j hj
    by_cases hij' : i = j
    · subst hij'; rcases hs with hs | hs <;> omega
    · have := ih i (by omega) (by omega)
      rcases hs with hs | hs <;> omega

/-- every calibrated cardinality of the row lies in `1 … 5·2^b` -/
theorem CalRow.range {raw bias : Array Dec} {b : Nat} (h : CalRow raw bias b) (i : Nat)
    (hi : i < raw.size) : 1 ≤ calC raw bias i ∧ calC raw bias i ≤ 5 * 2 ^ b := by
  have h0 := h.2.2.2.2.1
  have hlast := h.2.2.2.2.2.2
  constructor
  · by_cases hi0 : i = 0
    · subst hi0; omega
    · have := h.strictMono i 0 (by omega) hi; omega
  · by_cases hil : i = raw.size - 1
    · subst hil; exact hlast
    · have := h.strictMono (raw.size - 1) i (by omega) (by omega); omega

theorem calRow0 : CalRow rawDec0 biasDec0 4 := calRowCheck_sound (by decide +kernel)
theorem calRow1 : CalRow rawDec1 biasDec1 5 := calRowCheck_sound (by decide +kernel)
theorem calRow2 : CalRow rawDec2 biasDec2 6 := calRowCheck_sound (by decide +kernel)
theorem calRow3 : CalRow rawDec3 biasDec3 7 := calRowCheck_sound (by decide +kernel)
theorem calRow4 : CalRow rawDec4 biasDec4 8 := calRowCheck_sound (by decide +kernel)
theorem calRow5 : CalRow rawDec5 biasDec5 9 := calRowCheck_sound (by decide +kernel)
theorem calRow6 : CalRow rawDec6 biasDec6 10 := calRowCheck_sound (by decide +kernel)
theorem calRow7 : CalRow rawDec7 biasDec7 11 := calRowCheck_sound (by decide +kernel)
theorem calRow8 : CalRow rawDec8 biasDec8 12 := calRowCheck_sound (by decide +kernel)
theorem calRow9 : CalRow rawDec9 biasDec9 13 := calRowCheck_sound (by decide +kernel)
theorem calRow10 : CalRow rawDec10 biasDec10 14 := calRowCheck_sound (by decide +kernel)
theorem calRow11 : CalRow rawDec11 biasDec11 15 := calRowCheck_sound (by decide +kernel)
theorem calRow12 : CalRow rawDec12 biasDec12 16 := calRowCheck_sound (by decide +kernel)
theorem calRow13 : CalRow rawDec13 biasDec13 17 := calRowCheck_sound (by decide +kernel)
theorem calRow14 : CalRow rawDec14 biasDec14 18 := calRowCheck_sound (by decide +kernel)

theorem calRow_all : ∀ p, p < 15 → CalRow (rawDec.getD p #[]) (biasDec.getD p #[]) (p + 4)
  | 0, _ => calRow0 | 1, _ => calRow1 | 2, _ => calRow2 | 3, _ => calRow3 | 4, _ => calRow4
  | 5, _ => calRow5 | 6, _ => calRow6 | 7, _ => calRow7 | 8, _ => calRow8 | 9, _ => calRow9
  | 10, _ => calRow10 | 11, _ => calRow11 | 12, _ => calRow12 | 13, _ => calRow13 | 14, _ => calRow14
  | n + 15, h => absurd h (by omega)

end Pds.HllCount
