import Pds.Proofs.QuotientFwd
/-!
`searchRun` and the full `scan`, relative to the start `z` of the cluster of the quotient slot.
-/
namespace Pds.Quotient
variable {N : Nat} {t : St N} {z : Fin N} {qt : Nat → Nat}

theorem searchRun_spec (h : LInv t z qt) (ka r ks : Nat) : ∀ fuel kp, ks ≤ kp → kp < N →
    (t.at z kp).used = true → qt kp = ka →
    (∀ k, ks ≤ k → k < kp → (t.at z k).used = true ∧ qt k = ka ∧ (t.at z k).rem < r) →
    N ≤ kp + fuel →
    ∃ pr kp', searchRun t r fuel (pos z kp) = some (pr, pos z kp') ∧ kp ≤ kp' ∧ kp' ≤ N ∧
      (pr = true → kp' < N ∧ (t.at z kp').used = true ∧ qt kp' = ka ∧ (t.at z kp').rem = r) ∧
      (pr = false →
        (∀ k, ks ≤ k → k < kp' → (t.at z k).used = true ∧ qt k = ka ∧ (t.at z k).rem < r) ∧
        (kp' < N → (t.at z kp').used = true → qt kp' = ka → r < (t.at z kp').rem)) := by
  intro fuel
  induction fuel with
  | zero => intro kp _ h1 _ _ _ h2; omega
  | succ f ih =>
    intro kp hks hkp hu hq hlow hf
    by_cases e1 : (t.at z kp).rem = r
    · refine ⟨true, kp, ?_, Nat.le_refl _, by omega, fun _ => ⟨hkp, hu, hq, e1⟩, (by intro x; cases x)⟩
      simp only [St.at] at e1
      simp [searchRun, e1]
    · by_cases e2 : (t.at z kp).rem > r
      · refine ⟨false, kp, ?_, Nat.le_refl _, by omega, (by intro x; cases x), fun _ => ⟨hlow, fun _ _ _ => e2⟩⟩
        simp only [St.at] at e1 e2
        simp [searchRun, e1, e2]
      · have hlt : (t.at z kp).rem < r := by omega
        have hlow' : ∀ k, ks ≤ k → k < kp + 1 →
            (t.at z k).used = true ∧ qt k = ka ∧ (t.at z k).rem < r := by
          intro k h1 h2
          by_cases e : k = kp
          · subst e; exact ⟨hu, hq, hlt⟩
          · exact hlow k h1 (by omega)
        cases hc : (t.at z (kp + 1)).cont
        · refine ⟨false, kp + 1, ?_, by omega, by omega, (by intro x; cases x), fun _ => ⟨hlow', ?_⟩⟩
          · simp only [St.at] at e1 e2 hc
            simp [searchRun, e1, e2, incr_pos, hc]
          · intro h1 h2 h3
            have := (h.cont kp h1 h2).mpr ⟨hu, by omega⟩
            rw [hc] at this; cases this
        · have hlt' : kp + 1 < N := by
            by_cases e : kp + 1 = N
            · rw [e, at_N, h.cont0] at hc; cases hc
            · omega
          have hu' := h.used_of_cont hlt' hc
          have hq' := ((h.cont kp hlt' hu').mp hc).2
          obtain ⟨pr, kp', s1, s2, s3, s4, s5⟩ :=
            ih (kp + 1) (by omega) hlt' hu' (by omega) hlow' (by omega)
          refine ⟨pr, kp', ?_, by omega, s3, s4, s5⟩
          simp only [St.at] at e1 e2 hc
          simp [searchRun, e1, e2, incr_pos, hc, s1]

/-- description of the insertion point returned by `scan … true` for an absent pair -/
structure InsPoint (t : St N) (z : Fin N) (qt : Nat → Nat) (ka r : Nat) (sr : ScanResult N)
    (kp ks : Nat) : Prop where
  pos_eq : sr.position = pos z kp
  ks_le : ks ≤ kp
  ka_le : ka ≤ ks
  kp_le : kp ≤ N
  start : sr.startOfRun = if (t.at z ka).occ then some (pos z ks) else none
  low : ∀ k, k < ks → (t.at z k).used = true ∧ qt k < ka
  mid : ∀ k, ks ≤ k → k < kp → (t.at z k).used = true ∧ qt k = ka ∧ (t.at z k).rem < r
  hi : kp < N → (t.at z kp).used = true → ka < qt kp ∨ (qt kp = ka ∧ r < (t.at z kp).rem)
  occ_run : (t.at z ka).occ = true → ks < N ∧ (t.at z ks).used = true ∧ qt ks = ka
  noocc : (t.at z ka).occ = false → kp = ks

theorem not_abs_of_not_occ (h : LInv t z qt) {ka : Nat} (hka : ka < N)
    (ho : (t.at z ka).occ = false) (r : Nat) : ¬ Abs t z qt (pos z ka) r := by
  intro ha
  obtain ⟨k, hk, hu, hq, _⟩ := (h.abs_iff hka r).mp ha
  have := (h.occ ka hka).mpr ⟨k, hk, hu, hq⟩
  rw [ho] at this; cases this

theorem walkBack_cluster (c : ClusterCtx t z qt ka) : walkBack t (N + 1) (pos z ka) = some z := by
  obtain ⟨kb, h1, h2, h3, _⟩ := walkBack_spec c.inv ka (N + 1) c.hka (by have := c.hka; omega)
  have : kb = 0 := by
    by_cases e : kb = 0
    · exact e
    · have := c.hcl kb (by omega) h1; rw [h3] at this; cases this
  subst this
  simpa using h2

theorem scan_spec (c : ClusterCtx t z qt ka) (r : Nat) (oi : Bool) :
    ∃ sr, scan t (pos z ka) r oi = some sr ∧ (sr.present = true ↔ Abs t z qt (pos z ka) r) ∧
      (oi = true → sr.present = false → ∃ kp ks, InsPoint t z qt ka r sr kp ks) := by
  have h := c.inv
  have hka := c.hka
  by_cases hfast : (t.at z ka).occ = false ∧ oi = false
  · refine ⟨⟨false, pos z ka, none⟩, ?_, ?_, ?_⟩
    · have h1 := hfast.1
      simp only [St.at] at h1
      simp [scan, h1, hfast.2]
    · simp only [Bool.false_eq_true, false_iff]
      exact not_abs_of_not_occ h hka hfast.1 r
    · intro x; rw [hfast.2] at x; cases x
  · have hstop : (t.at z ka).occ = true ∨ oi = true := by
      cases h1 : (t.at z ka).occ <;> cases h2 : oi <;> simp_all
    have hnf : (!(t.get (pos z ka)).occ && !oi) = false := by
      simp only [St.at] at hstop
      rcases hstop with h1 | h1 <;> simp [h1]
    obtain ⟨ks, w1, w2⟩ := walkFwd_spec c hstop (N + 1) 0 0 (fwdInv_init c) (by omega)
    simp only [pos_zero] at w1
    obtain ⟨i1, i2, i3, i4, i5, i6⟩ := w2
    cases hocc : (t.at z ka).occ
    · have hoi : oi = true := by rcases hstop with h1 | h1; rw [hocc] at h1; cases h1; exact h1
      refine ⟨⟨false, pos z ks, none⟩, ?_, ?_, ?_⟩
      · have hocc' := hocc
        simp only [St.at] at hocc'
        subst hoi
        simp [scan, walkBack_cluster c, w1, hocc']
      · simp only [Bool.false_eq_true, false_iff]
        exact not_abs_of_not_occ h hka hocc r
      · intro _ _
        refine ⟨ks, ks, ⟨rfl, Nat.le_refl _, i2, i3, by simp [hocc], i4, fun k h1 h2 => by omega, ?_,
          (by intro x; rw [hocc] at x; cases x), fun _ => rfl⟩⟩
        intro h1 h2
        have h3 := i5 h1 h2
        by_cases e : qt ks = ka
        · have := (h.occ ka hka).mpr ⟨ks, h1, h2, e⟩
          rw [hocc] at this; cases this
        · left; omega
    · obtain ⟨r1, r2, r3⟩ := run_start_of_occ h hka i2 i4 i5 hocc
      obtain ⟨pr, kp, s1, s2, s3, s4, s5⟩ := searchRun_spec h ka r ks (N + 1) ks (Nat.le_refl _) r1 r2 r3
        (fun k h1 h2 => by omega) (by omega)
      refine ⟨⟨pr, pos z kp, some (pos z ks)⟩, ?_, ?_, ?_⟩
      · have hocc' := hocc
        simp only [St.at] at hocc'
        simp [scan, walkBack_cluster c, w1, hocc', s1]
      · constructor
        · intro hp
          obtain ⟨p1, p2, p3, p4⟩ := s4 hp
          exact (h.abs_iff hka r).mpr ⟨kp, p1, p2, p3, p4⟩
        · intro ha
          obtain ⟨k, hk, hu, hq, hr⟩ := (h.abs_iff hka r).mp ha
          cases hp : pr
          · exfalso
            obtain ⟨p1, p2⟩ := s5 hp
            have hks : ks ≤ k := by
              by_cases c2 : ks ≤ k
              · exact c2
              · have := (i4 k (by omega)).2; omega
            by_cases c2 : k < kp
            · have := (p1 k hks c2).2.2; omega
            · have hcd := h.chain_down hk hu (k - kp) kp (by omega) (by omega)
              have hm := h.mono (j := ks) (k := kp) (by omega) s2 r2 hcd.1
              have hlt := p2 (by omega) hcd.1 (by omega)
              have := h.run_between hk hu (k - kp) kp (by omega) hcd.1 (by omega)
              omega
          · rfl
      · intro _ hp
        obtain ⟨p1, p2⟩ := s5 hp
        refine ⟨kp, ks, ⟨rfl, s2, i2, s3, by simp [hocc], i4, p1, ?_, fun _ => ⟨r1, r2, r3⟩,
          (by intro x; rw [hocc] at x; cases x)⟩⟩
        intro h1 h2
        have hm := h.mono (j := ks) (k := kp) h1 s2 r2 h2
        by_cases e : qt kp = ka
        · right; exact ⟨e, p2 h1 h2 e⟩
        · left; omega

end Pds.Quotient
