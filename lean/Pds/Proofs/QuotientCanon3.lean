import Pds.Proofs.QuotientCanon2
import Pds.Proofs.QuotientFinal
/-!
Canonicity, part 3: `Clean` tables (unused slots have remainder 0 — what the constructor and
`insert_internal` guarantee, since slots only ever become used), uniqueness of the representation,
and preservation of `Clean` by every operation (pure frame reasoning on the model, no invariant).
-/
namespace Pds.Quotient
variable {N : Nat}

/-- unused slots still hold the initial remainder 0 -/
def Clean (t : St N) : Prop := ∀ p, (t.get p).used = false → (t.get p).rem = 0

theorem st_ext {t t' : St N} (hn : t.n = t'.n) (hg : ∀ p, t.get p = t'.get p) : t = t' := by
  obtain ⟨v, n⟩ := t
  obtain ⟨v', n'⟩ := t'
  simp only at hn
  subst hn
  congr 1
  apply Vector.ext
  intro i hi
  exact hg ⟨i, hi⟩

theorem slot_eq_of_agree {s s' : Slot} (ha : SlotAgree s s') (hc : s.used = false → s.rem = 0)
    (hc' : s'.used = false → s'.rem = 0) : s = s' := by
  obtain ⟨o, c, sh, r⟩ := s
  obtain ⟨o', c', sh', r'⟩ := s'
  obtain ⟨h1, h2, h3, h4⟩ := ha
  simp only at h1 h2 h3
  subst h1 h2 h3
  simp only [Slot.used] at h4 hc hc'
  cases hu : (o || sh)
  · rw [hc hu, hc' hu]
  · rw [h4 hu]

/-- uniqueness up to the remainders of unused slots (which the invariant does not constrain) -/
theorem rep_agree {t t' : St N} {S : Finset (Fin N × Nat)} (hr : Rep t S) (hr' : Rep t' S) :
    t.n = t'.n ∧ ∀ p, SlotAgree (t.get p) (t'.get p) :=
  ⟨by rw [hr.2, hr'.2], stores_agree hr.1 hr'.1⟩

/-- clean tables representing the same set are equal -/
theorem rep_clean_unique {t t' : St N} {S : Finset (Fin N × Nat)} (hr : Rep t S) (hc : Clean t)
    (hr' : Rep t' S) (hc' : Clean t') : t = t' :=
  st_ext (rep_agree hr hr').1 fun p => slot_eq_of_agree ((rep_agree hr hr').2 p) (hc p) (hc' p)

/-! ### frame lemmas: an operation only touches slots that end up used -/

theorem swapLoop_frame : ∀ (fuel : Nat) (t : St N) (start position : Fin N) (c : Bool) (rm : Nat)
    (u : Bool) (t2 : St N), swapLoop t start fuel position c rm u = some t2 →
    ∀ p, t2.get p = t.get p ∨ (t2.get p).shift = true := by
  intro fuel
  induction fuel with
  | zero => intro t start position c rm u t2 h; simp [swapLoop] at h
  | succ f ih =>
    intro t start position c rm u t2 h p
    cases u
    · simp only [swapLoop, Bool.not_false, if_true, Option.some.injEq] at h
      subst h; exact Or.inl rfl
    · simp only [swapLoop, Bool.not_true, Bool.false_eq_true, if_false] at h
      split at h
      · cases h
      · rcases ih _ _ _ _ _ _ _ h p with h1 | h1
        · by_cases e : incr position = p
          · right; rw [h1, ← e, get_set_eq]
          · left; rw [h1, get_set_ne _ _ e]
        · exact Or.inr h1

theorem insFin_get (t2 : St N) (a p : Fin N) :
    (insFin t2 a).get p = if a = p then { t2.get a with occ := true } else t2.get p := by
  have : (insFin t2 a).get p = (t2.set a { t2.get a with occ := true }).get p := rfl
  rw [this, get_set]

/-- slots that are unused after an insert were not touched by it -/
theorem insert_frame {t tf : St N} {a : Fin N} {r : Nat} {res : Res}
    (h : insertInternal t a r = some (tf, res)) :
    ∀ p, (tf.get p).used = false → tf.get p = t.get p := by
  rw [insertInternal_eq] at h
  split at h
  · cases h
  · next sr _ =>
    split at h
    · simp only [Option.some.injEq, Prod.mk.injEq] at h; rw [← h.1]; exact fun _ _ => rfl
    · split at h
      · simp only [Option.some.injEq, Prod.mk.injEq] at h; rw [← h.1]; exact fun _ _ => rfl
      · split at h
        · cases h
        · next t2 hsw =>
          simp only [Option.some.injEq, Prod.mk.injEq] at h
          rw [← h.1]
          intro p hu
          rw [insFin_get] at hu ⊢
          by_cases e : a = p
          · rw [if_pos e] at hu; simp [Slot.used] at hu
          · rw [if_neg e] at hu ⊢
            rcases swapLoop_frame _ _ _ _ _ _ _ _ hsw p with h1 | h1
            · rw [h1] at hu ⊢
              rw [insT1_slot] at hu ⊢
              by_cases e2 : sr.position = p
              · subst e2
                rw [get_set_eq] at hu
                have : (sr.position != a) = true := by
                  rw [bne_iff_ne]; exact fun x => e x.symm
                simp [Slot.used, this] at hu
              · rw [get_set_ne _ _ e2]
            · simp [Slot.used, h1] at hu

theorem clean_insert {t tf : St N} {a : Fin N} {r : Nat} {res : Res}
    (h : insertInternal t a r = some (tf, res)) (hc : Clean t) : Clean tf := by
  intro p hu
  have := insert_frame h p hu
  rw [this] at hu ⊢
  exact hc p hu

theorem clean_empty : Clean (empty N) := by intro p _; simp

theorem clean_runFrom : ∀ (h : List (Fin N × Nat)) {t tf : St N} {rs : List Res},
    runFrom t h = some (tf, rs) → Clean t → Clean tf := by
  intro h
  induction h with
  | nil =>
    intro t tf rs he hc
    simp only [runFrom, Option.some.injEq, Prod.mk.injEq] at he
    rw [← he.1]; exact hc
  | cons x xs ih =>
    intro t tf rs he hc
    simp only [runFrom] at he
    split at he
    · cases he
    · next t1 res1 hins =>
      cases hrun : runFrom t1 xs with
      | none => rw [hrun] at he; cases he
      | some p =>
        rw [hrun] at he
        simp only [Option.map_some, Option.some.injEq, Prod.mk.injEq] at he
        have : p = (tf, p.2) := by rw [← he.1]
        rw [this] at hrun
        exact ih hrun (clean_insert hins hc)

theorem clean_uStep {o : St N} {i j a : Fin N} {fuel : Nat} {queue : List (Fin N)} {t t' : St N}
    {res : Res}
    (ih : ∀ j a queue t1, unionCluster o i fuel j a queue t1 = some (t', res) → Clean t1 → Clean t')
    (h : uStep o i fuel j t a queue = some (t', res)) (hc : Clean t) : Clean t' := by
  unfold uStep at h
  split at h
  · cases h
  · next t1 hins =>
    simp only [Option.some.injEq, Prod.mk.injEq] at h
    rw [← h.1]; exact clean_insert hins hc
  · next t1 b hins => exact ih _ _ _ _ h (clean_insert hins hc)

theorem clean_unionCluster (o : St N) (i : Fin N) : ∀ (fuel : Nat) (j a : Fin N)
    (queue : List (Fin N)) (t t' : St N) (res : Res),
    unionCluster o i fuel j a queue t = some (t', res) → Clean t → Clean t' := by
  intro fuel
  induction fuel with
  | zero => intro j a queue t t' res h; simp [unionCluster] at h
  | succ f ih =>
    intro j a queue t t' res h hc
    rw [unionCluster_succ] at h
    split at h
    · split at h
      · split at h
        · cases h
        · exact clean_uStep (fun j a q t1 => ih j a q t1 t' res) h hc
      · exact clean_uStep (fun j a q t1 => ih j a q t1 t' res) h hc
    · simp only [Option.some.injEq, Prod.mk.injEq] at h
      rw [← h.1]; exact hc

theorem clean_unionLoop (o : St N) : ∀ (is : List (Fin N)) (t t' : St N) (res : Res),
    unionLoop o is t = some (t', res) → Clean t → Clean t' := by
  intro is
  induction is with
  | nil =>
    intro t t' res h hc
    simp only [unionLoop, Option.some.injEq, Prod.mk.injEq] at h
    rw [← h.1]; exact hc
  | cons i rest ih =>
    intro t t' res h hc
    simp only [unionLoop] at h
    split at h
    · split at h
      · cases h
      · next t1 hins =>
        simp only [Option.some.injEq, Prod.mk.injEq] at h
        rw [← h.1]; exact clean_insert hins hc
      · next t1 b hins =>
        have hc1 := clean_insert hins hc
        split at h
        · cases h
        · next t2 hcl =>
          simp only [Option.some.injEq, Prod.mk.injEq] at h
          rw [← h.1]; exact clean_unionCluster o i _ _ _ _ _ _ _ hcl hc1
        · next t2 b2 hcl =>
          exact ih _ _ _ h (clean_unionCluster o i _ _ _ _ _ _ _ hcl hc1)
    · exact ih _ _ _ h hc

theorem clean_union {t o t' : St N} {res : Res} (h : union t o = some (t', res)) (hc : Clean t) :
    Clean t' := by
  unfold union at h
  split at h
  · cases h
  · simp only [Option.some.injEq, Prod.mk.injEq] at h
    rw [← h.1]; exact hc
  · next t1 b hl =>
    simp only [Option.some.injEq, Prod.mk.injEq] at h
    rw [← h.1]; exact clean_unionLoop o _ _ _ _ hl hc

end Pds.Quotient
