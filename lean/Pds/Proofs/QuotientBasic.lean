import Pds.Model.Quotient
/-!
Basic lemmas for the quotient-filter model: slot access, ring positions `pos z k`
(slot reached from `z` by `k` increments, so that `incr` is `k ↦ k + 1` with no case split).
-/
namespace Pds.Quotient
variable {N : Nat}

@[simp] theorem get_set_eq (t : St N) (p : Fin N) (s : Slot) : (t.set p s).get p = s := by
  simp [St.get, St.set]

theorem get_set_ne (t : St N) {p p' : Fin N} (s : Slot) (h : p ≠ p') : (t.set p s).get p' = t.get p' := by
  simp only [St.get, St.set, Fin.getElem_fin]
  rw [Vector.getElem_set_ne]
  exact fun e => h (Fin.ext e)

theorem get_set (t : St N) (p p' : Fin N) (s : Slot) :
    (t.set p s).get p' = if p = p' then s else t.get p' := by
  by_cases h : p = p'
  · subst h; simp
  · simp [h, get_set_ne t s h]

@[simp] theorem set_n (t : St N) (p : Fin N) (s : Slot) : (t.set p s).n = t.n := rfl

@[simp] theorem empty_get (p : Fin N) : (empty N).get p = {} := by
  simp [empty, St.get]

@[simp] theorem empty_n : (empty N).n = 0 := rfl

/-- slot reached from `z` after `k` increments -/
def pos (z : Fin N) (k : Nat) : Fin N := ⟨(z.val + k) % N, Nat.mod_lt _ (Fin.pos z)⟩

@[simp] theorem pos_zero (z : Fin N) : pos z 0 = z := by
  apply Fin.ext; simp [pos, Nat.mod_eq_of_lt z.isLt]

theorem incr_pos (z : Fin N) (k : Nat) : incr (pos z k) = pos z (k + 1) := by
  have hN := Fin.pos z
  apply Fin.ext
  unfold incr pos
  simp only
  split
  · next h =>
    simp only
    rw [← Nat.add_assoc, Nat.add_mod (z.val + k) 1 N]
    by_cases h1 : N = 1
    · subst h1; omega
    · rw [Nat.mod_eq_of_lt (show 1 < N by omega), Nat.mod_eq_of_lt h]
  · next h =>
    simp only
    have hlt := Nat.mod_lt (z.val + k) hN
    have : (z.val + k) % N = N - 1 := by omega
    rw [← Nat.add_assoc, Nat.add_mod, this]
    by_cases h1 : N = 1
    · subst h1; simp
    · rw [Nat.mod_eq_of_lt (show 1 < N by omega)]
      have : N - 1 + 1 = N := by omega
      rw [this]; simp

theorem pos_add_N (z : Fin N) (k : Nat) : pos z (k + N) = pos z k := by
  apply Fin.ext; simp [pos, ← Nat.add_assoc]

theorem pos_pos (z : Fin N) (m k : Nat) : pos (pos z m) k = pos z (m + k) := by
  apply Fin.ext; simp [pos, Nat.add_assoc]

theorem pos_mod (z : Fin N) (k : Nat) : pos z (k % N) = pos z k := by
  apply Fin.ext; simp [pos]

theorem decr_incr (p : Fin N) : decr (incr p) = p := by
  apply Fin.ext
  unfold incr decr
  have := p.isLt
  split
  · next h => simp
  · next h => simp; omega

theorem decr_pos (z : Fin N) (k : Nat) : decr (pos z (k + 1)) = pos z k := by
  rw [← incr_pos, decr_incr]

theorem pos_inj {z : Fin N} {k k' : Nat} (hk : k < N) (hk' : k' < N) (h : pos z k = pos z k') : k = k' := by
  have h := Fin.ext_iff.mp h
  simp only [pos] at h
  have hz := z.isLt
  by_cases h1 : z.val + k < N <;> by_cases h2 : z.val + k' < N
  · rw [Nat.mod_eq_of_lt h1, Nat.mod_eq_of_lt h2] at h; omega
  · rw [Nat.mod_eq_of_lt h1, Nat.mod_eq_sub_mod (by omega), Nat.mod_eq_of_lt (by omega)] at h; omega
  · rw [Nat.mod_eq_of_lt h2, Nat.mod_eq_sub_mod (by omega), Nat.mod_eq_of_lt (by omega)] at h; omega
  · rw [Nat.mod_eq_sub_mod (by omega), Nat.mod_eq_of_lt (by omega : z.val + k - N < N),
      Nat.mod_eq_sub_mod (by omega : z.val + k' ≥ N), Nat.mod_eq_of_lt (by omega : z.val + k' - N < N)] at h
    omega

theorem pos_eq_iff {z : Fin N} {k k' : Nat} (hk : k < N) (hk' : k' < N) : pos z k = pos z k' ↔ k = k' :=
  ⟨pos_inj hk hk', fun h => h ▸ rfl⟩

/-- every slot is `pos z k` for a unique `k < N` -/
theorem exists_pos (z p : Fin N) : ∃ k, k < N ∧ pos z k = p := by
  have hz := z.isLt; have hp := p.isLt
  by_cases h : z.val ≤ p.val
  · refine ⟨p.val - z.val, by omega, Fin.ext ?_⟩
    simp only [pos]
    rw [show z.val + (p.val - z.val) = p.val by omega, Nat.mod_eq_of_lt hp]
  · refine ⟨p.val + N - z.val, by omega, Fin.ext ?_⟩
    simp only [pos]
    rw [show z.val + (p.val + N - z.val) = p.val + N by omega]
    simp [Nat.mod_eq_of_lt hp]

def Slot.used (s : Slot) : Bool := s.occ || s.shift

/-- the slot `k` steps after `z` -/
def St.at (t : St N) (z : Fin N) (k : Nat) : Slot := t.get (pos z k)

end Pds.Quotient
