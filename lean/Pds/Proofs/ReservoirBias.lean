import Mathlib.Algebra.BigOperators.Group.Finset.Basic
import Mathlib.Algebra.Order.BigOperators.Ring.Finset
import Mathlib.Algebra.Order.Field.Basic
import Mathlib.Data.Real.Basic
import Mathlib.Tactic.Linarith
import Mathlib.Tactic.Positivity
/-!
The direction of the gap-sampling bias (C05, beyond 4k+1).

Exact reservoir sampling accepts the `j`-th item (1-based) with probability `k/j`, independently; the
probability that the `s` items `j, j+1, …, j+s−1` are all skipped is `∏_{t<s} (1 − k/(j+t))`.  The code
draws the gap from a geometric law with the *first* of these probabilities frozen, `(1 − k/j)^s`
(`gap_geometric_law`).  Because `k/(j+t) ≤ k/j`, the frozen law never overestimates a gap:
`(1 − k/j)^s ≤ ∏_{t<s} (1 − k/(j+t))`, with equality for `s ≤ 1`.  So, compared with exact sampling, the next
acceptance comes stochastically *earlier*: late items are over-, early items under-represented — the sign
of the documented bias — and the two laws agree on the first step, which is why the switch at `4k+1` is
exact (`switch_uniform`).
-/
namespace Pds.Reservoir
open Finset

theorem frozen_gap_survival_le {k j : ℕ} (hk : 0 < k) (hkj : k ≤ j) (s : ℕ) :
    (1 - (k : ℝ) / j) ^ s ≤ ∏ t ∈ range s, (1 - (k : ℝ) / ((j + t : ℕ) : ℝ)) := by
  have hj0 : 0 < j := Nat.lt_of_lt_of_le hk hkj
  have hj : (0 : ℝ) < j := by exact_mod_cast hj0
  have hbase : (0 : ℝ) ≤ 1 - (k : ℝ) / j := by
    rw [sub_nonneg, div_le_one hj]; exact_mod_cast hkj
  calc (1 - (k : ℝ) / j) ^ s = ∏ _t ∈ range s, (1 - (k : ℝ) / j) := by
        rw [Finset.prod_const, Finset.card_range]
    _ ≤ ∏ t ∈ range s, (1 - (k : ℝ) / ((j + t : ℕ) : ℝ)) := by
        apply Finset.prod_le_prod
        · intro t _; exact hbase
        · intro t _
          have hle : (j : ℝ) ≤ ((j + t : ℕ) : ℝ) := by exact_mod_cast Nat.le_add_right j t
          have : (k : ℝ) / ((j + t : ℕ) : ℝ) ≤ (k : ℝ) / j :=
            div_le_div_of_nonneg_left (by positivity) hj hle
          linarith

/-- the two laws agree on the first step: `P(gap ≥ 1)` is `1 − k/j` in both -/
theorem frozen_gap_survival_one (k j : ℕ) :
    (1 - (k : ℝ) / j) ^ 1 = ∏ t ∈ range 1, (1 - (k : ℝ) / ((j + t : ℕ) : ℝ)) := by
  simp

end Pds.Reservoir
