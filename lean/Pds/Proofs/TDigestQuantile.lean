import Pds.Proofs.TDigestHist
import Pds.Proofs.TDigestPL
/-!
Helper lemmas for the t-digest model, part 3: `quantileInner` and `cdfInner` are piecewise-linear
interpolation through the knots
`(0, min), (w₀/2, mean₀), (w₀ + w₁/2, mean₁), …, (S − w_last/2, mean_last), (S, max)`
(resp. the same knots with coordinates swapped, divided by `S`).
-/
set_option linter.unusedSectionVars false
namespace Pds.TDigest
open Pds.PL
variable {α : Type} [Field α] [LinearOrder α] [IsStrictOrderedRing α]

/-- well-formed merged state -/
structure WF (s : St α) : Prop where
  backlog_nil : s.backlog = []
  pos : ∀ c ∈ s.centroids, 0 < c.count
  sorted : SortedMean s.centroids
  bounds : s.centroids ≠ [] → ∃ mn mx, s.min = some mn ∧ s.max = some mx ∧
    ∀ c ∈ s.centroids, mn ≤ c.mean ∧ c.mean ≤ mx

theorem wf_of_inv {s : St α} {L : List (α × α)} (h : Inv s L) (hb : s.backlog = []) : WF s := by
  have happ : s.centroids ++ s.backlog = s.centroids := by rw [hb, List.append_nil]
  refine ⟨hb, fun c hc => h.pos c (by rw [happ]; exact hc), h.sorted, ?_⟩
  intro hne
  have hL : L ≠ [] := fun e => hne (by rw [← happ]; exact h.emp.2 e)
  have hmn := h.mn; have hmx := h.mx
  cases hmin : s.min with
  | none => rw [hmin] at hmn; simp [IsMinOf] at hmn; exact absurd hmn hL
  | some a =>
    cases hmax : s.max with
    | none => rw [hmax] at hmx; simp [IsMaxOf] at hmx; exact absurd hmx hL
    | some b =>
      exact ⟨a, b, rfl, rfl, fun c hc => h.range c (by rw [happ]; exact hc) a b hmin hmax⟩

/-! ### `interpolate`: the clamp is the identity at every call site -/

theorem interpolate_of_mem {a b t : α} (h0 : 0 ≤ t) (h1 : t ≤ 1) : interpolate a b t = t * b + (1 - t) * a := by
  unfold interpolate
  simp [h0, not_lt.2 h1]

theorem seg_t_mem {p k : α × α} {x : α} (h0 : p.1 ≤ x) (h1 : x ≤ k.1) :
    0 ≤ (x - p.1) / (k.1 - p.1) ∧ (x - p.1) / (k.1 - p.1) ≤ 1 := by
  constructor
  · exact div_nonneg (by linarith) (by linarith)
  · rcases eq_or_lt_of_le (le_trans h0 h1) with e | l
    · rw [← e]; simp
    · rw [div_le_one (by linarith)]; linarith

theorem interpolate_seg (p k : α × α) {x : α} (h0 : p.1 ≤ x) (h1 : x ≤ k.1) :
    interpolate p.2 k.2 ((x - p.1) / (k.1 - p.1)) = seg p k x := by
  rw [interpolate_of_mem (seg_t_mem h0 h1).1 (seg_t_mem h0 h1).2]; rfl

/-! ### `clampedMean`: the clamp is the identity when the mean lies in `[min, max]` -/

theorem clampedMean_eq {mn mx : α} {c : Centroid α} (h1 : mn ≤ c.mean) (h2 : c.mean ≤ mx) :
    clampedMean mn mx c = c.mean := by
  unfold clampedMean
  simp [h1, not_lt.2 h2]

/-- on a well-formed state every centroid mean lies in `[min, max]`, so `clampedMean` is `mean` -/
theorem clampedMean_eq_of_wf {s : St α} (h : WF s) {mn mx : α} (hmin : s.min = some mn)
    (hmax : s.max = some mx) {c : Centroid α} (hc : c ∈ s.centroids) :
    clampedMean mn mx c = c.mean := by
  obtain ⟨mn', mx', h1, h2, hr⟩ := h.bounds (List.ne_nil_of_mem hc)
  rw [hmin] at h1; rw [hmax] at h2
  cases h1; cases h2
  exact clampedMean_eq (hr c hc).1 (hr c hc).2

/-! ### knots -/

/-- knots of the quantile function from cumulative weight `cum` on (the knot of the previous
centroid, or `(0, min)`, is passed separately to `plLE`) -/
def knots (mx : α) : α → List (Centroid α) → List (α × α)
  | cum, [] => [(cum, mx)]
  | cum, c :: cs => (cum + c.count / 2, c.mean) :: knots mx (cum + c.count) cs

theorem knots_mono (mx : α) (cs : List (Centroid α)) (cum : α) (p : α × α) (hp : p.1 ≤ cum)
    (hpos : ∀ c ∈ cs, 0 < c.count) (hs : SortedMean cs)
    (hr : ∀ c ∈ cs, p.2 ≤ c.mean ∧ c.mean ≤ mx) (hpm : p.2 ≤ mx) : Mono p (knots mx cum cs) := by
  induction cs generalizing cum p with
  | nil => exact ⟨hp, hpm, trivial⟩
  | cons c cs ih =>
    have hc := hpos c (by simp)
    refine ⟨by simp only []; linarith, (hr c (by simp)).1, ?_⟩
    unfold SortedMean at hs
    rw [List.pairwise_cons] at hs
    apply ih
    · simp only []; linarith
    · exact fun d hd => hpos d (by simp [hd])
    · exact hs.2
    · exact fun d hd => ⟨hs.1 d hd, (hr d (by simp [hd])).2⟩
    · exact (hr c (by simp)).2

theorem knots_strictAbs (mx : α) (cs : List (Centroid α)) (cum : α) (p : α × α)
    (hp : p.1 < cum ∨ (p.1 ≤ cum ∧ cs ≠ [])) (hpos : ∀ c ∈ cs, 0 < c.count) :
    StrictAbs p (knots mx cum cs) := by
  induction cs generalizing cum p with
  | nil =>
    rcases hp with hp | hp
    · exact ⟨hp, trivial⟩
    · exact absurd rfl hp.2
  | cons c cs ih =>
    have hc := hpos c (by simp)
    have : p.1 ≤ cum := by rcases hp with hp | hp; exact hp.le; exact hp.1
    refine ⟨by simp only []; linarith, ?_⟩
    apply ih
    · left; simp only []; linarith
    · exact fun d hd => hpos d (by simp [hd])

/-- means strictly increasing -/
def StrictSortedMean (cs : List (Centroid α)) : Prop := cs.Pairwise (fun a b => a.mean < b.mean)

theorem knots_strictMono (mx : α) (cs : List (Centroid α)) (cum : α) (p : α × α)
    (hp : p.1 < cum ∨ (p.1 ≤ cum ∧ cs ≠ [])) (hpos : ∀ c ∈ cs, 0 < c.count) (hs : StrictSortedMean cs)
    (hr : ∀ c ∈ cs, p.2 < c.mean ∧ c.mean < mx) (hpm : p.2 < mx) : StrictMono p (knots mx cum cs) := by
  induction cs generalizing cum p with
  | nil =>
    rcases hp with hp | hp
    · exact ⟨hp, hpm, trivial⟩
    · exact absurd rfl hp.2
  | cons c cs ih =>
    have hc := hpos c (by simp)
    have : p.1 ≤ cum := by rcases hp with hp | hp; exact hp.le; exact hp.1
    refine ⟨by simp only []; linarith, (hr c (by simp)).1, ?_⟩
    unfold StrictSortedMean at hs
    rw [List.pairwise_cons] at hs
    apply ih
    · left; simp only []; linarith
    · exact fun d hd => hpos d (by simp [hd])
    · exact hs.2
    · exact fun d hd => ⟨hs.1 d hd, (hr d (by simp [hd])).2⟩
    · exact (hr c (by simp)).2

theorem knots_lastOrd (mx : α) (cs : List (Centroid α)) (cum : α) (p : α × α) :
    lastOrd p (knots mx cum cs) = mx := by
  induction cs generalizing cum p with
  | nil => rfl
  | cons c cs ih => exact ih _ _

theorem knots_lastAbs (mx : α) (cs : List (Centroid α)) (cum : α) (p : α × α) :
    lastAbs p (knots mx cum cs) = cum + sumCount cs := by
  induction cs generalizing cum p with
  | nil => simp [knots, lastAbs]
  | cons c cs ih => simp only [knots, lastAbs, ih, sumCount_cons]; ring

/-! ### `quantileLoop` -/

/-- value computed in the right tail of `quantile` -/
def tailVal (limit mn mx : α) (l : Centroid α) (cumEnd : α) : α :=
  interpolate (clampedMean mn mx l) mx ((limit - (cumEnd - half * l.count)) / (half * l.count))

/-- The loop of `quantile`, entered with a previous centroid `cl` whose knot lies strictly below
`limit`, never hits the `i > 0` assertion and computes the interpolation through the knots;
the clamp of `interpolate` is inactive. -/
theorem quantileLoop_spec (limit mn mx : α) (cs : List (Centroid α)) (cl : Centroid α) (cum : α)
    (hprev : cum - cl.count / 2 < limit) (hlim : limit ≤ cum + sumCount cs)
    (hcl : 0 < cl.count) (hpos : ∀ c ∈ cs, 0 < c.count)
    (hrcl : mn ≤ cl.mean ∧ cl.mean ≤ mx) (hr : ∀ c ∈ cs, mn ≤ c.mean ∧ c.mean ≤ mx) :
    (∃ v c', quantileLoop mn mx limit cs (some cl) cum = (some (some v), c') ∧
      v = plLE (cum - cl.count / 2, cl.mean) (knots mx cum cs) limit) ∨
    (∃ l c', quantileLoop mn mx limit cs (some cl) cum = (none, c') ∧ (cl :: cs).getLast? = some l ∧
      tailVal limit mn mx l c' = plLE (cum - cl.count / 2, cl.mean) (knots mx cum cs) limit) := by
  induction cs generalizing cl cum with
  | nil =>
    right
    refine ⟨cl, cum, rfl, rfl, ?_⟩
    simp only [sumCount_nil, add_zero] at hlim
    simp only [knots, plLE, hlim, if_true, tailVal, clampedMean_eq hrcl.1 hrcl.2]
    have ht : (limit - (cum - half * cl.count)) / (half * cl.count)
        = (limit - (cum - cl.count / 2)) / (cum - (cum - cl.count / 2)) := by
      rw [half_eq]; congr 1 <;> ring
    rw [ht]
    exact interpolate_seg (cum - cl.count / 2, cl.mean) (cum, mx) hprev.le hlim
  | cons c cs ih =>
    have hc := hpos c (by simp)
    have hhalf : cum + c.count * half = cum + c.count / 2 := by rw [half_eq]; ring
    have hrc := hr c (by simp)
    unfold quantileLoop
    simp only [hhalf, knots, plLE, clampedMean_eq hrcl.1 hrcl.2, clampedMean_eq hrc.1 hrc.2]
    by_cases h : limit ≤ cum + c.count / 2
    · left
      simp only [h, if_true]
      refine ⟨_, _, rfl, ?_⟩
      have ht : (limit - (cum - half * cl.count)) / (half * (cl.count + c.count))
          = (limit - (cum - cl.count / 2)) / (cum + c.count / 2 - (cum - cl.count / 2)) := by
        rw [half_eq]; congr 1 <;> ring
      rw [ht]
      exact interpolate_seg (cum - cl.count / 2, cl.mean) (cum + c.count / 2, c.mean) hprev.le h
    · simp only [h, if_false, List.getLast?_cons_cons]
      have e : cum + c.count / 2 = cum + c.count - c.count / 2 := by ring
      rw [e]
      apply ih
      · rw [← e]; exact not_le.1 h
      · simp only [sumCount_cons] at hlim; linarith
      · exact hc
      · exact fun d hd => hpos d (by simp [hd])
      · exact hrc
      · exact fun d hd => hr d (by simp [hd])

/-- `quantileInner` is piecewise-linear interpolation through the knots, evaluated at `S·q`. -/
theorem quantileInner_eq {s : St α} {c0 : Centroid α} {cs : List (Centroid α)} {mn mx q : α}
    (hc : s.centroids = c0 :: cs) (hmin : s.min = some mn) (hmax : s.max = some mx)
    (hpos : ∀ c ∈ s.centroids, 0 < c.count) (hr : ∀ c ∈ s.centroids, mn ≤ c.mean ∧ c.mean ≤ mx)
    (hq0 : 0 ≤ q) (hq1 : q ≤ 1) :
    quantileInner s q = .val (plLE (0, mn) (knots mx 0 (c0 :: cs)) (sumCount (c0 :: cs) * q)) := by
  obtain ⟨cents, n, mn', mx', bl, mb⟩ := s
  simp only at hc hmin hmax hpos hr
  subst hc hmin hmax
  have hc0 := hpos c0 (by simp)
  have hr0 := hr c0 (by simp)
  have hS : 0 ≤ sumCount (c0 :: cs) := sumCount_nonneg hpos
  have hl0 : 0 ≤ sumCount (c0 :: cs) * q := mul_nonneg hS hq0
  have hl1 : sumCount (c0 :: cs) * q ≤ sumCount (c0 :: cs) := by
    have := mul_le_mul_of_nonneg_left hq1 hS; simpa using this
  have hhalf : c0.count * half = c0.count / 2 := by rw [half_eq]; ring
  unfold quantileInner
  simp only [totalCount_eq, hhalf, knots, plLE, zero_add, clampedMean_eq hr0.1 hr0.2]
  generalize sumCount (c0 :: cs) * q = limit at *
  by_cases h : limit ≤ c0.count / 2
  · simp only [h, if_true]
    congr 1
    have ht : limit / (half * c0.count) = (limit - 0) / (c0.count / 2 - 0) := by
      rw [half_eq]; congr 1 <;> ring
    rw [ht]
    exact interpolate_seg (0, mn) (c0.count / 2, c0.mean) hl0 h
  · simp only [h, if_false]
    unfold quantileLoop
    have h' : ¬ limit ≤ 0 + c0.count * half := by rw [zero_add, hhalf]; exact h
    simp only [h', if_false]
    have e : c0.count / 2 = 0 + c0.count - c0.count / 2 := by ring
    have hspec := quantileLoop_spec limit mn mx cs c0 (0 + c0.count)
      (by rw [← e]; exact not_le.1 h) (by simpa using hl1) hc0 (fun d hd => hpos d (by simp [hd]))
      hr0 (fun d hd => hr d (by simp [hd]))
    rw [← e] at hspec
    simp only [zero_add] at hspec ⊢
    rcases hspec with ⟨v, c', h1, h2⟩ | ⟨l, c', h1, h2, h3⟩
    · rw [h1]; simp only [h2]
    · rw [h1]; simp only [h2]; rw [← h3]; rfl

/-! ### `cdfLoop` -/

theorem cdfLoop_spec (x total mn mx : α) (cs : List (Centroid α)) (cum lastMean lastCum : α)
    (hx : lastMean ≤ x) (htot : total = cum + sumCount cs) (ht0 : total ≠ 0)
    (hr : ∀ c ∈ cs, mn ≤ c.mean ∧ c.mean ≤ mx) :
    (∃ r a b, cdfLoop mn mx x total cs cum lastMean lastCum = (some r, a, b) ∧
      r = plLT (lastMean, lastCum) (swap (knots mx cum cs)) x / total) ∨
    (∃ lm lc, cdfLoop mn mx x total cs cum lastMean lastCum = (none, lm, lc) ∧
      (if x < mx then interpolate lc total ((x - lm) / (mx - lm)) / total else 1)
        = plLT (lastMean, lastCum) (swap (knots mx cum cs)) x / total) := by
  induction cs generalizing cum lastMean lastCum with
  | nil =>
    right
    refine ⟨lastMean, lastCum, rfl, ?_⟩
    simp only [sumCount_nil, add_zero] at htot
    subst htot
    simp only [knots, swap, List.map_cons, List.map_nil, plLT, Prod.swap_prod_mk]
    by_cases h : x < mx
    · simp only [h, if_true]
      congr 1
      exact interpolate_seg (lastMean, lastCum) (mx, total) hx h.le
    · simp only [h, if_false]
      rw [div_self ht0]
  | cons c cs ih =>
    have hhalf : cum + half * c.count = cum + c.count / 2 := by rw [half_eq]; ring
    have hrc := hr c (by simp)
    unfold cdfLoop
    simp only [hhalf, knots, swap, List.map_cons, plLT, Prod.swap_prod_mk, clampedMean_eq hrc.1 hrc.2]
    by_cases h : x < c.mean
    · left
      simp only [h, if_true]
      refine ⟨_, _, _, rfl, ?_⟩
      congr 1
      exact interpolate_seg (lastMean, lastCum) (c.mean, cum + c.count / 2) hx h.le
    · simp only [h, if_false]
      exact ih (cum + c.count) c.mean (cum + c.count / 2) (not_lt.1 h)
        (by rw [htot, sumCount_cons]; ring) (fun d hd => hr d (by simp [hd]))

/-- `cdfInner` is (for `min ≤ x`) interpolation through the swapped knots, divided by `S`. -/
theorem cdfInner_eq {s : St α} {c0 : Centroid α} {cs : List (Centroid α)} {mn mx x : α}
    (hc : s.centroids = c0 :: cs) (hmin : s.min = some mn) (hmax : s.max = some mx)
    (hpos : ∀ c ∈ s.centroids, 0 < c.count) (hr : ∀ c ∈ s.centroids, mn ≤ c.mean ∧ c.mean ≤ mx)
    (hx : mn ≤ x) :
    cdfInner s x = some (plLT (mn, 0) (swap (knots mx 0 (c0 :: cs))) x / sumCount (c0 :: cs)) := by
  obtain ⟨cents, n, mn', mx', bl, mb⟩ := s
  simp only at hc hmin hmax hpos hr
  subst hc hmin hmax
  have hS : 0 < sumCount (c0 :: cs) := sumCount_pos hpos (by simp)
  unfold cdfInner
  simp only [totalCount_eq, not_lt.2 hx, if_false]
  rcases cdfLoop_spec x (sumCount (c0 :: cs)) mn mx (c0 :: cs) 0 mn 0 hx (by simp) hS.ne' hr
    with ⟨r, a, b, h1, h2⟩ | ⟨lm, lc, h1, h2⟩
  · rw [h1]; simp only [h2]
  · rw [h1]; simp only []
    rw [← h2]
    split <;> rfl

theorem cdfInner_lt_min {s : St α} {c0 : Centroid α} {cs : List (Centroid α)} {mn mx x : α}
    (hc : s.centroids = c0 :: cs) (hmin : s.min = some mn) (hmax : s.max = some mx) (hx : x < mn) :
    cdfInner s x = some 0 := by
  obtain ⟨cents, n, mn', mx', bl, mb⟩ := s
  simp only at hc hmin hmax
  subst hc hmin hmax
  unfold cdfInner
  simp only [hx, if_true]

end Pds.TDigest
