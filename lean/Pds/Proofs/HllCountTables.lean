import Pds.Proofs.HllCountCalib
/-!
More kernel-evaluated facts about the generated tables (C03 part C): sortedness of the raw rows,
thresholds, the `2^-x` table, the `am` constants, and the tie between the `UInt64` bit patterns
(what the model computes with) and the exact decimals (what the calibration facts are about).
-/
set_option maxRecDepth 8000
namespace Pds.HllCount
open Pds.Generated

theorem getD_map {α β : Type} (f : α → β) (d : α) : ∀ (l : List α) (i : Nat),
    (l.map f).getD i (f d) = f (l.getD i d) := by
  intro l
  induction l with
  | nil => intro i; simp
  | cons a t ih => intro i; cases i with
    | zero => simp
    | succ i => simp

/-! ### sortedness of the raw rows -/

def scaledList (row : Array Dec) : List Int := row.toList.map scaled

theorem getD_scaledList (row : Array Dec) (i : Nat) :
    (scaledList row).getD i 0 = scaled (entry row i) := by
  unfold scaledList
  rw [show (0 : Int) = scaled (0, 0) by decide, getD_map, toList_getD]
  rfl

/-- the row is strictly increasing -/
def StrictSortedRow (row : Array Dec) : Prop :=
  ∀ i, i + 1 < row.size → scaled (entry row i) < scaled (entry row (i + 1))

/-- the row is non-decreasing -/
def SortedRow (row : Array Dec) : Prop :=
  ∀ i, i + 1 < row.size → scaled (entry row i) ≤ scaled (entry row (i + 1))

def strictSortedCheck (row : Array Dec) : Bool := adjAll (fun x y => decide (x < y)) (scaledList row)

theorem strictSortedCheck_sound {row : Array Dec} (h : strictSortedCheck row = true) :
    StrictSortedRow row := by
  intro i hi
  unfold strictSortedCheck at h
  rw [adjAll_iff] at h
  have := h i (by simpa [scaledList] using hi)
  rw [getD_scaledList, getD_scaledList] at this
  simpa using this

theorem StrictSortedRow.sorted {row : Array Dec} (h : StrictSortedRow row) : SortedRow row :=
  fun i hi => Int.le_of_lt (h i hi)

/-- positions `i` with `row[i+1] < row[i]` -/
def descents (row : Array Dec) : List Nat := descentsFrom 0 (scaledList row)

theorem mem_descents (row : Array Dec) (i : Nat) :
    i ∈ descents row ↔ i + 1 < row.size ∧ scaled (entry row (i + 1)) < scaled (entry row i) := by
  unfold descents
  rw [mem_descentsFrom]
  constructor
  · rintro ⟨j, hj, hlen, hlt⟩
    have : i = j := by omega
    subst this
    rw [getD_scaledList, getD_scaledList] at hlt
    exact ⟨by simpa [scaledList] using hlen, hlt⟩
  · rintro ⟨hlen, hlt⟩
    refine ⟨i, by omega, by simpa [scaledList] using hlen, ?_⟩
    rw [getD_scaledList, getD_scaledList]; exact hlt

theorem strictSorted0 : StrictSortedRow rawDec0 := strictSortedCheck_sound (by decide +kernel)
theorem strictSorted3 : StrictSortedRow rawDec3 := strictSortedCheck_sound (by decide +kernel)
theorem strictSorted4 : StrictSortedRow rawDec4 := strictSortedCheck_sound (by decide +kernel)
theorem strictSorted5 : StrictSortedRow rawDec5 := strictSortedCheck_sound (by decide +kernel)
theorem strictSorted6 : StrictSortedRow rawDec6 := strictSortedCheck_sound (by decide +kernel)
theorem strictSorted7 : StrictSortedRow rawDec7 := strictSortedCheck_sound (by decide +kernel)
theorem strictSorted8 : StrictSortedRow rawDec8 := strictSortedCheck_sound (by decide +kernel)
theorem strictSorted9 : StrictSortedRow rawDec9 := strictSortedCheck_sound (by decide +kernel)
theorem strictSorted10 : StrictSortedRow rawDec10 := strictSortedCheck_sound (by decide +kernel)
theorem strictSorted11 : StrictSortedRow rawDec11 := strictSortedCheck_sound (by decide +kernel)
theorem strictSorted12 : StrictSortedRow rawDec12 := strictSortedCheck_sound (by decide +kernel)
theorem strictSorted13 : StrictSortedRow rawDec13 := strictSortedCheck_sound (by decide +kernel)
theorem strictSorted14 : StrictSortedRow rawDec14 := strictSortedCheck_sound (by decide +kernel)

theorem strictSorted_all : ∀ p, p < 15 → p ≠ 1 → p ≠ 2 → StrictSortedRow (rawDec.getD p #[])
  | 0, _, _, _ => strictSorted0 | 1, _, h, _ => absurd rfl h | 2, _, _, h => absurd rfl h
  | 3, _, _, _ => strictSorted3 | 4, _, _, _ => strictSorted4
  | 5, _, _, _ => strictSorted5 | 6, _, _, _ => strictSorted6 | 7, _, _, _ => strictSorted7
  | 8, _, _, _ => strictSorted8 | 9, _, _, _ => strictSorted9 | 10, _, _, _ => strictSorted10
  | 11, _, _, _ => strictSorted11 | 12, _, _, _ => strictSorted12 | 13, _, _, _ => strictSorted13
  | 14, _, _, _ => strictSorted14
  | n + 15, h, _, _ => absurd h (by omega)

/-- precision 5 (`rawDec1`): exactly two descents -/
theorem descents1 : descents rawDec1 = [127, 130] := by decide +kernel
/-- precision 6 (`rawDec2`): exactly two descents -/
theorem descents2 : descents rawDec2 = [148, 167] := by decide +kernel

/-- the four offending pairs, as decimals `(mantissa, exponent)` -/
theorem descent_values :
    (entry rawDec1 127, entry rawDec1 128) = ((1283464, 4), (1283462, 4)) ∧
    (entry rawDec1 130, entry rawDec1 131) = ((1310342, 4), (1310042, 4)) ∧
    (entry rawDec2 148, entry rawDec2 149) = ((2381974, 4), (2377474, 4)) ∧
    (entry rawDec2 167, entry rawDec2 168) = ((2672566, 4), (2671624, 4)) := by decide +kernel

/-! ### thresholds -/

theorem thresholds_eq : thresholds =
    #[10, 20, 40, 80, 220, 400, 900, 1800, 3100, 6500, 11500, 20000, 50000, 120000, 350000] := by
  decide +kernel

theorem thresholds_bounds : ∀ p, p < 15 →
    6 * 2 ^ (p + 4) ≤ 10 * thresholds.getD p 0 ∧ 8 * thresholds.getD p 0 ≤ 11 * 2 ^ (p + 4) := by
  decide +kernel

theorem thresholds_increasing : ∀ p, p < 14 → thresholds.getD p 0 < thresholds.getD (p + 1) 0 := by
  decide +kernel

/-- the two bounds are tight among bounds `num/den · 2^b` with these denominators: `5/8` fails
below (b = 15) and `4/3` fails above (b = 18). -/
theorem thresholds_bounds_tight :
    ¬ (5 * 2 ^ (11 + 4) ≤ 8 * thresholds.getD 11 0) ∧ ¬ (3 * thresholds.getD 14 0 ≤ 4 * 2 ^ (14 + 4)) := by
  decide +kernel

/-! ### decoding f64 bit patterns (no floats involved) -/

/-- sign bit -/
def f64Sign (w : UInt64) : Bool := w.toNat / 2 ^ 63 == 1
/-- biased exponent field (11 bits) -/
def f64Exp (w : UInt64) : Nat := w.toNat / 2 ^ 52 % 2 ^ 11
/-- fraction field (52 bits) -/
def f64Frac (w : UInt64) : Nat := w.toNat % 2 ^ 52

/-- For a finite f64 with exponent field `≤ 1075` (i.e. `|value| < 2^53`) the exact value is
`f64Num w / 2 ^ f64Den w` (IEEE 754 binary64; subnormals when the exponent field is 0). -/
def f64Num (w : UInt64) : Int :=
  (if f64Sign w then -1 else 1) * ((if f64Exp w = 0 then f64Frac w else 2 ^ 52 + f64Frac w : Nat) : Int)
def f64Den (w : UInt64) : Nat := if f64Exp w = 0 then 1074 else 1075 - f64Exp w

/-- The f64 `w` is within half a unit in the last place of the decimal `d = M / 10^k`:
`|num / 2^den − M / 10^k| ≤ 2^-(den+1)`, cross-multiplied.  This is what "`w` is the f64 the
compiler produces for the literal `d`" means (round to nearest). -/
def BitsMatchDec (w : UInt64) (d : Dec) : Prop :=
  f64Exp w ≤ 1075 ∧ 2 * (f64Num w * 10 ^ d.2 - d.1 * 2 ^ f64Den w).natAbs ≤ 10 ^ d.2

instance (w : UInt64) (d : Dec) : Decidable (BitsMatchDec w d) := by
  unfold BitsMatchDec; infer_instance

/-- all entries of a bits row match the entries of the decimal row -/
def RowMatches (bits : Array UInt64) (dec : Array Dec) : Prop :=
  bits.size = dec.size ∧ ∀ i, i < bits.size → BitsMatchDec (bits.getD i 0) (entry dec i)

def rowMatchesCheck (bits : Array UInt64) (dec : Array Dec) : Bool :=
  bits.size == dec.size &&
  (List.zipWith (fun w d => decide (BitsMatchDec w d)) bits.toList dec.toList).all id

theorem rowMatchesCheck_sound {bits : Array UInt64} {dec : Array Dec}
    (h : rowMatchesCheck bits dec = true) : RowMatches bits dec := by
  unfold rowMatchesCheck at h
  simp only [Bool.and_eq_true, beq_iff_eq] at h
  obtain ⟨hsz, hall⟩ := h
  refine ⟨hsz, fun i hi => ?_⟩
  rw [List.all_eq_true] at hall
  have hi2 : i < dec.size := hsz ▸ hi
  have := hall (decide (BitsMatchDec bits[i] dec[i])) (by
    rw [List.mem_iff_getElem]
    refine ⟨i, by simpa [← hsz] using hi, ?_⟩
    simp)
  have e1 : bits.getD i 0 = bits[i] := by simp [Array.getD, hi]
  have e2 : entry dec i = dec[i] := by simp [entry, Array.getD, hi2]
  rw [e1, e2]
  simpa using this

theorem rawMatch0 : RowMatches rawBits0 rawDec0 := rowMatchesCheck_sound (by decide +kernel)
theorem rawMatch1 : RowMatches rawBits1 rawDec1 := rowMatchesCheck_sound (by decide +kernel)
theorem rawMatch2 : RowMatches rawBits2 rawDec2 := rowMatchesCheck_sound (by decide +kernel)
theorem rawMatch3 : RowMatches rawBits3 rawDec3 := rowMatchesCheck_sound (by decide +kernel)
theorem rawMatch4 : RowMatches rawBits4 rawDec4 := rowMatchesCheck_sound (by decide +kernel)
theorem rawMatch5 : RowMatches rawBits5 rawDec5 := rowMatchesCheck_sound (by decide +kernel)
theorem rawMatch6 : RowMatches rawBits6 rawDec6 := rowMatchesCheck_sound (by decide +kernel)
theorem rawMatch7 : RowMatches rawBits7 rawDec7 := rowMatchesCheck_sound (by decide +kernel)
theorem rawMatch8 : RowMatches rawBits8 rawDec8 := rowMatchesCheck_sound (by decide +kernel)
theorem rawMatch9 : RowMatches rawBits9 rawDec9 := rowMatchesCheck_sound (by decide +kernel)
theorem rawMatch10 : RowMatches rawBits10 rawDec10 := rowMatchesCheck_sound (by decide +kernel)
theorem rawMatch11 : RowMatches rawBits11 rawDec11 := rowMatchesCheck_sound (by decide +kernel)
theorem rawMatch12 : RowMatches rawBits12 rawDec12 := rowMatchesCheck_sound (by decide +kernel)
theorem rawMatch13 : RowMatches rawBits13 rawDec13 := rowMatchesCheck_sound (by decide +kernel)
theorem rawMatch14 : RowMatches rawBits14 rawDec14 := rowMatchesCheck_sound (by decide +kernel)

theorem biasMatch0 : RowMatches biasBits0 biasDec0 := rowMatchesCheck_sound (by decide +kernel)
theorem biasMatch1 : RowMatches biasBits1 biasDec1 := rowMatchesCheck_sound (by decide +kernel)
theorem biasMatch2 : RowMatches biasBits2 biasDec2 := rowMatchesCheck_sound (by decide +kernel)
theorem biasMatch3 : RowMatches biasBits3 biasDec3 := rowMatchesCheck_sound (by decide +kernel)
theorem biasMatch4 : RowMatches biasBits4 biasDec4 := rowMatchesCheck_sound (by decide +kernel)
theorem biasMatch5 : RowMatches biasBits5 biasDec5 := rowMatchesCheck_sound (by decide +kernel)
theorem biasMatch6 : RowMatches biasBits6 biasDec6 := rowMatchesCheck_sound (by decide +kernel)
theorem biasMatch7 : RowMatches biasBits7 biasDec7 := rowMatchesCheck_sound (by decide +kernel)
theorem biasMatch8 : RowMatches biasBits8 biasDec8 := rowMatchesCheck_sound (by decide +kernel)
theorem biasMatch9 : RowMatches biasBits9 biasDec9 := rowMatchesCheck_sound (by decide +kernel)
theorem biasMatch10 : RowMatches biasBits10 biasDec10 := rowMatchesCheck_sound (by decide +kernel)
theorem biasMatch11 : RowMatches biasBits11 biasDec11 := rowMatchesCheck_sound (by decide +kernel)
theorem biasMatch12 : RowMatches biasBits12 biasDec12 := rowMatchesCheck_sound (by decide +kernel)
theorem biasMatch13 : RowMatches biasBits13 biasDec13 := rowMatchesCheck_sound (by decide +kernel)
theorem biasMatch14 : RowMatches biasBits14 biasDec14 := rowMatchesCheck_sound (by decide +kernel)

theorem rawMatch_all : ∀ p, p < 15 → RowMatches (rawBits.getD p #[]) (rawDec.getD p #[])
  | 0, _ => rawMatch0 | 1, _ => rawMatch1 | 2, _ => rawMatch2 | 3, _ => rawMatch3 | 4, _ => rawMatch4
  | 5, _ => rawMatch5 | 6, _ => rawMatch6 | 7, _ => rawMatch7 | 8, _ => rawMatch8 | 9, _ => rawMatch9
  | 10, _ => rawMatch10 | 11, _ => rawMatch11 | 12, _ => rawMatch12 | 13, _ => rawMatch13
  | 14, _ => rawMatch14
  | n + 15, h => absurd h (by omega)

theorem biasMatch_all : ∀ p, p < 15 → RowMatches (biasBits.getD p #[]) (biasDec.getD p #[])
  | 0, _ => biasMatch0 | 1, _ => biasMatch1 | 2, _ => biasMatch2 | 3, _ => biasMatch3
  | 4, _ => biasMatch4 | 5, _ => biasMatch5 | 6, _ => biasMatch6 | 7, _ => biasMatch7
  | 8, _ => biasMatch8 | 9, _ => biasMatch9 | 10, _ => biasMatch10 | 11, _ => biasMatch11
  | 12, _ => biasMatch12 | 13, _ => biasMatch13 | 14, _ => biasMatch14
  | n + 15, h => absurd h (by omega)

/-! ### the `2^-x` table -/

theorem pow2minx_toList :
    pow2minxBits.toList = (List.range 256).map (fun x => UInt64.ofNat ((1023 - x) * 2 ^ 52)) := by
  decide +kernel

theorem pow2minx_bits {x : Nat} (hx : x < 256) :
    pow2minxBits[x]? = some (UInt64.ofNat ((1023 - x) * 2 ^ 52)) := by
  rw [← Array.getElem?_toList, pow2minx_toList, List.getElem?_map, List.getElem?_range hx]
  rfl

/-- decoded: sign `+`, biased exponent `1023 - x` (so a normal number), fraction 0: the value is
`2^52 / 2^(52 + x) = 2^-x` exactly. -/
theorem pow2minx_decoded : ∀ x, x < 256 →
    f64Sign (pow2minxBits.getD x 0) = false ∧ f64Exp (pow2minxBits.getD x 0) = 1023 - x ∧
    f64Frac (pow2minxBits.getD x 0) = 0 ∧
    f64Num (pow2minxBits.getD x 0) = 2 ^ 52 ∧ f64Den (pow2minxBits.getD x 0) = 52 + x := by
  decide +kernel

/-! ### the `am` constants -/

theorem amCut_eq : amCut = #[128, 64, 32] ∧ amCut = #[amCut0, amCut1, amCut2] := by decide +kernel

theorem amDec_eq : amDec = #[(7213, 4), (1079, 3), (709, 3), (697, 3), (673, 3)] := by decide +kernel

theorem amBits_eq : amBits = #[am0Bits, am1Bits, am2Bits, am3Bits, am4Bits] := by decide +kernel

theorem am_match : RowMatches amBits amDec := rowMatchesCheck_sound (by decide +kernel)

end Pds.HllCount
