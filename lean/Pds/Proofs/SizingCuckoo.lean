import Pds.Proofs.SizingReal
import Pds.Proofs.CuckooState
import Mathlib.Data.Finset.Card
import Mathlib.Data.Finset.Prod
import Mathlib.Order.Interval.Finset.Nat
import Mathlib.Algebra.Order.BigOperators.Group.Finset
import Mathlib.Tactic.FieldSimp
import Mathlib.Tactic.Ring
/-!
Cuckoo filter: what `with_properties` computes (over `ℝ`), the counting bound on the
`(primary bucket, fingerprint)` pairs a filter answers `true` for, and the resulting rate.
-/
namespace Pds.Sizing

/-- everything `cuckooParams` returns, for `b ≥ 1`, `0 < load`, `0 < p < 1`, `n ≥ 1`
(`0 < load` is not used by the proof: over `ℝ` division by zero is total; it is kept because the
`Float` computation is only meaningful for a positive load factor) -/
theorem cuckooParams_spec {b n : ℕ} {load p : ℝ} (hb : 1 ≤ b) (_hl0 : 0 < load) (hp : 0 < p)
    (hp1 : p < 1) (hn : 1 ≤ n) :
    ∃ nb l j, cuckooParams b load p n = some (b, nb, l) ∧ l = ⌈cuckooLReal b p⌉₊ ∧ 2 ≤ l ∧
      2 * (b : ℝ) / p ≤ (2 : ℝ) ^ l ∧ 2 * (b : ℝ) / (2 : ℝ) ^ l ≤ p ∧
      nb = nextPow2 ⌈(n : ℝ) / load⌉₊ ∧ nb = 2 ^ j ∧ (n : ℝ) / load ≤ (nb : ℝ) ∧
      (2 ≤ ⌈(n : ℝ) / load⌉₊ → nb < 2 * ⌈(n : ℝ) / load⌉₊) := by
  have hl2 := cuckoo_l_ge_two hb hp hp1
  have harg : ((⌈cuckooLReal b p⌉₊ : ℝ) / load) * (n : ℝ) / (⌈cuckooLReal b p⌉₊ : ℝ) = (n : ℝ) / load :=
    cuckoo_costs_simp (by omega) load n
  obtain ⟨j, hj, hge, hlt⟩ := nextPow2_spec ⌈(n : ℝ) / load⌉₊
  refine ⟨_, _, j, cuckooParams_eq b load hn hp hp1, rfl, hl2, cuckoo_pow_ge hb hp hp1,
    cuckoo_collision_bound hb hp hp1, by rw [harg], by rw [harg]; exact hj, ?_, by rw [harg]; exact hlt⟩
  rw [harg]
  calc (n : ℝ) / load ≤ (⌈(n : ℝ) / load⌉₊ : ℝ) := Nat.le_ceil _
    _ ≤ _ := by exact_mod_cast hge

/-- the rate `2·len / (nb·(2^l − 1))` of the counting bound, under the sizing of `cuckooParams`:
at most `(4/3)·(load/b)·p` -/
theorem cuckoo_rate_bound {b n len nb l : ℕ} {load p : ℝ} (hb : 1 ≤ b) (hl0 : 0 < load)
    (hp : 0 < p) (hp1 : p < 1) (hn : 1 ≤ n) (hlen : len ≤ n)
    (h : cuckooParams b load p n = some (b, nb, l)) :
    2 * (len : ℝ) / ((nb : ℝ) * ((2 : ℝ) ^ l - 1)) ≤ 4 / 3 * (load / b) * p := by
  obtain ⟨nb', l', j, e, -, hl2, hpow, -, -, -, hnb, -⟩ := cuckooParams_spec hb hl0 hp hp1 hn
  rw [e] at h
  simp only [Option.some.injEq, Prod.mk.injEq, true_and] at h
  obtain ⟨rfl, rfl⟩ := h
  have hb' : (1 : ℝ) ≤ b := by exact_mod_cast hb
  have hL4 : (4 : ℝ) ≤ (2 : ℝ) ^ l' := by
    have : (2 : ℝ) ^ 2 ≤ (2 : ℝ) ^ l' := pow_le_pow_right₀ (by norm_num) hl2
    linarith
  have hlen' : (len : ℝ) ≤ n := by exact_mod_cast hlen
  have hn' : (1 : ℝ) ≤ n := by exact_mod_cast hn
  have hnbpos : (0 : ℝ) < nb' := lt_of_lt_of_le (div_pos (by linarith) hl0) hnb
  have h1 : (len : ℝ) ≤ nb' * load := by
    rw [div_le_iff₀ hl0] at hnb; linarith
  have h2 : 3 * (b : ℝ) ≤ 2 * p * ((2 : ℝ) ^ l' - 1) := by
    rw [div_le_iff₀ hp] at hpow
    nlinarith
  have hden : (0 : ℝ) < (nb' : ℝ) * ((2 : ℝ) ^ l' - 1) := mul_pos hnbpos (by linarith)
  rw [div_le_iff₀ hden]
  have key : (1 : ℝ) ≤ 2 * p * ((2 : ℝ) ^ l' - 1) / (3 * b) := by
    rw [le_div_iff₀ (by linarith)]; linarith
  calc 2 * (len : ℝ) ≤ 2 * (nb' * load) * 1 := by linarith
    _ ≤ 2 * (nb' * load) * (2 * p * ((2 : ℝ) ^ l' - 1) / (3 * b)) :=
        mul_le_mul_of_nonneg_left key (by positivity)
    _ = 4 / 3 * (load / b) * p * ((nb' : ℝ) * ((2 : ℝ) ^ l' - 1)) := by
        field_simp; ring

/-- with at least two slots per bucket (which the constructor requires) and `load ≤ 1` the rate is
at most `(2/3)·load·p ≤ p` -/
theorem cuckoo_rate_le_p {b n len nb l : ℕ} {load p : ℝ} (hb : 2 ≤ b) (hl0 : 0 < load)
    (hl1 : load ≤ 1) (hp : 0 < p) (hp1 : p < 1) (hn : 1 ≤ n) (hlen : len ≤ n)
    (h : cuckooParams b load p n = some (b, nb, l)) :
    2 * (len : ℝ) / ((nb : ℝ) * ((2 : ℝ) ^ l - 1)) ≤ 2 / 3 * load * p ∧ 2 / 3 * load * p ≤ p := by
  have h1 := cuckoo_rate_bound (by omega) hl0 hp hp1 hn hlen h
  have hb' : (2 : ℝ) ≤ b := by exact_mod_cast hb
  have h2 : load / b ≤ load / 2 := div_le_div_of_nonneg_left (le_of_lt hl0) (by norm_num) hb'
  constructor
  · have : 4 / 3 * (load / b) * p ≤ 4 / 3 * (load / 2) * p := by
      apply mul_le_mul_of_nonneg_right _ (le_of_lt hp)
      linarith
    linarith
  · nlinarith

end Pds.Sizing

namespace Pds.Cuckoo
open Finset

variable {R : Type}

/-- all `(primary bucket, fingerprint)` pairs an element can hash to -/
def allPairs (nb lf : ℕ) : Finset (ℕ × ℕ) := range nb ×ˢ Icc 1 (2 ^ lf - 1)

theorem card_allPairs (nb lf : ℕ) : (allPairs nb lf).card = nb * (2 ^ lf - 1) := by
  simp [allPairs, card_product]

open Classical in
/-- the pairs the filter answers `true` for -/
noncomputable def hitPairs (hash : List Nat → Nat) (s : St R) : Finset (ℕ × ℕ) :=
  (allPairs s.nb s.lf).filter fun q => cls hash s.nb q.2 q.1 ∈ abs hash s

/-- the pair of an element is one of `allPairs`, and `query` is membership of it in `hitPairs` -/
theorem query_iff_hit (hash : List Nat → Nat) {s : St R} (h : Inv hash s) (x : Nat) :
    (bucketOf hash s.nb x, fingerprint hash s.lf x) ∈ allPairs s.nb s.lf ∧
    (query hash s x = some true ↔
      (bucketOf hash s.nb x, fingerprint hash s.lf x) ∈ hitPairs hash s) := by
  obtain ⟨b, e, hiff⟩ := query_spec hash h.1 x
  obtain ⟨_, hi1, _, _, hc⟩ := start_facts hash h.1 x
  have hall : (bucketOf hash s.nb x, fingerprint hash s.lf x) ∈ allPairs s.nb s.lf := by
    have h1 := fingerprint_pos hash s.lf x
    have h2 := fingerprint_lt hash h.1.lf.1 x
    simp only [allPairs, mem_product, mem_range, mem_Icc]
    exact ⟨hi1, h1, by omega⟩
  refine ⟨hall, ?_⟩
  unfold hitPairs
  rw [mem_filter, e]
  simp only [hall, true_and, hc, ← hiff, Option.some.injEq]

/-- at most two pairs per stored class, hence at most `2·len` pairs are answered `true` -/
theorem hitPairs_card_le (hash : List Nat → Nat) {s : St R} (h : Inv hash s) :
    (hitPairs hash s).card ≤ 2 * s.n := by
  classical
  have hfib : ∀ c ∈ (hitPairs hash s).image (fun q : ℕ × ℕ => cls hash s.nb q.2 q.1),
      ((hitPairs hash s).filter fun q : ℕ × ℕ => cls hash s.nb q.2 q.1 = c).card ≤ 2 := by
    intro c hc
    obtain ⟨⟨k, g⟩, _, rfl⟩ := mem_image.mp hc
    refine le_trans (card_le_card ?_) (card_le_two (a := (k, g)) (b := (k ^^^ bucketOf hash s.nb g, g)))
    intro q hq
    obtain ⟨i, f⟩ := q
    have := (cls_eq_iff hash s.nb f g i k).mp (mem_filter.mp hq).2
    obtain ⟨rfl, hik | hik⟩ := this
    · subst hik; simp
    · subst hik; simp
  have h1 := card_le_mul_card_image (hitPairs hash s) 2 hfib
  have himg : (hitPairs hash s).image (fun q : ℕ × ℕ => cls hash s.nb q.2 q.1) ⊆ (abs hash s).toFinset := by
    intro c hc
    obtain ⟨q, hq, rfl⟩ := mem_image.mp hc
    exact Multiset.mem_toFinset.mpr (mem_filter.mp hq).2
  have h2 := card_le_card himg
  have h3 := Multiset.toFinset_card_le (abs hash s)
  rw [h.2]
  omega

end Pds.Cuckoo
