import Pds.Proofs.Reservoir
/-! Helper lemmas for the uniformity counting identities of reservoir sampling (C05). -/
namespace Pds.Reservoir
open List
variable {R : Type}

/-! ### generic counting lemmas -/

theorem countP_flatMap_ite {α β : Type} (P : β → Bool) (Q : α → Bool) (f : α → List β) (c : Nat)
    (l : List α) (h : ∀ a ∈ l, countP P (f a) = if Q a then c else 0) :
    countP P (l.flatMap f) = c * countP Q l := by
  induction l with
  | nil => simp
  | cons a l ih =>
    rw [flatMap_cons, countP_append, h a (by simp), ih (fun b hb => h b (by simp [hb])),
      countP_cons]
    split <;> simp [Nat.mul_add, Nat.add_comm]

theorem countP_flatMap_const {α β : Type} (P : β → Bool) (f : α → List β) (c : Nat)
    (l : List α) (h : ∀ a ∈ l, countP P (f a) = c) :
    countP P (l.flatMap f) = c * l.length := by
  have := countP_flatMap_ite P (fun _ => true) f c l (by simpa using h)
  simpa using this

theorem length_flatMap_const {α β : Type} (f : α → List β) (c : Nat)
    (l : List α) (h : ∀ a ∈ l, (f a).length = c) : (l.flatMap f).length = c * l.length := by
  have := countP_flatMap_const (fun _ => true) f c l (by simpa using h)
  simpa using this

theorem countP_ne_range (s m : Nat) :
    countP (fun j => decide (j ≠ s)) (range m) = if s < m then m - 1 else m := by
  induction m with
  | zero => simp
  | succ m ih =>
    rw [range_succ, countP_append, ih]
    by_cases h : m = s
    · subst h; simp
    · simp [h]; split <;> split <;> omega

theorem countP_lt_range (k m : Nat) :
    countP (fun j => decide (j < k)) (range m) = min k m := by
  induction m with
  | zero => simp
  | succ m ih =>
    rw [range_succ, countP_append, ih]
    by_cases h : m < k
    · simp [h]; omega
    · simp [h]; omega

theorem countP_eq_range (s m : Nat) :
    countP (fun j => decide (j = s)) (range m) = if s < m then 1 else 0 := by
  induction m with
  | zero => simp
  | succ m ih =>
    rw [range_succ, countP_append, ih]
    by_cases h : m = s
    · subst h; simp
    · simp [h]; split <;> split <;> omega

/-! ### the replay RNG -/

/-- RNG state of the replay generator: pending gap outcomes and pending slot outcomes. -/
abbrev Replay := List Nat × List Nat

/-- Replays prescribed outcomes.  `below n` pops the next slot outcome (an outcome that is not
`< n` is clamped to 0, which makes the instance lawful; outcomes from `allChoices` are never
clamped), `gap` pops the next gap outcome; an exhausted list answers 0 and consumes nothing. -/
def replay : RngI Replay where
  below n r := match r.2 with
    | [] => (0, r)
    | j :: js => (if j < n then j else 0, (r.1, js))
  gap _ _ r := match r.1 with
    | [] => (0, r)
    | g :: gs => (g, (gs, r.2))

theorem replay_lawful : Lawful replay := by
  intro n r hn
  unfold replay
  dsimp only
  split
  · exact hn
  · dsimp only; split <;> omega

theorem replay_below (n : Nat) (gs : List Nat) (j : Nat) (t : List Nat) (h : j < n) :
    replay.below n (gs, j :: t) = (j, (gs, t)) := by
  simp [replay, h]

theorem replay_gap (a b : Nat) (gs js : List Nat) :
    replay.gap a b (gs, js) = (gs.headD 0, (gs.tail, js)) := by
  cases gs <;> rfl

/-- all slot-draw sequences `(j_k, …, j_{n-1})` of the plain phase, `j_i ∈ {0,…,i}` -/
def allChoices (k : Nat) : Nat → List (List Nat)
  | 0 => [[]]
  | n + 1 =>
    if n < k then [[]]
    else (allChoices k n).flatMap fun js => (range (n + 1)).map fun j => js ++ [j]

theorem allChoices_le {k n : Nat} (h : n ≤ k) : allChoices k n = [[]] := by
  cases n with
  | zero => rfl
  | succ n => simp [allChoices]; omega

theorem allChoices_succ {k n : Nat} (h : k ≤ n) :
    allChoices k (n + 1) =
      (allChoices k n).flatMap fun js => (range (n + 1)).map fun j => js ++ [j] := by
  simp [allChoices]; omega

theorem mem_allChoices_succ {k n : Nat} (h : k ≤ n) {js : List Nat} :
    js ∈ allChoices k (n + 1) ↔ ∃ js' ∈ allChoices k n, ∃ j, j < n + 1 ∧ js = js' ++ [j] := by
  rw [allChoices_succ h]
  simp only [mem_flatMap, mem_map, mem_range]
  constructor
  · rintro ⟨js', h1, j, h2, rfl⟩; exact ⟨js', h1, j, h2, rfl⟩
  · rintro ⟨js', h1, j, h2, rfl⟩; exact ⟨js', h1, j, h2, rfl⟩

theorem length_allChoices_succ {k n : Nat} (h : k ≤ n) :
    (allChoices k (n + 1)).length = (n + 1) * (allChoices k n).length := by
  rw [allChoices_succ h]
  apply length_flatMap_const
  intro a _; simp

/-- reservoir after the plain-phase draws `js` (positions `0 … n-1` fed) -/
def runPlain (k n : Nat) (js : List Nat) : Array Nat :=
  ((run replay k ([], js) n).map (·.res)).getD #[]

/-- one plain-phase step on the reservoir: draw `j`, item `x` -/
def stepRes (k : Nat) (res : Array Nat) (j x : Nat) : Array Nat :=
  if j < k then res.setIfInBounds j x else res

def skAfter (k n : Nat) (gs : List Nat) : Nat := if n = 4 * k then 4 * k + gs.headD 0 else 0
def gsAfter (k n : Nat) (gs : List Nat) : List Nat := if n = 4 * k then gs.tail else gs

theorem run_fill (I : RngI R) {k : Nat} (hk : 0 < k) (rng : R) {n : Nat} (h : n ≤ k) :
    run I k rng n = some ⟨k, Array.range n, n, 0, rng⟩ := by
  induction n with
  | zero => rw [run_zero, new_eq hk]; rfl
  | succ n ih =>
    rw [run_succ, ih (by omega), Option.bind_some, add_fill _ _ _ (by show n < k; omega)]
    simp [Array.range_succ]

theorem add_replay_plain {k n : Nat} (res : Array Nat) (gs t : List Nat) (j : Nat)
    (h1 : k ≤ n) (h2 : n < 4 * k) (hsz : res.size = k) (hj : j < n + 1) :
    add replay ⟨k, res, n, 0, (gs, j :: t)⟩ n =
      some ⟨k, stepRes k res j n, n + 1, skAfter k (n + 1) gs, (gsAfter k (n + 1) gs, t)⟩ := by
  have hpe := phaseEnd_eq k
  rw [add_plain _ _ _ (by exact h1) (by show n < phaseEnd k; omega)]
  have hr : plainRng replay ⟨k, res, n, 0, (gs, j :: t)⟩ = (gsAfter k (n + 1) gs, j :: t) := by
    unfold plainRng gsAfter
    simp only [hpe, replay_gap]
    split <;> rfl
  have hs : plainSkip replay ⟨k, res, n, 0, (gs, j :: t)⟩ = skAfter k (n + 1) gs := by
    unfold plainSkip skAfter
    simp only [hpe, replay_gap]
  rw [hr, hs]
  simp only [replay_below _ _ _ _ hj, stepRes, hsz]
  split <;> simp

/-- The replayed run through fill and plain phase: exact final state.  In particular the
reservoir does not depend on the gap outcomes `gs` nor on unconsumed slot outcomes `t`. -/
theorem run_replay_aux {k : Nat} (hk : 0 < k) (n : Nat) (h1 : k ≤ n) (h2 : n ≤ 4 * k) :
    ∀ js ∈ allChoices k n, ∃ res : Array Nat, ∀ gs t,
      run replay k (gs, js ++ t) n =
        some ⟨k, res, n, skAfter k n gs, (gsAfter k n gs, t)⟩ := by
  induction n with
  | zero => omega
  | succ n ih =>
    by_cases c : n < k
    · have : n + 1 = k := by omega
      intro js hjs
      rw [allChoices_le (by omega)] at hjs
      simp only [mem_singleton] at hjs
      subst hjs
      refine ⟨Array.range (n + 1), fun gs t => ?_⟩
      rw [run_fill _ hk _ (by omega)]
      simp [skAfter, gsAfter]; omega
    · intro js hjs
      obtain ⟨js', hjs', j, hj, rfl⟩ := (mem_allChoices_succ (by omega)).mp hjs
      obtain ⟨res, hres⟩ := ih (by omega) (by omega) js' hjs'
      have hsz : res.size = k := by
        have e := hres [] []
        obtain ⟨s, e', v⟩ := run_inv replay_lawful hk (([], js' ++ []) : Replay) n
        rw [e] at e'
        cases e'
        have := v.size
        simp only at this
        omega
      refine ⟨stepRes k res j n, fun gs t => ?_⟩
      rw [run_succ, append_assoc, singleton_append, hres gs (j :: t), Option.bind_some]
      have e1 : skAfter k n gs = 0 := by simp [skAfter]; omega
      have e2 : gsAfter k n gs = gs := by simp [gsAfter]; omega
      rw [e1, e2]
      exact add_replay_plain res gs t j (by omega) (by omega) hsz hj

theorem run_replay {k : Nat} (hk : 0 < k) {n : Nat} (h1 : k ≤ n) (h2 : n ≤ 4 * k)
    {js : List Nat} (hjs : js ∈ allChoices k n) (gs t : List Nat) :
    run replay k (gs, js ++ t) n =
      some ⟨k, runPlain k n js, n, skAfter k n gs, (gsAfter k n gs, t)⟩ := by
  obtain ⟨res, hres⟩ := run_replay_aux hk n h1 h2 js hjs
  have : runPlain k n js = res := by
    have := hres [] []
    rw [append_nil] at this
    simp [runPlain, this]
  rw [this]; exact hres gs t

theorem runPlain_base {k : Nat} (hk : 0 < k) : runPlain k k [] = Array.range k := by
  simp [runPlain, run_fill replay hk ([], []) (Nat.le_refl k)]

theorem runPlain_succ {k : Nat} (hk : 0 < k) {n : Nat} (h1 : k ≤ n) (h2 : n < 4 * k)
    {js : List Nat} (hjs : js ∈ allChoices k n) {j : Nat} (hj : j < n + 1) :
    runPlain k (n + 1) (js ++ [j]) = stepRes k (runPlain k n js) j n := by
  have hmem : js ++ [j] ∈ allChoices k (n + 1) :=
    (mem_allChoices_succ h1).mpr ⟨js, hjs, j, hj, rfl⟩
  have e := run_replay hk (by omega) (by omega) hmem [] []
  rw [append_nil, run_succ] at e
  have e' := run_replay hk h1 (by omega) hjs [] [j]
  rw [e', Option.bind_some] at e
  have hsz : (runPlain k n js).size = k := by
    obtain ⟨s, e'', v⟩ := run_inv replay_lawful hk (([], js ++ [j]) : Replay) n
    rw [e'] at e''
    cases e''
    have := v.size
    simp only at this
    omega
  have e1 : skAfter k n [] = 0 := by simp [skAfter]; omega
  have e2 : gsAfter k n [] = [] := by simp [gsAfter]
  rw [e1, e2, add_replay_plain _ _ _ _ h1 h2 hsz hj] at e
  injection e with e
  injection e with _ e
  exact e.symm

/-- the invariant, for the replayed reservoir -/
theorem runPlain_inv {k : Nat} (hk : 0 < k) {n : Nat} (h1 : k ≤ n) (h2 : n ≤ 4 * k)
    {js : List Nat} (hjs : js ∈ allChoices k n) :
    (runPlain k n js).size = k ∧
    (∀ a (h : a < (runPlain k n js).size), (runPlain k n js)[a] < n) ∧
    (∀ a b (ha : a < (runPlain k n js).size) (hb : b < (runPlain k n js).size),
      (runPlain k n js)[a] = (runPlain k n js)[b] → a = b) := by
  have e' := run_replay hk h1 h2 hjs [] []
  obtain ⟨s, e'', v⟩ := run_inv replay_lawful hk (([], js ++ []) : Replay) n
  rw [e'] at e''
  cases e''
  refine ⟨?_, v.lt, v.inj⟩
  have := v.size
  simp only at this
  omega


/-! ### one plain step, counted over the `n+1` slot outcomes -/

theorem mem_setIfInBounds_iff {res : Array Nat} {j x p : Nat} :
    p ∈ res.setIfInBounds j x ↔
      (j < res.size ∧ p = x) ∨ ∃ a, ∃ _ : a < res.size, a ≠ j ∧ res[a] = p := by
  rw [Array.mem_iff_getElem]
  constructor
  · rintro ⟨a, ha, e⟩
    have ha' : a < res.size := by simpa using ha
    rw [Array.getElem_setIfInBounds ha'] at e
    split at e
    · left; exact ⟨by omega, e.symm⟩
    · right; exact ⟨a, ha', by omega, e⟩
  · rintro (⟨hj, rfl⟩ | ⟨a, ha, hne, e⟩)
    · exact ⟨j, by simpa using hj, by simp⟩
    · refine ⟨a, by simpa using ha, ?_⟩
      rw [Array.getElem_setIfInBounds ha, if_neg (by omega)]; exact e

theorem not_mem_step {k n : Nat} {res : Array Nat} {p : Nat} (hp : p ∉ res) (hpn : p ≠ n) (j : Nat) :
    p ∉ stepRes k res j n := by
  unfold stepRes
  split
  · rw [mem_setIfInBounds_iff]
    rintro (⟨_, e⟩ | ⟨a, ha, _, e⟩)
    · exact hpn e
    · exact hp (e ▸ Array.getElem_mem ha)
  · exact hp

section step
variable {k n : Nat} {res : Array Nat} (hsz : res.size = k)
  (lt : ∀ a (h : a < res.size), res[a] < n)
  (inj : ∀ a b (ha : a < res.size) (hb : b < res.size), res[a] = res[b] → a = b)
include hsz lt

theorem mem_step_new (j : Nat) : n ∈ stepRes k res j n ↔ j < k := by
  unfold stepRes
  split
  · rename_i h; simp only [h, iff_true]; exact Array.mem_setIfInBounds (by omega)
  · rename_i h; simp only [h, iff_false]
    intro hm
    obtain ⟨a, ha, e⟩ := Array.mem_iff_getElem.mp hm
    have := lt a ha; omega

theorem count_step_new (hkn : k ≤ n) :
    countP (fun j => decide (n ∈ stepRes k res j n)) (range (n + 1)) = k := by
  rw [countP_congr (q := fun j => decide (j < k))]
  · rw [countP_lt_range]; omega
  · intro j _; simp [mem_step_new hsz lt j]

include inj
theorem mem_step_old {s : Nat} (hs : s < res.size) (j : Nat) :
    res[s] ∈ stepRes k res j n ↔ j ≠ s := by
  unfold stepRes
  split
  · rw [mem_setIfInBounds_iff]
    constructor
    · rintro (⟨_, e⟩ | ⟨a, ha, hne, e⟩)
      · have := lt s hs; omega
      · have := inj a s ha hs e; omega
    · intro hne; right; exact ⟨s, hs, by omega, rfl⟩
  · constructor
    · intro _; omega
    · intro _; exact Array.getElem_mem hs

theorem count_step_old (hkn : k ≤ n) (p : Nat) (hpn : p ≠ n) :
    countP (fun j => decide (p ∈ stepRes k res j n)) (range (n + 1)) =
      if decide (p ∈ res) then n else 0 := by
  by_cases hp : p ∈ res
  · obtain ⟨s, hs, rfl⟩ := Array.mem_iff_getElem.mp hp
    rw [countP_congr (q := fun j => decide (j ≠ s))]
    · rw [countP_ne_range]; simp [hp]; omega
    · intro j _; simp [mem_step_old hsz lt inj hs j]
  · simp only [hp, decide_false, Bool.false_eq_true, if_false]
    rw [countP_eq_zero]
    intro j _
    simpa using not_mem_step hp hpn j
end step

/-! ### the plain phase is exactly uniform -/

theorem plain_count {k : Nat} (hk : 0 < k) (n : Nat) (h1 : k ≤ n) (h2 : n ≤ 4 * k) :
    ∀ p, p < n →
      n * countP (fun js => decide (p ∈ runPlain k n js)) (allChoices k n) =
        k * (allChoices k n).length := by
  induction n with
  | zero => omega
  | succ n ih =>
    intro p hp
    by_cases c : n < k
    · have e : n + 1 = k := by omega
      rw [e, allChoices_le (Nat.le_refl k)]
      have : p ∈ runPlain k k [] := by
        rw [runPlain_base hk]; simp; omega
      simp [this]
    · have hkn : k ≤ n := by omega
      rw [length_allChoices_succ hkn, allChoices_succ hkn]
      have key : ∀ (Q : List Nat → Bool) (c : Nat),
          (∀ js ∈ allChoices k n,
            countP (fun j => decide (p ∈ stepRes k (runPlain k n js) j n)) (range (n + 1)) =
              if Q js then c else 0) →
          countP (fun js => decide (p ∈ runPlain k (n + 1) js))
            ((allChoices k n).flatMap fun js => (range (n + 1)).map fun j => js ++ [j]) =
            c * countP Q (allChoices k n) := by
        intro Q c h
        apply countP_flatMap_ite
        intro js hjs
        rw [countP_map, ← h js hjs]
        apply countP_congr
        intro j hj
        simp only [Function.comp, runPlain_succ hk hkn (by omega) hjs (mem_range.mp hj)]
      by_cases hpn : p = n
      · subst hpn
        rw [key (fun _ => true) k]
        · simp [Nat.mul_left_comm]
        · intro js hjs
          obtain ⟨hsz, lt, _⟩ := runPlain_inv hk hkn (by omega) hjs
          simp [count_step_new hsz lt hkn]
      · rw [key (fun js => decide (p ∈ runPlain k n js)) n]
        · rw [ih hkn (by omega) p (by omega)]
          simp [Nat.mul_left_comm]
        · intro js hjs
          obtain ⟨hsz, lt, inj⟩ := runPlain_inv hk hkn (by omega) hjs
          exact count_step_old hsz lt inj hkn p hpn


/-! ### the switch to the skipping phase -/

/-- reservoir after `4k+1` positions: plain draws `js`, first gap outcome `g` (drawn while adding
item `4k-1`), slot outcome `j` for item `4k` (consumed only if the item is accepted) -/
def runSwitch (k : Nat) (js : List Nat) (g j : Nat) : Array Nat :=
  ((run replay k ([g], js ++ [j]) (4 * k + 1)).map (·.res)).getD #[]

/-- sample space of the switch: plain draws × gap outcome × slot outcome -/
def switchSpace (k : Nat) (gs : List Nat) : List (List Nat × Nat × Nat) :=
  (allChoices k (4 * k)).flatMap fun js => gs.flatMap fun g => (range k).map fun j => (js, g, j)

theorem length_switchSpace (k : Nat) (gs : List Nat) :
    (switchSpace k gs).length = k * gs.length * (allChoices k (4 * k)).length := by
  unfold switchSpace
  apply length_flatMap_const
  intro js _
  apply length_flatMap_const
  intro g _; simp

theorem runSwitch_eq {k : Nat} (hk : 0 < k) {js : List Nat} (hjs : js ∈ allChoices k (4 * k))
    (g : Nat) {j : Nat} (hj : j < k) :
    runSwitch k js g j =
      if g = 0 then (runPlain k (4 * k) js).setIfInBounds j (4 * k) else runPlain k (4 * k) js := by
  have hpe := phaseEnd_eq k
  obtain ⟨hsz, _, _⟩ := runPlain_inv hk (by omega) (Nat.le_refl _) hjs
  unfold runSwitch
  rw [run_succ, run_replay hk (by omega) (Nat.le_refl _) hjs [g] [j], Option.bind_some]
  have e1 : skAfter k (4 * k) [g] = 4 * k + g := by simp [skAfter]
  have e2 : gsAfter k (4 * k) [g] = [] := by simp [gsAfter]
  rw [e1, e2]
  by_cases hg : g = 0
  · subst hg
    rw [add_accept _ _ _ (by show k ≤ 4 * k; omega)
      ⟨by show phaseEnd k ≤ 4 * k; omega, by show 4 * k + 0 ≤ 4 * k; omega⟩]
    simp only [replay_gap, List.headD_nil, List.tail_nil, replay_below _ _ _ _ hj, hsz, hj,
      if_true]
    simp
  · rw [add_skip _ _ _ (by show k ≤ 4 * k; omega) (by show phaseEnd k ≤ 4 * k; omega)
      (by show 4 * k < 4 * k + g; omega)]
    simp [hg]

theorem switch_count {k : Nat} (hk : 0 < k) (gs : List Nat) (hlen : gs.length = 4 * k + 1)
    (hzero : gs.count 0 = k) (p : Nat) (hp : p < 4 * k + 1) :
    (4 * k + 1) * countP (fun x => decide (p ∈ runSwitch k x.1 x.2.1 x.2.2)) (switchSpace k gs) =
      k * (switchSpace k gs).length := by
  rw [length_switchSpace, hlen]
  have hz : countP (fun g => decide (g = 0)) gs = k := by
    rw [← hzero, count_eq_countP]; apply countP_congr; intro g _; simp
  unfold switchSpace
  by_cases hpn : p = 4 * k
  · -- the new item is in iff the gap was 0
    subst hpn
    rw [countP_flatMap_const _ _ (k * k)]
    · ac_rfl
    · intro js hjs
      obtain ⟨hsz, lt, _⟩ := runPlain_inv hk (by omega) (Nat.le_refl _) hjs
      rw [countP_flatMap_ite _ (fun g => decide (g = 0)) _ k, hz]
      intro g _
      rw [countP_map]
      by_cases hg : g = 0
      · simp only [hg, decide_true, if_true]
        rw [countP_congr (q := fun _ => true)]
        · simp
        · intro j hj
          simp only [Function.comp, runSwitch_eq hk hjs 0 (mem_range.mp hj), if_true]
          simp only [decide_eq_true_eq, iff_true]
          exact Array.mem_setIfInBounds (by have := mem_range.mp hj; omega)
      · simp only [hg, decide_false, Bool.false_eq_true, if_false]
        rw [countP_eq_zero]
        intro j hj
        simp only [Function.comp, runSwitch_eq hk hjs g (mem_range.mp hj), hg, if_false]
        simp only [decide_eq_true_eq]
        intro hm
        obtain ⟨a, ha, e⟩ := Array.mem_iff_getElem.mp hm
        have := lt a ha; omega
  · -- an old position survives unless the gap was 0 and its slot was drawn
    have ih := plain_count hk (4 * k) (by omega) (Nat.le_refl _) p (by omega)
    rw [countP_flatMap_ite _ (fun js => decide (p ∈ runPlain k (4 * k) js)) _ (4 * (k * k))]
    · calc (4 * k + 1) * (4 * (k * k) *
            countP (fun js => decide (p ∈ runPlain k (4 * k) js)) (allChoices k (4 * k)))
          = (4 * k + 1) * k * (4 * k *
            countP (fun js => decide (p ∈ runPlain k (4 * k) js)) (allChoices k (4 * k))) := by
            ac_rfl
        _ = (4 * k + 1) * k * (k * (allChoices k (4 * k)).length) := by rw [ih]
        _ = _ := by ac_rfl
    · intro js hjs
      obtain ⟨hsz, lt, inj⟩ := runPlain_inv hk (by omega) (Nat.le_refl _) hjs
      by_cases hm : p ∈ runPlain k (4 * k) js
      · simp only [hm, decide_true, if_true]
        obtain ⟨s, hs, rfl⟩ := Array.mem_iff_getElem.mp hm
        -- complement: the pairs (0, s)
        have hB : countP (fun x : List Nat × Nat × Nat => decide (x.2.1 = 0 ∧ x.2.2 = s))
            (gs.flatMap fun g => (range k).map fun j => (js, g, j)) = k := by
          rw [countP_flatMap_ite _ (fun g => decide (g = 0)) _ 1, hz, Nat.one_mul]
          intro g _
          rw [countP_map]
          by_cases hg : g = 0
          · simp only [hg, decide_true, if_true]
            rw [countP_congr (q := fun j => decide (j = s))]
            · rw [countP_eq_range, if_pos (by omega)]
            · intro j _; simp
          · simp only [hg, decide_false, Bool.false_eq_true, if_false]
            rw [countP_eq_zero]; intro j _; simp [hg]
        have hL : (gs.flatMap fun g => (range k).map fun j => (js, g, j)).length =
            k * (4 * k + 1) := by
          rw [← hlen]; apply length_flatMap_const; intro g _; simp
        have hsplit := length_eq_countP_add_countP
          (fun x : List Nat × Nat × Nat => decide (x.2.1 = 0 ∧ x.2.2 = s))
          (l := gs.flatMap fun g => (range k).map fun j => (js, g, j))
        rw [hB, hL] at hsplit
        rw [countP_congr (q := fun x : List Nat × Nat × Nat =>
          decide ¬ (decide (x.2.1 = 0 ∧ x.2.2 = s)) = true)]
        · have : k * (4 * k + 1) = 4 * (k * k) + k := by
            rw [Nat.mul_add, Nat.mul_one, Nat.mul_left_comm]
          omega
        · intro x hx
          simp only [mem_flatMap, mem_map, mem_range] at hx
          obtain ⟨g, _, j, hj, rfl⟩ := hx
          simp only [runSwitch_eq hk hjs g hj]
          simp only [decide_eq_true_eq, decide_not, Bool.not_eq_true', decide_eq_false_iff_not]
          by_cases hg : g = 0
          · simp only [hg, if_true, true_and]
            have := mem_step_old (k := k) hsz (n := 4 * k) lt inj hs j
            simp only [stepRes, hj, if_true] at this
            rw [this]
          · simp only [hg, if_false, false_and, not_false_eq_true, iff_true]
            exact Array.getElem_mem hs
      · simp only [hm, decide_false, Bool.false_eq_true, if_false]
        rw [countP_eq_zero]
        intro x hx
        simp only [mem_flatMap, mem_map, mem_range] at hx
        obtain ⟨g, _, j, hj, rfl⟩ := hx
        simp only [runSwitch_eq hk hjs g hj, decide_eq_true_eq]
        split
        · have := not_mem_step (k := k) (n := 4 * k) hm hpn j
          simpa [stepRes, hj] using this
        · exact hm

/-! ### skipping phase; shape of the sample space -/

theorem accept_then_skip {I : RngI R} (hI : Lawful I) (s : St R) (x : Nat) (hk : 0 < s.k)
    (hsz : s.res.size = s.k) (h : Accepts s) :
    ∃ s', add I s x = some s' ∧ s'.k = s.k ∧ s'.i = s.i + 1 ∧
      s'.skipUntil = s.i + 1 + (I.gap s.k (s.i + 1) s.rng).1 ∧
      x ∈ s'.res ∧ s'.res.size = s.k ∧
      (∀ xs : List Nat, xs.length ≤ (I.gap s.k (s.i + 1) s.rng).1 →
        feed I s' xs = some { s' with i := s'.i + xs.length }) ∧
      (∀ m, Accepts { s' with i := s'.i + m } ↔ (I.gap s.k (s.i + 1) s.rng).1 ≤ m) := by
  have hpe := phaseEnd_eq s.k
  have h1 := h.1
  have hj := hI s.k (I.gap s.k (s.i + 1) s.rng).2 hk
  rw [add_accept I s x (by omega) h, if_pos (by omega)]
  refine ⟨_, rfl, rfl, rfl, rfl, Array.mem_setIfInBounds (by omega), by simpa using hsz, ?_, ?_⟩
  · intro xs hxs
    apply feed_skip
    · show s.k ≤ s.i + 1; omega
    · show phaseEnd s.k ≤ s.i + 1; omega
    · show s.i + 1 + xs.length ≤ s.i + 1 + _; omega
  · intro m
    show (phaseEnd s.k ≤ s.i + 1 + m ∧ s.i + 1 + (I.gap s.k (s.i + 1) s.rng).1 ≤ s.i + 1 + m) ↔ _
    omega

theorem mem_allChoices {k n : Nat} {js : List Nat} :
    js ∈ allChoices k n ↔ js.length = n - k ∧ ∀ t (h : t < js.length), js[t] ≤ k + t := by
  induction n generalizing js with
  | zero => simp [allChoices]; intro h; subst h; simp
  | succ n ih =>
    by_cases c : n < k
    · rw [allChoices_le (by omega)]
      have : n + 1 - k = 0 := by omega
      simp [this]; intro h; subst h; simp
    · have hkn : k ≤ n := by omega
      rw [mem_allChoices_succ hkn]
      constructor
      · rintro ⟨js', hjs', j, hj, rfl⟩
        obtain ⟨hl, hb⟩ := ih.mp hjs'
        refine ⟨by simp [hl]; omega, ?_⟩
        intro t ht
        rw [getElem_append]
        split
        · exact hb t (by assumption)
        · simp only [length_append, length_singleton] at ht
          simp; omega
      · rintro ⟨hl, hb⟩
        have hne : js ≠ [] := by intro e; subst e; simp at hl; omega
        refine ⟨js.dropLast, ih.mpr ⟨by simp [hl]; omega, ?_⟩, js.getLast hne, ?_,
          (dropLast_concat_getLast hne).symm⟩
        · intro t ht
          rw [getElem_dropLast]
          exact hb t (by simp at ht; omega)
        · rw [getLast_eq_getElem]
          have := hb (js.length - 1) (by omega)
          omega

theorem allChoices_nodup (k n : Nat) : (allChoices k n).Nodup := by
  induction n with
  | zero => simp [allChoices]
  | succ n ih =>
    by_cases c : n < k
    · rw [allChoices_le (by omega)]; simp
    · rw [nodup_iff_pairwise_ne] at ih ⊢
      rw [allChoices_succ (by omega), pairwise_flatMap]
      refine ⟨?_, ?_⟩
      · intro js _
        rw [pairwise_map]
        apply Pairwise.imp _ (nodup_iff_pairwise_ne.mp nodup_range)
        intro a b hab e
        exact hab (by simpa using e)
      · apply Pairwise.imp _ ih
        intro a b hab x h1 y h2 e
        simp only [mem_map, mem_range] at h1 h2
        obtain ⟨j1, _, rfl⟩ := h1
        obtain ⟨j2, _, rfl⟩ := h2
        exact hab (append_inj_left' e rfl)

end Pds.Reservoir
