/-
Cuckoo filter proofs, part 1: arithmetic of buckets, `find`, slot access, the abstraction
(multiset of fingerprint classes) and its behaviour under a single slot update.
-/
import Pds.Model.Cuckoo
import Mathlib.Data.Multiset.AddSub
import Mathlib.Data.Multiset.Count
import Mathlib.Algebra.Order.Group.Multiset

namespace Pds.Cuckoo

/-! ## Bucket arithmetic -/

theorem xor_xor_cancel (a b : Nat) : (a ^^^ b) ^^^ b = a := by simp [Nat.xor_assoc]

theorem bucketOf_lt (hash : List Nat → Nat) {nb : Nat} (h : 0 < nb) (x : Nat) :
    bucketOf hash nb x < nb := Nat.mod_lt _ h

theorem slot_div {i e bs : Nat} (h : e < bs) : (i * bs + e) / bs = i := by
  rw [Nat.mul_comm, Nat.mul_add_div (by omega), Nat.div_eq_of_lt h]; omega

theorem slot_lt {i e bs nb : Nat} (hi : i < nb) (he : e < bs) : i * bs + e < nb * bs := by
  have : (i + 1) * bs ≤ nb * bs := Nat.mul_le_mul_right _ hi
  rw [Nat.add_mul] at this; omega

theorem div_lt_of_lt_mul' {p nb bs : Nat} (h : p < nb * bs) : p / bs < nb := by
  apply Nat.div_lt_of_lt_mul; rwa [Nat.mul_comm]

/-- `p` lies in bucket `i` iff `p / bs = i`. -/
theorem in_bucket_iff {p i bs : Nat} (hbs : 0 < bs) :
    (i * bs ≤ p ∧ p < i * bs + bs) ↔ p / bs = i := by
  constructor
  · rintro ⟨h1, h2⟩
    apply Nat.div_eq_of_lt_le h1
    rw [Nat.add_mul]; omega
  · intro h
    subst h
    have h1 := Nat.div_add_mod p bs
    have h2 := Nat.mod_lt p hbs
    rw [Nat.mul_comm (p / bs) bs]
    omega

/-! ## Fingerprints -/

theorem fingerprint_pos (hash : List Nat → Nat) (lf x : Nat) : 1 ≤ fingerprint hash lf x := by
  unfold fingerprint; omega

theorem fingerprint_lt (hash : List Nat → Nat) {lf : Nat} (h : 2 ≤ lf) (x : Nat) :
    fingerprint hash lf x < 2 ^ lf := by
  unfold fingerprint
  have h2 : 2 ^ 2 ≤ 2 ^ lf := Nat.pow_le_pow_right (by omega) h
  have : hash [0, x] % (2 ^ lf - 1) < 2 ^ lf - 1 := Nat.mod_lt _ (by omega)
  omega

/-! ## Slot access -/

/-- content of slot `p` (0 outside the table) -/
def gt (t : Array Nat) (p : Nat) : Nat := t[p]?.getD 0

theorem getElem?_eq_gt {t : Array Nat} {p : Nat} (h : p < t.size) : t[p]? = some (gt t p) := by
  simp [gt, h]

theorem gt_set {t : Array Nat} {x : Nat} (hx : x < t.size) (v p : Nat) :
    gt (t.setIfInBounds x v) p = if p = x then v else gt t p := by
  unfold gt
  rw [Array.getElem?_setIfInBounds]
  by_cases h : x = p
  · subst h; simp [hx]
  · have : ¬ p = x := fun e => h e.symm
    simp [h, this]

theorem gt_replicate (n p : Nat) : gt (Array.replicate n 0) p = 0 := by
  unfold gt; rw [Array.getElem?_replicate]; split <;> rfl

theorem set_set_gt {t : Array Nat} {x : Nat} (hx : x < t.size) (v : Nat) :
    (t.setIfInBounds x v).setIfInBounds x (gt t x) = t := by
  apply Array.ext'
  simp only [Array.toList_setIfInBounds]
  apply List.ext_getElem?
  intro j
  simp only [List.getElem?_set, List.length_set]
  by_cases h : x = j
  · subst h
    have := getElem?_eq_gt hx
    simp only [hx, Array.length_toList, if_true, Array.getElem?_toList, this]
  · simp [h]

/-! ## `find` -/

theorem find_found {t : Array Nat} {v : Nat} : ∀ {len off x : Nat},
    find t v off len = .found x →
      off ≤ x ∧ x < off + len ∧ x < t.size ∧ gt t x = v ∧ ∀ y, off ≤ y → y < x → gt t y ≠ v := by
  intro len
  induction len with
  | zero => intro off x h; simp [find] at h
  | succ len ih =>
    intro off x h
    unfold find at h
    cases hto : t[off]? with
    | none => simp [hto] at h
    | some y =>
      simp only [hto] at h
      have hlt : off < t.size := by
        by_contra hc
        have : t[off]? = none := by simp; omega
        simp [this] at hto
      have hy : gt t off = y := by simp [gt, hto]
      by_cases e : y = v
      · simp only [e, if_true, Find.found.injEq] at h
        subst h
        refine ⟨Nat.le_refl _, by omega, hlt, by rw [hy, e], ?_⟩
        intro y h1 h2; omega
      · simp only [e, if_false] at h
        obtain ⟨a, b, c, d, f⟩ := ih h
        refine ⟨by omega, by omega, c, d, ?_⟩
        intro z h1 h2
        by_cases ez : z = off
        · subst ez; rw [hy]; exact e
        · exact f z (by omega) h2

theorem find_absent {t : Array Nat} {v : Nat} : ∀ {len off : Nat},
    find t v off len = .absent → ∀ y, off ≤ y → y < off + len → gt t y ≠ v := by
  intro len
  induction len with
  | zero => intro off _ y h1 h2; omega
  | succ len ih =>
    intro off h
    unfold find at h
    cases hto : t[off]? with
    | none => simp [hto] at h
    | some y =>
      simp only [hto] at h
      have hy : gt t off = y := by simp [gt, hto]
      by_cases e : y = v
      · simp [e] at h
      · simp only [e, if_false] at h
        intro z h1 h2
        by_cases ez : z = off
        · subst ez; rw [hy]; exact e
        · exact ih h z (by omega) (by omega)

theorem find_not_oob {t : Array Nat} {v : Nat} : ∀ {len off : Nat},
    off + len ≤ t.size → find t v off len ≠ .oob := by
  intro len
  induction len with
  | zero => intro off _; simp [find]
  | succ len ih =>
    intro off h
    unfold find
    have hlt : off < t.size := by omega
    rw [getElem?_eq_gt hlt]
    simp only
    split
    · simp
    · exact ih (by omega)

/-- converse direction: if some slot of the range holds `v`, `find` does not answer `absent` -/
theorem find_absent_iff {t : Array Nat} {v off len : Nat} (h : off + len ≤ t.size) :
    find t v off len = .absent ↔ ∀ y, off ≤ y → y < off + len → gt t y ≠ v := by
  constructor
  · exact find_absent
  · intro hall
    cases hf : find t v off len with
    | absent => rfl
    | oob => exact absurd hf (find_not_oob h)
    | found x =>
      obtain ⟨a, b, _, d, _⟩ := find_found hf
      exact absurd d (hall x a b)

/-! ## Table shape -/

/-- shape of the raw table the loops work on -/
structure TValid (bs nb : Nat) (t : Array Nat) : Prop where
  bs_pos : 0 < bs
  pow : ∃ j, nb = 2 ^ j
  size : t.size = nb * bs

theorem TValid.nb_pos {bs nb : Nat} {t : Array Nat} (h : TValid bs nb t) : 0 < nb := by
  obtain ⟨j, e⟩ := h.pow; rw [e]; exact Nat.two_pow_pos j

theorem TValid.xor_lt {bs nb : Nat} {t : Array Nat} (h : TValid bs nb t) {a b : Nat}
    (ha : a < nb) (hb : b < nb) : a ^^^ b < nb := by
  obtain ⟨j, e⟩ := h.pow; subst e; exact Nat.xor_lt_two_pow ha hb

theorem TValid.set {bs nb : Nat} {t : Array Nat} (h : TValid bs nb t) (x v : Nat) :
    TValid bs nb (t.setIfInBounds x v) :=
  ⟨h.bs_pos, h.pow, by rw [Array.size_setIfInBounds]; exact h.size⟩

theorem TValid.bucket_le {bs nb : Nat} {t : Array Nat} (h : TValid bs nb t) {i : Nat} (hi : i < nb) :
    i * bs + bs ≤ t.size := by
  rw [h.size]
  have : (i + 1) * bs ≤ nb * bs := Nat.mul_le_mul_right _ hi
  rwa [Nat.add_mul, Nat.one_mul] at this

/-! ## Classes and the abstraction -/

/-- A class: fingerprint and the smaller of its two candidate buckets. -/
abbrev Cls := Nat × Nat

/-- class of fingerprint `f` sitting in (or destined for) bucket `i` -/
def cls (hash : List Nat → Nat) (nb f i : Nat) : Cls := (f, min i (i ^^^ bucketOf hash nb f))

/-- class of an element -/
def clsOf (hash : List Nat → Nat) (nb lf x : Nat) : Cls :=
  cls hash nb (fingerprint hash lf x) (bucketOf hash nb x)

/-- both buckets of a fingerprint give the same class -/
theorem cls_alt (hash : List Nat → Nat) (nb f i : Nat) :
    cls hash nb f (i ^^^ bucketOf hash nb f) = cls hash nb f i := by
  simp only [cls, xor_xor_cancel, Nat.min_comm]

theorem cls_eq_iff (hash : List Nat → Nat) (nb f g i k : Nat) :
    cls hash nb f i = cls hash nb g k ↔ f = g ∧ (i = k ∨ i = k ^^^ bucketOf hash nb g) := by
  unfold cls
  constructor
  · intro h
    have hf : f = g := congrArg Prod.fst h
    subst hf
    refine ⟨rfl, ?_⟩
    have h2 : min i (i ^^^ bucketOf hash nb f) = min k (k ^^^ bucketOf hash nb f) := congrArg Prod.snd h
    have c := xor_xor_cancel i (bucketOf hash nb f)
    generalize bucketOf hash nb f = b at *
    by_cases e1 : i = k
    · exact Or.inl e1
    · right
      have : i ^^^ b = k ∨ i ^^^ b = k ^^^ b ∨ i = k ^^^ b := by omega
      rcases this with h | h | h
      · rw [← h]; exact c.symm
      · have := congrArg (· ^^^ b) h
        simp only [xor_xor_cancel] at this
        exact absurd this e1
      · exact h
  · rintro ⟨rfl, h | h⟩
    · rw [h]
    · rw [h, xor_xor_cancel, Nat.min_comm]

/-- contribution of a slot holding `v` in bucket `i` -/
def slotV (hash : List Nat → Nat) (nb v i : Nat) : Multiset Cls :=
  if v = 0 then 0 else {cls hash nb v i}

theorem slotV_zero (hash : List Nat → Nat) (nb i : Nat) : slotV hash nb 0 i = 0 := by simp [slotV]

theorem slotV_ne (hash : List Nat → Nat) (nb : Nat) {v : Nat} (h : v ≠ 0) (i : Nat) :
    slotV hash nb v i = {cls hash nb v i} := by simp [slotV, h]

/-- `g 0 + … + g (n-1)` -/
def sumTo {α : Type} (g : Nat → Multiset α) : Nat → Multiset α
  | 0 => 0
  | n + 1 => sumTo g n + g n

theorem sumTo_congr {α : Type} {g g' : Nat → Multiset α} : ∀ {n : Nat},
    (∀ p, p < n → g' p = g p) → sumTo g' n = sumTo g n
  | 0, _ => rfl
  | n + 1, h => by
    simp only [sumTo]
    rw [sumTo_congr (fun p hp => h p (by omega)), h n (by omega)]

theorem sumTo_update {α : Type} {g g' : Nat → Multiset α} {x : Nat} (h : ∀ p, p ≠ x → g' p = g p) :
    ∀ {n : Nat}, x < n → sumTo g' n + g x = sumTo g n + g' x := by
  intro n
  induction n with
  | zero => intro hx; omega
  | succ n ih =>
    intro hx
    simp only [sumTo]
    by_cases e : x = n
    · subst e
      rw [sumTo_congr (fun p hp => h p (by omega))]
      simp only [add_assoc, add_comm (g' x)]
    · have := ih (by omega)
      rw [h n (fun c => e c.symm)]
      rw [add_right_comm, this, add_right_comm]

theorem mem_sumTo {α : Type} {g : Nat → Multiset α} {c : α} : ∀ {n : Nat},
    c ∈ sumTo g n ↔ ∃ p, p < n ∧ c ∈ g p
  | 0 => by simp [sumTo]
  | n + 1 => by
    simp only [sumTo, Multiset.mem_add, mem_sumTo (n := n)]
    constructor
    · rintro (⟨p, hp, hc⟩ | hc)
      · exact ⟨p, by omega, hc⟩
      · exact ⟨n, by omega, hc⟩
    · rintro ⟨p, hp, hc⟩
      by_cases e : p = n
      · subst e; exact Or.inr hc
      · exact Or.inl ⟨p, by omega, hc⟩

theorem sumTo_eq_zero {α : Type} {g : Nat → Multiset α} : ∀ {n : Nat},
    (∀ p, p < n → g p = 0) → sumTo g n = 0
  | 0, _ => rfl
  | n + 1, h => by
    simp only [sumTo]
    rw [sumTo_eq_zero (fun p hp => h p (by omega)), h n (by omega)]; rfl

/-- a run of `k` non-empty summands makes the sum have at least `k` members -/
theorem card_sumTo_ge {α : Type} {g : Nat → Multiset α} : ∀ {n a k : Nat},
    a + k ≤ n → (∀ p, a ≤ p → p < a + k → 1 ≤ (g p).card) → k ≤ (sumTo g n).card := by
  intro n
  induction n with
  | zero => intro a k h _; omega
  | succ n ih =>
    intro a k h hall
    simp only [sumTo, Multiset.card_add]
    by_cases e : a + k ≤ n
    · have := ih e hall; omega
    · cases k with
      | zero => omega
      | succ k =>
        have h1 := ih (a := a) (k := k) (by omega) (fun p h1 h2 => hall p h1 (by omega))
        have h2 := hall n (by omega) (by omega)
        omega

/-- contribution of slot `p` of table `t` -/
def slot (hash : List Nat → Nat) (bs nb : Nat) (t : Array Nat) (p : Nat) : Multiset Cls :=
  slotV hash nb (gt t p) (p / bs)

/-- abstraction of a raw table: the multiset of classes of its non-zero slots -/
def absT (hash : List Nat → Nat) (bs nb : Nat) (t : Array Nat) : Multiset Cls :=
  sumTo (slot hash bs nb t) t.size

/-- the single-slot update law -/
theorem absT_set (hash : List Nat → Nat) (bs nb : Nat) {t : Array Nat} {x : Nat} (hx : x < t.size)
    (v : Nat) :
    absT hash bs nb (t.setIfInBounds x v) + slotV hash nb (gt t x) (x / bs) =
      absT hash bs nb t + slotV hash nb v (x / bs) := by
  unfold absT
  rw [Array.size_setIfInBounds]
  have := sumTo_update (g := slot hash bs nb t) (g' := slot hash bs nb (t.setIfInBounds x v)) (x := x)
    (by intro p hp; simp [slot, gt_set hx, hp]) hx
  simpa [slot, gt_set hx] using this

theorem mem_absT {hash : List Nat → Nat} {bs nb : Nat} {t : Array Nat} {c : Cls} :
    c ∈ absT hash bs nb t ↔ ∃ p, p < t.size ∧ gt t p ≠ 0 ∧ cls hash nb (gt t p) (p / bs) = c := by
  unfold absT
  rw [mem_sumTo]
  constructor
  · rintro ⟨p, hp, hc⟩
    refine ⟨p, hp, ?_⟩
    unfold slot slotV at hc
    by_cases e : gt t p = 0
    · simp [e] at hc
    · simp only [e, if_false, Multiset.mem_singleton] at hc
      exact ⟨e, hc.symm⟩
  · rintro ⟨p, hp, hne, hc⟩
    exact ⟨p, hp, by simp [slot, slotV, hne, hc]⟩

theorem absT_replicate (hash : List Nat → Nat) (bs nb n : Nat) :
    absT hash bs nb (Array.replicate n 0) = 0 := by
  unfold absT
  apply sumTo_eq_zero
  intro p _
  simp [slot, gt_replicate, slotV_zero]

end Pds.Cuckoo
