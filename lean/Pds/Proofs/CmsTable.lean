import Pds.Model.Cms
import Pds.Proofs.HashIter
/-!
Table-level lemmas for the count-min sketch: row/column index arithmetic, the effect of the row
loop of `add_n` (`addRows`) on every cell, and the minimum computed by `add_n` / `query_point`.
Cells are addressed by `(row r, column c)` with `c < w`, i.e. index `r * w + c`.
-/
namespace Pds.Cms

/-- cell `j` of the table (0 outside the array) -/
def cell (t : Array Nat) (j : Nat) : Nat := t[j]?.getD 0

/-- A column list as produced by `HashIter.positions hash w d x`: one column `< w` per row. -/
def WFCols (w d : Nat) (cols : List Nat) : Prop := cols.length = d ∧ ∀ c ∈ cols, c < w

/-- `v` is the minimum of the non-empty list `l`: a lower bound that is attained. -/
def IsMin (l : List Nat) (v : Nat) : Prop := (∀ a ∈ l, v ≤ a) ∧ v ∈ l

/-- the cells `(i, cols[0]), (i+1, cols[1]), …` visited for a column list, starting at row `i` -/
def rowVals (w : Nat) (t : Array Nat) : Nat → List Nat → List Nat
  | _, [] => []
  | i, c :: cs => cell t (i * w + c) :: rowVals w t (i + 1) cs

/-! ### index arithmetic -/

theorem rowcol_lt {w d r c : Nat} (hr : r < d) (hc : c < w) : r * w + c < w * d := by
  have h1 : (r + 1) * w ≤ d * w := Nat.mul_le_mul_right w hr
  rw [Nat.add_mul, Nat.one_mul] at h1
  rw [Nat.mul_comm w d]; omega

theorem rowcol_inj {w r c r' c' : Nat} (hc : c < w) (hc' : c' < w)
    (h : r * w + c = r' * w + c') : r = r' ∧ c = c' := by
  have hw : 0 < w := by omega
  have e1 : (r * w + c) / w = r := by
    rw [Nat.mul_comm, Nat.mul_add_div hw, Nat.div_eq_of_lt hc]; rfl
  have e2 : (r' * w + c') / w = r' := by
    rw [Nat.mul_comm, Nat.mul_add_div hw, Nat.div_eq_of_lt hc']; rfl
  have : r = r' := by rw [← e1, ← e2, h]
  subst this
  exact ⟨rfl, by omega⟩

theorem rowcol_decomp {w : Nat} (hw : 0 < w) (j : Nat) : j = (j / w) * w + j % w ∧ j % w < w :=
  ⟨by rw [Nat.mul_comm]; exact (Nat.div_add_mod j w).symm, Nat.mod_lt _ hw⟩

theorem div_lt_of_lt_mul' {w d j : Nat} (h : j < w * d) : j / w < d :=
  Nat.div_lt_of_lt_mul h

theorem cell_set {t : Array Nat} {x : Nat} (hx : x < t.size) (v j : Nat) :
    cell (t.set x v) j = if x = j then v else cell t j := by
  simp only [cell, Array.getElem?_set]
  split <;> simp

theorem cell_of_lt {t : Array Nat} {j : Nat} (h : j < t.size) : cell t j = t[j] := by
  simp [cell, h]

theorem cell_of_ge {t : Array Nat} {j : Nat} (h : t.size ≤ j) : cell t j = 0 := by
  simp [cell, h]

theorem array_ext_cell {t t' : Array Nat} (hs : t.size = t'.size) (h : ∀ j, j < t.size → cell t j = cell t' j) :
    t = t' := by
  apply Array.ext hs
  intro i h1 h2
  have := h i h1
  rwa [cell_of_lt h1, cell_of_lt h2] at this

/-! ### `IsMin` -/

theorem IsMin.unique {l : List Nat} {v v' : Nat} (h : IsMin l v) (h' : IsMin l v') : v = v' :=
  Nat.le_antisymm (h.1 _ h'.2) (h'.1 _ h.2)

theorem isMin_min {a b v : Nat} {l : List Nat} (h : IsMin (min a b :: l) v) : IsMin (a :: b :: l) v := by
  obtain ⟨h1, h2⟩ := h
  refine ⟨?_, ?_⟩
  · intro x hx
    have hm := h1 (min a b) List.mem_cons_self
    simp only [List.mem_cons] at hx
    rcases hx with rfl | rfl | hx
    · omega
    · omega
    · exact h1 x (List.mem_cons_of_mem _ hx)
  · simp only [List.mem_cons] at h2 ⊢
    rcases h2 with h2 | h2
    · rcases Nat.le_total a b with hab | hab
      · left; omega
      · right; left; omega
    · right; right; exact h2

theorem isMin_map_add {l : List Nat} {v : Nat} (n : Nat) (h : IsMin l v) :
    IsMin (l.map (· + n)) (v + n) := by
  obtain ⟨h1, h2⟩ := h
  refine ⟨?_, List.mem_map.mpr ⟨v, h2, rfl⟩⟩
  intro a ha
  obtain ⟨b, hb, rfl⟩ := List.mem_map.mp ha
  have := h1 b hb; omega

/-! ### `rowVals` -/

theorem rowVals_length (w : Nat) (t : Array Nat) (cols : List Nat) (i : Nat) :
    (rowVals w t i cols).length = cols.length := by
  induction cols generalizing i with
  | nil => rfl
  | cons c cs ih => simp [rowVals, ih]

theorem rowVals_getElem (w : Nat) (t : Array Nat) (cols : List Nat) (i r : Nat) (h : r < cols.length) :
    (rowVals w t i cols)[r]'(by rw [rowVals_length]; exact h) = cell t ((i + r) * w + cols[r]) := by
  induction cols generalizing i r with
  | nil => simp at h
  | cons c cs ih =>
    cases r with
    | zero => simp [rowVals]
    | succ r =>
      simp only [rowVals, List.getElem_cons_succ]
      rw [ih (i + 1) r (by simpa using h)]
      have e : i + 1 + r = i + (r + 1) := by omega
      rw [e]

theorem mem_rowVals {w : Nat} {t : Array Nat} {cols : List Nat} {i v : Nat} :
    v ∈ rowVals w t i cols ↔ ∃ r, ∃ h : r < cols.length, v = cell t ((i + r) * w + cols[r]) := by
  rw [List.mem_iff_getElem]
  constructor
  · rintro ⟨r, hr, rfl⟩
    rw [rowVals_length] at hr
    exact ⟨r, hr, rowVals_getElem w t cols i r hr⟩
  · rintro ⟨r, hr, rfl⟩
    exact ⟨r, by rw [rowVals_length]; exact hr, rowVals_getElem w t cols i r hr⟩

theorem rowVals_congr {w : Nat} {t t' : Array Nat} (f : Nat → Nat) (cols : List Nat) (i : Nat)
    (h : ∀ r (hr : r < cols.length), cell t' ((i + r) * w + cols[r]) = f (cell t ((i + r) * w + cols[r]))) :
    rowVals w t' i cols = (rowVals w t i cols).map f := by
  induction cols generalizing i with
  | nil => rfl
  | cons c cs ih =>
    simp only [rowVals, List.map_cons]
    congr 1
    · exact h 0 (by simp)
    · apply ih
      intro r hr
      have := h (r + 1) (by simpa using hr)
      simp only [List.getElem_cons_succ] at this
      have e : i + 1 + r = i + (r + 1) := by omega
      rw [e]; exact this

theorem isMin_rowVals_zero {w : Nat} {t : Array Nat} {cols : List Nat} {v : Nat} :
    IsMin (rowVals w t 0 cols) v ↔
      (∀ r (h : r < cols.length), v ≤ cell t (r * w + cols[r])) ∧
      ∃ r, ∃ h : r < cols.length, v = cell t (r * w + cols[r]) := by
  unfold IsMin
  simp only [mem_rowVals, Nat.zero_add]
  constructor
  · rintro ⟨h1, h2⟩
    exact ⟨fun r h => h1 _ ⟨r, h, rfl⟩, h2⟩
  · rintro ⟨h1, h2⟩
    refine ⟨?_, h2⟩
    rintro a ⟨r, h, rfl⟩
    exact h1 r h

/-! ### the row loop of `add_n` -/

theorem addRows_spec (w cmax n : Nat) : ∀ (cols : List Nat) (i : Nat) (t : Array Nat) (res : Nat),
    (∀ c ∈ cols, c < w) → (i + cols.length) * w ≤ t.size →
    (addRows w cmax n i cols t res = none ↔ ∃ v ∈ rowVals w t i cols, cmax < v + n) ∧
    ∀ t' res', addRows w cmax n i cols t res = some (t', res') →
      t'.size = t.size ∧
      (∀ r c, c < w → cell t' (r * w + c) =
        cell t (r * w + c) + if (i ≤ r ∧ cols[r - i]? = some c) then n else 0) ∧
      (∀ l, l = (if i = 0 then [] else [res]) ++ rowVals w t i cols → l ≠ [] → IsMin l res') := by
  intro cols
  induction cols with
  | nil =>
    intro i t res _ _
    refine ⟨by simp [addRows, rowVals], ?_⟩
    intro t' res' h
    simp only [addRows, Option.some.injEq, Prod.mk.injEq] at h
    obtain ⟨rfl, rfl⟩ := h
    refine ⟨rfl, by simp, ?_⟩
    intro l hl hne
    by_cases hi : i = 0
    · simp [hi, rowVals] at hl; exact absurd hl hne
    · simp [hi, rowVals] at hl; subst hl; exact ⟨by simp, by simp⟩
  | cons c cs ih =>
    intro i t res hc hsz
    have hcw : c < w := hc c List.mem_cons_self
    have hcs : ∀ c ∈ cs, c < w := fun c' h' => hc c' (List.mem_cons_of_mem _ h')
    have hx : i * w + c < t.size := by
      have : (i + 1) * w ≤ (i + (c :: cs).length) * w :=
        Nat.mul_le_mul_right w (by simp)
      rw [Nat.add_mul, Nat.one_mul] at this
      omega
    have hcur : t[i * w + c] = cell t (i * w + c) := (cell_of_lt hx).symm
    by_cases hov : cell t (i * w + c) + n ≤ cmax
    · -- no overflow in this row
      have hstep : addRows w cmax n i (c :: cs) t res =
          addRows w cmax n (i + 1) cs (t.set (i * w + c) (cell t (i * w + c) + n))
            (if i = 0 then cell t (i * w + c) else min res (cell t (i * w + c))) := by
        rw [addRows]; simp only [hx, dite_true, hcur, hov, if_true]
      have hsz1 : (i + 1 + cs.length) * w ≤ (t.set (i * w + c) (cell t (i * w + c) + n)).size := by
        rw [Array.size_set]
        have : i + 1 + cs.length = i + (c :: cs).length := by simp; omega
        rw [this]; exact hsz
      have hrv : rowVals w (t.set (i * w + c) (cell t (i * w + c) + n)) (i + 1) cs =
          rowVals w t (i + 1) cs := by
        rw [rowVals_congr (t := t) id cs (i + 1)]
        · simp
        · intro r hr
          rw [cell_set hx, if_neg]
          · rfl
          · intro e
            have := (rowcol_inj hcw (hcs _ (List.getElem_mem hr)) e).1
            omega
      obtain ⟨ih1, ih2⟩ := ih (i + 1) _ (if i = 0 then cell t (i * w + c) else min res (cell t (i * w + c))) hcs hsz1
      rw [hstep]
      refine ⟨?_, ?_⟩
      · rw [ih1, hrv]
        simp only [rowVals, List.mem_cons, exists_eq_or_imp]
        constructor
        · intro h; exact Or.inr h
        · rintro (h | h)
          · omega
          · exact h
      · intro t' res' h
        obtain ⟨s1, s2, s3⟩ := ih2 t' res' h
        refine ⟨by rw [s1, Array.size_set], ?_, ?_⟩
        · intro r c' hc'
          rw [s2 r c' hc', cell_set hx]
          by_cases hri : r = i
          · subst hri
            by_cases hcc : c = c'
            · subst hcc
              have h1 : ¬ (r + 1 ≤ r) := by omega
              simp [h1]
            · have : ¬ (r * w + c = r * w + c') := by omega
              have h1 : ¬ (r + 1 ≤ r) := by omega
              simp [hcc, h1]
          · have hne : ¬ (i * w + c = r * w + c') := fun e => hri (rowcol_inj hcw hc' e).1.symm
            rw [if_neg hne]
            by_cases hlt : i + 1 ≤ r
            · have e : r - i = (r - (i + 1)) + 1 := by omega
              have hir : i ≤ r := by omega
              simp only [hlt, hir, true_and, e, List.getElem?_cons_succ]
            · have hir : ¬ i ≤ r := by omega
              simp [hlt, hir]
        · intro l hl hne
          have := s3 _ rfl (by simp)
          rw [hrv] at this
          subst hl
          by_cases hi : i = 0
          · simpa [hi, rowVals] using this
          · simp only [hi, if_false, rowVals] at this ⊢
            exact isMin_min this
    · -- overflow
      have hstep : addRows w cmax n i (c :: cs) t res = none := by
        rw [addRows]; simp only [hx, dite_true, hcur, hov, if_false]
      rw [hstep]
      refine ⟨?_, by intro _ _ h; cases h⟩
      simp only [true_iff]
      exact ⟨cell t (i * w + c), by simp [rowVals], by omega⟩

/-! ### `query_point` and `add_n` on a well-formed column list -/

theorem go_spec (s : St) : ∀ (cols : List Nat) (i : Nat) (acc : Option Nat),
    (∀ c ∈ cols, c < s.w) → (i + cols.length) * s.w ≤ s.table.size →
    ∀ l, l = acc.toList ++ rowVals s.w s.table i cols → l ≠ [] →
      ∃ v, queryCols.go s i cols acc = some v ∧ IsMin l v := by
  intro cols
  induction cols with
  | nil =>
    intro i acc _ _ l hl hne
    cases acc with
    | none => simp [rowVals] at hl; exact absurd hl hne
    | some a =>
      simp [rowVals] at hl; subst hl
      exact ⟨a, by simp [queryCols.go], by simp [IsMin]⟩
  | cons c cs ih =>
    intro i acc hc hsz l hl hne
    have hcw : c < s.w := hc c List.mem_cons_self
    have hcs : ∀ c ∈ cs, c < s.w := fun c' h' => hc c' (List.mem_cons_of_mem _ h')
    have hx : i * s.w + c < s.table.size := by
      have : (i + 1) * s.w ≤ (i + (c :: cs).length) * s.w :=
        Nat.mul_le_mul_right s.w (by simp)
      rw [Nat.add_mul, Nat.one_mul] at this
      omega
    have hget : s.table[i * s.w + c]? = some (cell s.table (i * s.w + c)) := by
      simp [cell, hx]
    have hsz1 : (i + 1 + cs.length) * s.w ≤ s.table.size := by
      have : i + 1 + cs.length = i + (c :: cs).length := by simp; omega
      rw [this]; exact hsz
    rw [queryCols.go, hget]
    simp only
    subst hl
    cases acc with
    | none =>
      obtain ⟨v, hv1, hv2⟩ := ih (i + 1) (some (cell s.table (i * s.w + c))) hcs hsz1 _ rfl (by simp)
      exact ⟨v, hv1, by simpa [rowVals] using hv2⟩
    | some a =>
      obtain ⟨v, hv1, hv2⟩ := ih (i + 1) (some (min a (cell s.table (i * s.w + c)))) hcs hsz1 _ rfl (by simp)
      refine ⟨v, hv1, ?_⟩
      simp only [Option.toList_some, List.singleton_append, rowVals] at hv2 ⊢
      exact isMin_min hv2

/-- `query_point` on a well-formed column list: succeeds and returns the row minimum. -/
theorem queryCols_spec {s : St} {cols : List Nat} (hsz : s.table.size = s.w * s.d)
    (hc : WFCols s.w s.d cols) (hd : 0 < s.d) :
    ∃ v, queryCols s cols = some v ∧ IsMin (rowVals s.w s.table 0 cols) v := by
  have hne : rowVals s.w s.table 0 cols ≠ [] := by
    intro h
    have := rowVals_length s.w s.table cols 0
    rw [h, hc.1] at this; simp at this; omega
  have := go_spec s cols 0 none hc.2 (by rw [hc.1, hsz, Nat.zero_add, Nat.mul_comm]; exact Nat.le_refl _) _ rfl
    (by simpa using hne)
  simpa [queryCols] using this

/-- `add_n` on a well-formed column list. -/
theorem addCols_spec {s : St} {cols : List Nat} (hsz : s.table.size = s.w * s.d)
    (hc : WFCols s.w s.d cols) (hd : 0 < s.d) (n : Nat) :
    (addCols s cols n = none ↔ ∃ v ∈ rowVals s.w s.table 0 cols, s.cmax < v + n) ∧
    ∀ s' r, addCols s cols n = some (s', r) →
      s'.w = s.w ∧ s'.d = s.d ∧ s'.cmax = s.cmax ∧ s'.table.size = s.table.size ∧
      (∀ r c, c < s.w → cell s'.table (r * s.w + c) =
        cell s.table (r * s.w + c) + if cols[r]? = some c then n else 0) ∧
      ∃ v, IsMin (rowVals s.w s.table 0 cols) v ∧ r = v + n := by
  have hne : rowVals s.w s.table 0 cols ≠ [] := by
    intro h
    have := rowVals_length s.w s.table cols 0
    rw [h, hc.1] at this; simp at this; omega
  obtain ⟨h1, h2⟩ := addRows_spec s.w s.cmax n cols 0 s.table 0 hc.2
    (by rw [hc.1, hsz, Nat.zero_add, Nat.mul_comm]; exact Nat.le_refl _)
  unfold addCols
  cases hr : addRows s.w s.cmax n 0 cols s.table 0 with
  | none =>
    refine ⟨?_, by intro _ _ h; cases h⟩
    simp only [true_iff]
    exact h1.mp hr
  | some p =>
    obtain ⟨t', res'⟩ := p
    obtain ⟨a1, a2, a3⟩ := h2 t' res' hr
    have hmin : IsMin (rowVals s.w s.table 0 cols) res' := a3 _ rfl (by simpa using hne)
    have hno : ¬ ∃ v ∈ rowVals s.w s.table 0 cols, s.cmax < v + n := by
      rw [← h1, hr]; simp
    have hle : res' + n ≤ s.cmax := by
      apply Nat.le_of_not_lt
      intro hlt; exact hno ⟨res', hmin.2, hlt⟩
    simp only [hle, if_true]
    refine ⟨?_, ?_⟩
    · simp only [reduceCtorEq, false_iff]; exact hno
    · intro s' r h
      simp only [Option.some.injEq, Prod.mk.injEq] at h
      obtain ⟨rfl, rfl⟩ := h
      refine ⟨rfl, rfl, rfl, a1, ?_, res', hmin, rfl⟩
      intro r c hcw
      have := a2 r c hcw
      simpa using this


/-! ### `merge` -/

theorem mergeCells_eq_some {cmax : Nat} : ∀ {xs ys l : List Nat},
    mergeCells cmax xs ys = some l ↔
      (∀ p ∈ xs.zip ys, p.1 + p.2 ≤ cmax) ∧ l = List.zipWith (· + ·) xs ys := by
  intro xs
  induction xs with
  | nil => intro ys l; simp [mergeCells, eq_comm]
  | cons a xs ih =>
    intro ys l
    cases ys with
    | nil => simp [mergeCells, eq_comm]
    | cons b ys =>
      simp only [mergeCells, List.zip_cons_cons, List.mem_cons, forall_eq_or_imp, List.zipWith_cons_cons]
      by_cases hab : a + b ≤ cmax
      · simp only [hab, if_true, true_and, Option.map_eq_some_iff]
        constructor
        · rintro ⟨l', h1, rfl⟩
          obtain ⟨h2, rfl⟩ := ih.mp h1
          exact ⟨h2, rfl⟩
        · rintro ⟨h2, rfl⟩
          exact ⟨_, ih.mpr ⟨h2, rfl⟩, rfl⟩
      · simp [hab]

theorem mergeCells_eq_none {cmax : Nat} {xs ys : List Nat} :
    mergeCells cmax xs ys = none ↔ ∃ p ∈ xs.zip ys, cmax < p.1 + p.2 := by
  constructor
  · intro h
    apply Classical.byContradiction
    intro hn
    have : mergeCells cmax xs ys = some (List.zipWith (· + ·) xs ys) :=
      mergeCells_eq_some.mpr ⟨fun p hp => Nat.le_of_not_lt fun hlt => hn ⟨p, hp, hlt⟩, rfl⟩
    rw [h] at this; cases this
  · rintro ⟨p, hp, hlt⟩
    cases h : mergeCells cmax xs ys with
    | none => rfl
    | some l =>
      have := (mergeCells_eq_some.mp h).1 p hp
      omega

theorem cell_zipWith_add {t u : Array Nat} (hs : t.size = u.size) (j : Nat) :
    cell (List.zipWith (· + ·) t.toList u.toList).toArray j = cell t j + cell u j := by
  unfold cell
  by_cases hj : j < t.size
  · have hj' : j < u.size := hs ▸ hj
    simp [hj, hj', List.getElem?_zipWith]
  · have hj' : ¬ j < u.size := hs ▸ hj
    simp [List.getElem?_zipWith, Nat.not_lt.mp hj, Nat.not_lt.mp hj']

/-- `merge` of two equally sized tables: fails iff the shapes differ or a cell sum exceeds `cmax`;
otherwise every cell is the sum. -/
theorem merge_spec {s o : St} (hs : s.table.size = o.table.size) :
    (merge s o = none ↔ ¬ (s.d = o.d ∧ s.w = o.w) ∨ ∃ j, s.cmax < cell s.table j + cell o.table j) ∧
    ∀ s', merge s o = some s' →
      s'.w = s.w ∧ s'.d = s.d ∧ s'.cmax = s.cmax ∧ s'.table.size = s.table.size ∧
      ∀ j, cell s'.table j = cell s.table j + cell o.table j := by
  unfold merge
  by_cases hsh : s.d = o.d ∧ s.w = o.w
  · simp only [hsh, and_self, if_true, not_true, false_or, Option.map_eq_none_iff, Option.map_eq_some_iff]
    refine ⟨?_, ?_⟩
    · rw [mergeCells_eq_none]
      constructor
      · rintro ⟨p, hp, hlt⟩
        obtain ⟨j, hj, rfl⟩ := List.mem_iff_getElem.mp hp
        simp only [List.length_zip, Array.length_toList] at hj
        refine ⟨j, ?_⟩
        have h1 : j < s.table.size := by omega
        have h2 : j < o.table.size := by omega
        simpa [cell, h1, h2] using hlt
      · rintro ⟨j, hlt⟩
        by_cases h1 : j < s.table.size
        · have h2 : j < o.table.size := hs ▸ h1
          refine ⟨(s.table[j], o.table[j]), ?_, by simpa [cell, h1, h2] using hlt⟩
          apply List.mem_iff_getElem.mpr
          exact ⟨j, by simp only [List.length_zip, Array.length_toList]; omega, by simp⟩
        · have h2 : ¬ j < o.table.size := hs ▸ h1
          simp [cell, Nat.not_lt.mp h1, Nat.not_lt.mp h2] at hlt
    · rintro s' ⟨l, hl, rfl⟩
      obtain ⟨_, rfl⟩ := mergeCells_eq_some.mp hl
      refine ⟨rfl, rfl, rfl, by simp [hs], ?_⟩
      intro j
      exact cell_zipWith_add hs j
  · simp [hsh]

end Pds.Cms
