import Pds.Proofs.QuotientInv
/-!
Re-basing: the linear invariant can be stated relative to *any* unshifted slot.
-/
namespace Pds.Quotient
variable {N : Nat}

/-- ghost quotient index after moving the reference slot forward by `m` -/
def rebQt (N m : Nat) (qt : Nat → Nat) (j : Nat) : Nat :=
  if j + m < N then qt (j + m) - m else qt (j + m - N) + N - m

theorem at_rebase1 (t : St N) (z : Fin N) {m j : Nat} : t.at (pos z m) j = t.at z (j + m) := by
  simp [St.at, pos_pos, Nat.add_comm]

theorem at_rebase2 (t : St N) (z : Fin N) {m j : Nat} (h : N ≤ j + m) :
    t.at (pos z m) j = t.at z (j + m - N) := by
  rw [at_rebase1, ← at_add_N t z (j + m - N)]
  congr 1; omega

theorem rebQt1 {m j : Nat} (qt : Nat → Nat) (h : j + m < N) : rebQt N m qt j = qt (j + m) - m := by
  simp [rebQt, h]

theorem rebQt2 {m j : Nat} (qt : Nat → Nat) (h : N ≤ j + m) :
    rebQt N m qt j = qt (j + m - N) + N - m := by
  simp [rebQt, Nat.not_lt.mpr h]

namespace LInv
variable {t : St N} {z : Fin N} {qt : Nat → Nat}

theorem qt_zero (h : LInv t z qt) (hN : 0 < N) (hu : (t.at z 0).used = true) : qt 0 = 0 := by
  have := h.le 0 hN hu; omega

theorem qt_unshifted (h : LInv t z qt) {m : Nat} (hm : m < N) (hs : (t.at z m).shift = false)
    (hu : (t.at z m).used = true) : qt m = m := by
  by_cases e : qt m = m
  · exact e
  · have := (h.shift m hm hu).mpr e; simp [hs] at this

theorem rebase_le (h : LInv t z qt) {m : Nat} (hm : m < N) :
    ∀ k, k < N → (t.at (pos z m) k).used = true → rebQt N m qt k ≤ k := by
  intro j hj hu
  by_cases c : j + m < N
  · rw [at_rebase1] at hu; rw [rebQt1 qt c]
    have := h.le _ c hu; omega
  · have c : N ≤ j + m := by omega
    rw [at_rebase2 _ _ c] at hu; rw [rebQt2 qt c]
    have := h.le _ (by omega) hu; omega

theorem rebase_chain (h : LInv t z qt) {m : Nat} (hm : m < N) (hs : (t.at z m).shift = false) :
    ∀ k, k + 1 < N → (t.at (pos z m) (k + 1)).used = true → rebQt N m qt (k + 1) < k + 1 →
    (t.at (pos z m) k).used = true ∧ rebQt N m qt k ≤ rebQt N m qt (k + 1) := by
  intro j hj hu hq
  have hge := h.ge_of_unshifted hs
  by_cases c : j + 1 + m < N
  · rw [at_rebase1] at hu ⊢; rw [rebQt1 qt c] at hq ⊢; rw [rebQt1 qt (by omega : j + m < N)]
    have e : j + 1 + m = j + m + 1 := by omega
    rw [e] at hu hq ⊢
    have := h.chain (j + m) (by omega) hu (by have := hge _ (by omega) (by omega) hu; omega)
    exact ⟨this.1, by omega⟩
  · have c : N ≤ j + 1 + m := by omega
    by_cases c2 : j + m < N
    · exfalso
      rw [at_rebase2 _ _ c] at hu; rw [rebQt2 qt c] at hq
      have e : j + 1 + m - N = 0 := by omega
      rw [e] at hu hq
      have := h.qt_zero (by omega) hu
      omega
    · have c2 : N ≤ j + m := by omega
      rw [at_rebase2 _ _ c] at hu; rw [rebQt2 qt c] at hq ⊢
      rw [at_rebase2 _ _ c2, rebQt2 qt c2]
      have e : j + 1 + m - N = j + m - N + 1 := by omega
      rw [e] at hu hq ⊢
      have hl := h.le _ (by omega) hu
      have := h.chain (j + m - N) (by omega) hu (by omega)
      exact ⟨this.1, by omega⟩

theorem rebase_shift (h : LInv t z qt) {m : Nat} (hm : m < N) (hs : (t.at z m).shift = false) :
    ∀ k, k < N → (t.at (pos z m) k).used = true →
      ((t.at (pos z m) k).shift = true ↔ rebQt N m qt k ≠ k) := by
  intro j hj hu
  have hge := h.ge_of_unshifted hs
  by_cases c : j + m < N
  · rw [at_rebase1] at hu ⊢; rw [rebQt1 qt c]
    have := hge _ (by omega) c hu
    rw [h.shift _ c hu]; omega
  · have c : N ≤ j + m := by omega
    rw [at_rebase2 _ _ c] at hu ⊢; rw [rebQt2 qt c]
    have := h.le _ (by omega) hu
    rw [h.shift _ (by omega) hu]; omega

theorem rebase_cont (h : LInv t z qt) {m : Nat} (hm : m < N) (hs : (t.at z m).shift = false) :
    ∀ k, k + 1 < N → (t.at (pos z m) (k + 1)).used = true →
    ((t.at (pos z m) (k + 1)).cont = true ↔
      ((t.at (pos z m) k).used = true ∧ rebQt N m qt k = rebQt N m qt (k + 1))) := by
  intro j hj hu
  have hge := h.ge_of_unshifted hs
  by_cases c : j + 1 + m < N
  · rw [at_rebase1] at hu ⊢; rw [rebQt1 qt c, rebQt1 qt (by omega : j + m < N), at_rebase1]
    have e : j + 1 + m = j + m + 1 := by omega
    rw [e] at hu ⊢
    rw [h.cont (j + m) (by omega) hu]
    have h1 := hge _ (by omega) (by omega) hu
    constructor
    · rintro ⟨a, b⟩; exact ⟨a, by omega⟩
    · rintro ⟨a, b⟩
      have h2 := hge _ (by omega) (by omega) a
      exact ⟨a, by omega⟩
  · have c : N ≤ j + 1 + m := by omega
    by_cases c2 : j + m < N
    · rw [at_rebase2 _ _ c] at hu ⊢; rw [rebQt2 qt c, rebQt1 qt c2, at_rebase1]
      have e : j + 1 + m - N = 0 := by omega
      rw [e] at hu ⊢
      have h0 := h.qt_zero (by omega) hu
      rw [h.cont0]
      constructor
      · intro x; cases x
      · rintro ⟨a, b⟩
        have := h.le _ c2 a
        omega
    · have c2 : N ≤ j + m := by omega
      rw [at_rebase2 _ _ c] at hu ⊢; rw [rebQt2 qt c, at_rebase2 _ _ c2, rebQt2 qt c2]
      have e : j + 1 + m - N = j + m - N + 1 := by omega
      rw [e] at hu ⊢
      rw [h.cont (j + m - N) (by omega) hu]
      have hl := h.le _ (by omega) hu
      constructor
      · rintro ⟨a, b⟩; exact ⟨a, by omega⟩
      · rintro ⟨a, b⟩
        have := h.le _ (by omega) a
        exact ⟨a, by omega⟩

theorem rebase_sorted (h : LInv t z qt) {m : Nat} (hm : m < N) :
    ∀ k, k + 1 < N → (t.at (pos z m) (k + 1)).used = true → (t.at (pos z m) (k + 1)).cont = true →
    (t.at (pos z m) k).rem < (t.at (pos z m) (k + 1)).rem := by
  intro j hj hu hc
  by_cases c : j + 1 + m < N
  · rw [at_rebase1] at hu hc ⊢; rw [at_rebase1]
    have e : j + 1 + m = j + m + 1 := by omega
    rw [e] at hu hc ⊢
    exact h.sorted _ (by omega) hu hc
  · have c : N ≤ j + 1 + m := by omega
    by_cases c2 : j + m < N
    · rw [at_rebase2 _ _ c] at hc
      have e : j + 1 + m - N = 0 := by omega
      rw [e, h.cont0] at hc; cases hc
    · have c2 : N ≤ j + m := by omega
      rw [at_rebase2 _ _ c] at hu hc ⊢; rw [at_rebase2 _ _ c2]
      have e : j + 1 + m - N = j + m - N + 1 := by omega
      rw [e] at hu hc ⊢
      exact h.sorted _ (by omega) hu hc

theorem rebase_occ (h : LInv t z qt) {m : Nat} (hm : m < N) (hs : (t.at z m).shift = false) :
    ∀ a, a < N → ((t.at (pos z m) a).occ = true ↔
      ∃ k, k < N ∧ (t.at (pos z m) k).used = true ∧ rebQt N m qt k = a) := by
  intro a ha
  have hge := h.ge_of_unshifted hs
  by_cases c : a + m < N
  · rw [at_rebase1, h.occ _ c]
    constructor
    · rintro ⟨k, hk, hu, hq⟩
      have hl := h.le k hk hu
      refine ⟨k - m, by omega, ?_, ?_⟩
      · rw [at_rebase1]; rw [show k - m + m = k by omega]; exact hu
      · rw [rebQt1 qt (by omega), show k - m + m = k by omega]; omega
    · rintro ⟨j, hj, hu, hq⟩
      by_cases c2 : j + m < N
      · rw [at_rebase1] at hu; rw [rebQt1 qt c2] at hq
        have := hge _ (by omega) c2 hu
        exact ⟨j + m, c2, hu, by omega⟩
      · have c2 : N ≤ j + m := by omega
        rw [at_rebase2 _ _ c2] at hu; rw [rebQt2 qt c2] at hq
        have := h.le _ (by omega) hu
        omega
  · have c : N ≤ a + m := by omega
    rw [at_rebase2 _ _ c, h.occ _ (by omega)]
    constructor
    · rintro ⟨k, hk, hu, hq⟩
      have hl := h.le k hk hu
      by_cases c3 : m ≤ k
      · have := hge k c3 hk hu; omega
      · refine ⟨k + N - m, by omega, ?_, ?_⟩
        · rw [at_rebase2 _ _ (by omega)]; rw [show k + N - m + m - N = k by omega]; exact hu
        · rw [rebQt2 qt (by omega), show k + N - m + m - N = k by omega]; omega
    · rintro ⟨j, hj, hu, hq⟩
      by_cases c2 : j + m < N
      · rw [at_rebase1] at hu; rw [rebQt1 qt c2] at hq
        have := h.le _ c2 hu
        omega
      · have c2 : N ≤ j + m := by omega
        rw [at_rebase2 _ _ c2] at hu; rw [rebQt2 qt c2] at hq
        have := h.le _ (by omega) hu
        exact ⟨j + m - N, by omega, hu, by omega⟩

theorem rebase_emp (h : LInv t z qt) {m : Nat} (hm : m < N) :
    ∀ k, k < N → (t.at (pos z m) k).used = false → (t.at (pos z m) k).cont = false := by
  intro j hj hu
  by_cases c : j + m < N
  · rw [at_rebase1] at hu ⊢; exact h.emp _ c hu
  · have c : N ≤ j + m := by omega
    rw [at_rebase2 _ _ c] at hu ⊢; exact h.emp _ (by omega) hu

theorem rebase_cont0 (h : LInv t z qt) {m : Nat} (hm : m < N) (hs : (t.at z m).shift = false) :
    (t.at (pos z m) 0).cont = false := by
  rw [at_rebase1, Nat.zero_add]
  cases hu : (t.at z m).used
  · exact h.emp m hm hu
  · have hq := h.qt_unshifted hm hs hu
    rcases m with _ | m
    · exact h.cont0
    · cases hc : (t.at z (m + 1)).cont
      · rfl
      · have := (h.cont m hm hu).mp hc
        have := h.le m (by omega) this.1
        omega

/-- the invariant relative to any other unshifted slot -/
theorem rebase (h : LInv t z qt) {m : Nat} (hm : m < N) (hs : (t.at z m).shift = false) :
    LInv t (pos z m) (rebQt N m qt) where
  z0 := by rw [at_rebase1, Nat.zero_add]; exact hs
  le := h.rebase_le hm
  chain := h.rebase_chain hm hs
  shift := h.rebase_shift hm hs
  cont0 := h.rebase_cont0 hm hs
  cont := h.rebase_cont hm hs
  occ := h.rebase_occ hm hs
  sorted := h.rebase_sorted hm
  emp := h.rebase_emp hm

theorem rebase_abs (h : LInv t z qt) {m : Nat} (hm : m < N) (hs : (t.at z m).shift = false)
    (a : Fin N) (r : Nat) : Abs t (pos z m) (rebQt N m qt) a r ↔ Abs t z qt a r := by
  have hge := h.ge_of_unshifted hs
  constructor
  · rintro ⟨j, hj, hu, hp, hr⟩
    by_cases c : j + m < N
    · rw [at_rebase1] at hu hr; rw [rebQt1 qt c, pos_pos] at hp
      have := hge _ (by omega) c hu
      refine ⟨j + m, c, hu, ?_, hr⟩
      rw [← hp]; congr 1; omega
    · have c : N ≤ j + m := by omega
      rw [at_rebase2 _ _ c] at hu hr; rw [rebQt2 qt c, pos_pos] at hp
      refine ⟨j + m - N, by omega, hu, ?_, hr⟩
      rw [← hp, ← pos_add_N z (qt (j + m - N))]; congr 1; omega
  · rintro ⟨k, hk, hu, hp, hr⟩
    have hl := h.le k hk hu
    by_cases c : m ≤ k
    · have := hge k c hk hu
      refine ⟨k - m, by omega, ?_, ?_, ?_⟩
      · rw [at_rebase1, show k - m + m = k by omega]; exact hu
      · rw [rebQt1 qt (by omega), pos_pos, show k - m + m = k by omega, ← hp]; congr 1; omega
      · rw [at_rebase1, show k - m + m = k by omega]; exact hr
    · refine ⟨k + N - m, by omega, ?_, ?_, ?_⟩
      · rw [at_rebase2 _ _ (by omega), show k + N - m + m - N = k by omega]; exact hu
      · rw [rebQt2 qt (by omega), pos_pos, show k + N - m + m - N = k by omega, ← hp,
          ← pos_add_N z (qt k)]; congr 1; omega
      · rw [at_rebase2 _ _ (by omega), show k + N - m + m - N = k by omega]; exact hr

end LInv
end Pds.Quotient
