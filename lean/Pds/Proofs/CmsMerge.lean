import Pds.Proofs.Cms
/-! `merge` of count-min sketches: equals replaying both streams; commutative, associative. -/
namespace Pds.Cms

/-- the history that replays a weighted stream by `add_n` -/
def replay (str : List (Nat × Nat)) : List Op := str.map fun e => .addN e.1 e.2

theorem streamFrom_replay (str acc : List (Nat × Nat)) : streamFrom (replay str) acc = acc ++ str := by
  induction str generalizing acc with
  | nil => simp [replay, streamFrom]
  | cons e str ih =>
    have := ih (acc ++ [(e.1, e.2)])
    simp only [replay, List.map_cons, streamFrom, streamStep] at this ⊢
    rw [this]; simp

theorem stream_replay (str : List (Nat × Nat)) : stream (replay str) = str := by
  simpa [stream] using streamFrom_replay str []

theorem replay_append (a b : List (Nat × Nat)) : replay (a ++ b) = replay a ++ replay b := by
  simp [replay]

/-- Replaying a stream from a state succeeds as long as the final cell sums fit the counter. -/
theorem runFrom_replay {hash : List Nat → Nat} {w d cmax : Nat} (hw : 0 < w) (hd : 0 < d) :
    ∀ (L : List (Nat × Nat)) (s : St) (str : List (Nat × Nat)), Inv hash w d cmax s str →
      (∀ r c, c < w → cellSum hash w d r c (str ++ L) ≤ cmax) →
      ∃ s', runFrom hash w d cmax (replay L) s = some s' ∧ Inv hash w d cmax s' (str ++ L) := by
  intro L
  induction L with
  | nil => intro s str hi _; exact ⟨s, by simp [replay, runFrom], by simpa using hi⟩
  | cons e L ih =>
    intro s str hi hle
    have hv := hi.valid hw hd
    have hadd : addN hash s e.1 e.2 ≠ none := by
      rw [Ne, addN_eq_none_iff hv]
      rintro ⟨r, hr, hlt⟩
      have hcw := (colsOf_wf hash hv.1 s.d e.1).2.2 _ (List.getElem_mem hr)
      have e1 := hi.hw; have e2 := hi.hd; have e3 := hi.hcmax
      subst e1 e2 e3
      rw [hi.hcell _ _ hcw] at hlt
      have h1 := hle r _ hcw
      rw [cellSum_append] at h1
      have h2 : e.2 ≤ cellSum hash s.w s.d r (colsOf hash s.w s.d e.1)[r] (e :: L) := by
        simp only [cellSum, List.map_cons, List.sum_cons, List.getElem?_eq_getElem hr, if_true]
        omega
      omega
    cases ha : addN hash s e.1 e.2 with
    | none => exact absurd ha hadd
    | some p =>
      obtain ⟨s1, r⟩ := p
      have hi1 := inv_addN hw hd hi ha
      obtain ⟨s', hr', hi'⟩ := ih s1 (str ++ [(e.1, e.2)]) hi1 (by simpa using hle)
      refine ⟨s', ?_, by simpa using hi'⟩
      simp only [replay, List.map_cons, runFrom, step, ha, Option.map_some]
      exact hr'

theorem inv_cellSum_le {hash : List Nat → Nat} {w d cmax : Nat} {s : St} {str : List (Nat × Nat)}
    (h : Inv hash w d cmax s str) : ∀ r c, c < w → cellSum hash w d r c str ≤ cmax := by
  intro r c hc; rw [← h.hcell r c hc]; exact h.hle _

/-- Merging `b` into `a` is replaying `b`'s stream on `a` (as `Option`s: the merge panics iff the
replay does). -/
theorem merge_eq_runFrom_replay {hash : List Nat → Nat} {w d cmax : Nat} (hw : 0 < w) (hd : 0 < d)
    {a b : St} {sa sb : List (Nat × Nat)} (ia : Inv hash w d cmax a sa) (ib : Inv hash w d cmax b sb) :
    merge a b = runFrom hash w d cmax (replay sb) a := by
  cases hm : merge a b with
  | some s =>
    have is := inv_merge ia ib hm
    obtain ⟨s', hr, is'⟩ := runFrom_replay hw hd sb a sa ia (inv_cellSum_le is)
    rw [hr, inv_unique hw is is']
  | none =>
    cases hr : runFrom hash w d cmax (replay sb) a with
    | none => rfl
    | some s' =>
      exfalso
      have is' := runFrom_inv hw hd _ _ _ _ ia hr
      rw [streamFrom_replay] at is'
      rcases (merge_spec (s := a) (o := b) (by rw [ia.hsize, ib.hsize])).1.mp hm with hsh | ⟨j, hlt⟩
      · exact hsh ⟨by rw [ia.hd, ib.hd], by rw [ia.hw, ib.hw]⟩
      · by_cases hj : j < w * d
        · obtain ⟨e, hc⟩ := rowcol_decomp hw j
          rw [e, ia.hcell _ _ hc, ib.hcell _ _ hc, ← cellSum_append, ia.hcmax] at hlt
          have := inv_cellSum_le is' (j / w) (j % w) hc
          omega
        · rw [cell_of_ge (by rw [ia.hsize]; omega), cell_of_ge (by rw [ib.hsize]; omega)] at hlt
          omega

/-- A reachable state is reproduced by replaying its stream on a fresh sketch. -/
theorem run_replay_stream {hash : List Nat → Nat} {w d cmax : Nat} (hw : 0 < w) (hd : 0 < d)
    {A : List Op} {a : St} (ha : run hash w d cmax A = some a) :
    run hash w d cmax (replay (stream A)) = some a := by
  have ia := run_inv hw hd ha
  obtain ⟨s', hr, is'⟩ := runFrom_replay hw hd (stream A) _ [] (inv_fresh hash w d cmax)
    (by simpa using inv_cellSum_le ia)
  rw [run_eq hw, hr, inv_unique hw ia (by simpa using is')]

/-- `A.merge(B)` is the sketch obtained by feeding A's stream and then B's stream to a fresh sketch
(as `Option`s: the merge panics iff the replay does). -/
theorem merge_eq_replay {hash : List Nat → Nat} {w d cmax : Nat} (hw : 0 < w) (hd : 0 < d)
    {A B : List Op} {a b : St} (ha : run hash w d cmax A = some a) (hb : run hash w d cmax B = some b) :
    merge a b = run hash w d cmax (replay (stream A ++ stream B)) := by
  rw [replay_append, run_append, run_replay_stream hw hd ha, Option.bind_some]
  exact merge_eq_runFrom_replay hw hd (run_inv hw hd ha) (run_inv hw hd hb)

/-- The `merge` step of a history can be replaced by replaying the other sketch's stream. -/
theorem run_merge_eq_run_replay {hash : List Nat → Nat} {w d cmax : Nat} (hw : 0 < w) (hd : 0 < d)
    {A B : List Op} {b : St} (hb : run hash w d cmax B = some b) :
    run hash w d cmax (A ++ [.merge B]) = run hash w d cmax (A ++ replay (stream B)) := by
  rw [run_append, run_append]
  cases ha : run hash w d cmax A with
  | none => rfl
  | some a =>
    simp only [Option.bind_some, runFrom, step_merge, hb]
    rw [← merge_eq_runFrom_replay hw hd (run_inv hw hd ha) (run_inv hw hd hb)]
    cases merge a b <;> rfl

/-! ### commutativity and associativity -/

theorem mergeCells_comm (cmax : Nat) : ∀ xs ys : List Nat, mergeCells cmax xs ys = mergeCells cmax ys xs
  | [], [] => rfl
  | [], _ :: _ => rfl
  | _ :: _, [] => rfl
  | a :: xs, b :: ys => by
    simp only [mergeCells, Nat.add_comm b a, mergeCells_comm cmax xs ys]

/-- `merge` is commutative on tables (the counter type, hence `cmax`, is the same). -/
theorem merge_comm_table {a b : St} (hc : a.cmax = b.cmax) :
    (merge a b).map (·.table) = (merge b a).map (·.table) := by
  unfold merge
  by_cases h : a.d = b.d ∧ a.w = b.w
  · have h' : b.d = a.d ∧ b.w = a.w := ⟨h.1.symm, h.2.symm⟩
    rw [if_pos h, if_pos h', hc, mergeCells_comm]
    simp [Option.map_map, Function.comp_def]
  · have h' : ¬ (b.d = a.d ∧ b.w = a.w) := fun h' => h ⟨h'.1.symm, h'.2.symm⟩
    rw [if_neg h, if_neg h']

theorem merge_some {s o s' : St} (hs : s.table.size = o.table.size) (h : merge s o = some s') :
    (s.d = o.d ∧ s.w = o.w) ∧ (∀ j, cell s.table j + cell o.table j ≤ s.cmax) ∧
      s'.w = s.w ∧ s'.d = s.d ∧ s'.cmax = s.cmax ∧ s'.table.size = s.table.size ∧
      ∀ j, cell s'.table j = cell s.table j + cell o.table j := by
  obtain ⟨h1, h2⟩ := merge_spec hs
  have hno : ¬ (¬ (s.d = o.d ∧ s.w = o.w) ∨ ∃ j, s.cmax < cell s.table j + cell o.table j) := by
    rw [← h1, h]; simp
  refine ⟨Classical.byContradiction fun hn => hno (Or.inl hn), ?_, h2 s' h⟩
  intro j
  exact Nat.le_of_not_lt fun hlt => hno (Or.inr ⟨j, hlt⟩)

/-- `merge` is associative on tables, for sketches of one shape and counter type. -/
theorem merge_assoc_table {a b c : St} (hab : a.table.size = b.table.size) (hbc : b.table.size = c.table.size)
    (hc : a.cmax = b.cmax) :
    ((merge a b).bind (merge · c)).map (·.table) = ((merge b c).bind (merge a)).map (·.table) := by
  cases h1 : merge a b with
  | none =>
    simp only [Option.bind_none, Option.map_none]
    cases h2 : merge b c with
    | none => rfl
    | some bc =>
      obtain ⟨_, _, ew, ed, _, es, ecell⟩ := merge_some hbc h2
      have : merge a bc = none := by
        apply (merge_spec (by rw [es, hab])).1.mpr
        rcases (merge_spec hab).1.mp h1 with hsh | ⟨j, hlt⟩
        · left; rw [ew, ed]; exact hsh
        · right; refine ⟨j, ?_⟩; rw [ecell]; omega
      simp [this]
  | some ab =>
    obtain ⟨sh1, le1, ew1, ed1, ec1, es1, ecell1⟩ := merge_some hab h1
    simp only [Option.bind_some]
    cases h3 : merge ab c with
    | none =>
      cases h2 : merge b c with
      | none => rfl
      | some bc =>
        obtain ⟨sh2, _, ew, ed, _, es, ecell⟩ := merge_some hbc h2
        have : merge a bc = none := by
          apply (merge_spec (by rw [es, hab])).1.mpr
          rcases (merge_spec (s := ab) (o := c) (by rw [es1, hab, hbc])).1.mp h3 with hsh | ⟨j, hlt⟩
          · exfalso; apply hsh; rw [ew1, ed1]; exact ⟨sh1.1.trans sh2.1, sh1.2.trans sh2.2⟩
          · right; refine ⟨j, ?_⟩; rw [ecell]; rw [ecell1, ec1] at hlt; omega
        simp [this]
    | some abc =>
      obtain ⟨sh3, le3, ew3, ed3, ec3, es3, ecell3⟩ := merge_some (by rw [es1, hab, hbc]) h3
      rw [ew1, ed1] at sh3
      have h2 : merge b c ≠ none := by
        intro h2
        rcases (merge_spec hbc).1.mp h2 with hsh | ⟨j, hlt⟩
        · exact hsh ⟨sh1.1.symm.trans sh3.1, sh1.2.symm.trans sh3.2⟩
        · have := le3 j; rw [ecell1, ec1] at this; omega
      cases h2' : merge b c with
      | none => exact absurd h2' h2
      | some bc =>
        obtain ⟨sh2, _, ew, ed, _, es, ecell⟩ := merge_some hbc h2'
        have h4 : merge a bc ≠ none := by
          intro h4
          rcases (merge_spec (s := a) (o := bc) (by rw [es, hab])).1.mp h4 with hsh | ⟨j, hlt⟩
          · apply hsh; rw [ew, ed]; exact sh1
          · have := le3 j; rw [ecell1, ec1] at this; rw [ecell] at hlt; omega
        cases h4' : merge a bc with
        | none => exact absurd h4' h4
        | some abc' =>
          obtain ⟨_, _, _, _, _, es4, ecell4⟩ := merge_some (s := a) (o := bc) (by rw [es, hab]) h4'
          simp only [Option.bind_some, h4', Option.map_some, Option.some.injEq]
          apply array_ext_cell (by rw [es3, es1, es4])
          intro j _
          rw [ecell3, ecell1, ecell4, ecell]; omega

end Pds.Cms
