import Mathlib.Analysis.SpecialFunctions.Log.Basic
/-! The geometric law of the gap draw `⌊ln u / ln(1-p)⌋` over the reals (C05). -/
namespace Pds.Reservoir
open Real

/-- `s ≤ ⌊ln u / ln(1-p)⌋ ↔ u ≤ (1-p)^s` -/
theorem gap_ge_iff_real {u p : ℝ} (hu : 0 < u) (hp0 : 0 < p) (hp1 : p < 1) (s : ℕ) :
    (s : ℤ) ≤ ⌊log u / log (1 - p)⌋ ↔ u ≤ (1 - p) ^ s := by
  have hq : 0 < 1 - p := by linarith
  have hlq : log (1 - p) < 0 := log_neg hq (by linarith)
  rw [Int.le_floor, Int.cast_natCast, le_div_iff_of_neg hlq, ← log_pow,
    log_le_log_iff hu (pow_pos hq s)]

theorem gap_nonneg_real {u p : ℝ} (hu : 0 < u) (hu1 : u ≤ 1) (hp0 : 0 < p) (hp1 : p < 1) :
    0 ≤ ⌊log u / log (1 - p)⌋ := by
  have := (gap_ge_iff_real hu hp0 hp1 0).mpr (by simpa using hu1)
  simpa using this

theorem gap_zero_iff_real {u p : ℝ} (hu : 0 < u) (hu1 : u ≤ 1) (hp0 : 0 < p) (hp1 : p < 1) :
    ⌊log u / log (1 - p)⌋ = 0 ↔ 1 - p < u := by
  have h0 := gap_nonneg_real hu hu1 hp0 hp1
  have h1 := gap_ge_iff_real hu hp0 hp1 1
  simp only [Nat.cast_one, pow_one] at h1
  constructor
  · intro e
    by_contra hc
    have := h1.mpr (not_lt.mp hc)
    omega
  · intro h
    have : ¬ (1 : ℤ) ≤ ⌊log u / log (1 - p)⌋ := fun hh => absurd (h1.mp hh) (not_le.mpr h)
    omega

/-- the same with the `as usize` cast (`Int.toNat`) applied -/
theorem gap_toNat_ge_iff_real {u p : ℝ} (hu : 0 < u) (hu1 : u ≤ 1) (hp0 : 0 < p) (hp1 : p < 1)
    (s : ℕ) : s ≤ ⌊log u / log (1 - p)⌋.toNat ↔ u ≤ (1 - p) ^ s := by
  rw [Int.le_toNat (gap_nonneg_real hu hu1 hp0 hp1), gap_ge_iff_real hu hp0 hp1]

end Pds.Reservoir
