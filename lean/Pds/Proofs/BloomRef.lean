/-!
The `HashSet` reference implementation of the `Filter` trait, as the test driver models it: a
duplicate-free list used as a set.
-/
namespace Pds.FinsetFilter

def insert (l : List Nat) (x : Nat) : List Nat := if l.contains x then l else x :: l
def union (l o : List Nat) : List Nat := o.foldl insert l
def query (l : List Nat) (x : Nat) : Bool := l.contains x

theorem mem_insert (l : List Nat) (x y : Nat) : y ∈ insert l x ↔ y = x ∨ y ∈ l := by
  unfold insert
  split
  · rename_i h
    have : x ∈ l := by simpa using h
    constructor
    · exact Or.inr
    · rintro (rfl | h) <;> assumption
  · simp

theorem nodup_insert {l : List Nat} (h : l.Nodup) (x : Nat) : (insert l x).Nodup := by
  unfold insert
  split
  · exact h
  · rename_i hx
    have : x ∉ l := by simpa using hx
    exact List.nodup_cons.mpr ⟨this, h⟩

theorem mem_union (l o : List Nat) (y : Nat) : y ∈ union l o ↔ y ∈ l ∨ y ∈ o := by
  unfold union
  induction o generalizing l with
  | nil => simp
  | cons x o ih =>
    rw [List.foldl_cons, ih, mem_insert]
    simp only [List.mem_cons]
    constructor
    · rintro ((h | h) | h)
      · exact Or.inr (Or.inl h)
      · exact Or.inl h
      · exact Or.inr (Or.inr h)
    · rintro (h | h | h)
      · exact Or.inl (Or.inr h)
      · exact Or.inl (Or.inl h)
      · exact Or.inr h

theorem nodup_union {l : List Nat} (h : l.Nodup) (o : List Nat) : (union l o).Nodup := by
  unfold union
  induction o generalizing l with
  | nil => exact h
  | cons x o ih => rw [List.foldl_cons]; exact ih (nodup_insert h x)

theorem query_eq_true_iff (l : List Nat) (x : Nat) : query l x = true ↔ x ∈ l := by
  simp [query]

end Pds.FinsetFilter
