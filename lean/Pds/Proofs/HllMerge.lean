import Pds.Proofs.Hll
/-! `merge` of HyperLogLog sketches: pointwise maximum; equals processing both streams. -/
namespace Pds.Hll

theorem zipWith_max_comm (a b : Array Nat) : Array.zipWith max a b = Array.zipWith max b a := by
  apply Array.ext
  · simp [Nat.min_comm]
  · intro i h1 h2; simp [Nat.max_comm]

theorem zipWith_max_assoc (a b c : Array Nat) :
    Array.zipWith max (Array.zipWith max a b) c = Array.zipWith max a (Array.zipWith max b c) := by
  apply Array.ext
  · simp [Nat.min_assoc]
  · intro i h1 h2; simp [Nat.max_assoc]

theorem zipWith_max_self (a : Array Nat) : Array.zipWith max a a = a := by
  apply Array.ext
  · simp
  · intro i h1 h2; simp

theorem zipWith_max_twice (a b : Array Nat) :
    Array.zipWith max (Array.zipWith max a b) b = Array.zipWith max a b := by
  rw [zipWith_max_assoc, zipWith_max_self]

theorem merge_eq_some_iff {s o u : St} :
    merge s o = some u ↔ s.b = o.b ∧ u = ⟨s.b, Array.zipWith max s.regs o.regs⟩ := by
  unfold merge
  split <;> simp_all [eq_comm]

theorem merge_isSome_iff (s o : St) : (merge s o).isSome ↔ s.b = o.b := by
  unfold merge; split <;> simp_all

theorem merge_comm (s o : St) : merge s o = merge o s := by
  unfold merge
  by_cases h : s.b = o.b
  · rw [if_pos h, if_pos h.symm]
    congr 1
    exact St.ext' h (zipWith_max_comm _ _)
  · rw [if_neg h, if_neg (fun h' => h h'.symm)]

theorem merge_idem (s : St) : merge s s = some s := by
  unfold merge
  simp only [if_true, zipWith_max_self]

theorem merge_assoc (a b c : St) : (merge a b).bind (merge · c) = (merge b c).bind (merge a) := by
  apply Option.ext
  intro u
  simp only [Option.bind_eq_some_iff, merge_eq_some_iff]
  constructor
  · rintro ⟨ab, ⟨h1, rfl⟩, h2, rfl⟩
    exact ⟨_, ⟨h1.symm.trans h2, rfl⟩, h1, by rw [zipWith_max_assoc]⟩
  · rintro ⟨bc, ⟨h1, rfl⟩, h2, rfl⟩
    exact ⟨_, ⟨h2, rfl⟩, h2.trans h1, by rw [zipWith_max_assoc]⟩

theorem merge_twice (s o : St) : (merge s o).bind (merge · o) = merge s o := by
  unfold merge
  by_cases h : s.b = o.b
  · simp [h, zipWith_max_twice]
  · simp [h]

/-- registers of a merge of two valid sketches of the same precision: pointwise maximum -/
theorem merge_spec {s o : St} (hs : Valid s) (ho : Valid o) (hb : s.b = o.b) :
    ∃ u, merge s o = some u ∧ Valid u ∧ u.b = s.b ∧ ∀ j, reg u j = max (reg s j) (reg o j) := by
  have hsz : s.regs.size = o.regs.size := by rw [hs.2.2, ho.2.2, hb]
  refine ⟨⟨s.b, Array.zipWith max s.regs o.regs⟩, merge_eq_some_iff.mpr ⟨hb, rfl⟩,
    ⟨hs.1, hs.2.1, by simp [← hsz, hs.2.2]⟩, rfl, ?_⟩
  intro j
  simp only [reg]
  by_cases hj : j < s.regs.size
  · have hj' : j < o.regs.size := hsz ▸ hj
    simp [hj, hj', Array.getElem?_zipWith]
  · have hj' : ¬ j < o.regs.size := hsz ▸ hj
    simp [Nat.not_lt.mp hj, Nat.not_lt.mp hj', Array.getElem?_zipWith]

theorem foldl_maxRank_eq_max (b j : Nat) (hs : List Nat) (m0 : Nat) :
    hs.foldl (fun m h => if h % 2 ^ b = j then max m (rank b h) else m) m0 = max m0 (maxRank b hs j) := by
  induction hs generalizing m0 with
  | nil => simp [maxRank]
  | cons h hs ih =>
    unfold maxRank
    rw [List.foldl_cons, List.foldl_cons, ih, ih (if h % 2 ^ b = j then max 0 (rank b h) else 0)]
    split <;> omega

theorem maxRank_append (b j : Nat) (hs₁ hs₂ : List Nat) :
    maxRank b (hs₁ ++ hs₂) j = max (maxRank b hs₁ j) (maxRank b hs₂ j) := by
  unfold maxRank
  rw [List.foldl_append, foldl_maxRank_eq_max]
  rfl

/-- `merge` of two runs is the run of the concatenated hash stream. -/
theorem merge_run_eq_concat {b : Nat} (hb : 4 ≤ b ∧ b ≤ 18) (hs₁ hs₂ : List Nat) :
    ((run b hs₁).bind fun s₁ => (run b hs₂).bind fun s₂ => merge s₁ s₂) = run b (hs₁ ++ hs₂) := by
  obtain ⟨s₁, e₁, v₁, b₁, r₁⟩ := run_spec hb hs₁
  obtain ⟨s₂, e₂, v₂, b₂, r₂⟩ := run_spec hb hs₂
  obtain ⟨s, e, v, bb, r⟩ := run_spec hb (hs₁ ++ hs₂)
  obtain ⟨u, eu, vu, bu, ru⟩ := merge_spec v₁ v₂ (b₁.trans b₂.symm)
  rw [e₁, e₂, e]
  simp only [Option.bind_some, eu]
  congr 1
  apply valid_ext vu v (by rw [bu, b₁, bb])
  intro j
  rw [ru j, r₁ j, r₂ j, r j, maxRank_append]

end Pds.Hll
