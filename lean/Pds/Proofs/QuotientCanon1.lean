import Pds.Proofs.QuotientRefine
/-!
Canonicity, part 1: two tables that satisfy the invariant relative to the *same* reference slot and
store the same pairs agree slot by slot (all bits, and the remainders of used slots).
-/
namespace Pds.Quotient
variable {N : Nat}

/-- slot `k` is used and stores the pair `x` -/
def StoredAt (t : St N) (z : Fin N) (qt : Nat → Nat) (k : Nat) (x : Fin N × Nat) : Prop :=
  k < N ∧ (t.at z k).used = true ∧ pairAt t z qt k = x

theorem abs_iff_storedAt (t : St N) (z : Fin N) (qt : Nat → Nat) (x : Fin N × Nat) :
    Abs t z qt x.1 x.2 ↔ ∃ k, StoredAt t z qt k x := by
  obtain ⟨a, r⟩ := x
  constructor
  · rintro ⟨k, hk, hu, hp, hr⟩; exact ⟨k, hk, hu, by simp [pairAt, hp, hr]⟩
  · rintro ⟨k, hk, hu, hx⟩
    simp only [pairAt, Prod.mk.injEq] at hx
    exact ⟨k, hk, hu, hx.1, hx.2⟩

/-- equal pairs in two tables with the same reference have equal ghost quotient and remainder -/
theorem pair_eq {t t' : St N} {z : Fin N} {qt qt' : Nat → Nat} (h : LInv t z qt) (h' : LInv t' z qt')
    {k k' : Nat} (hk : k < N) (hk' : k' < N) (hu : (t.at z k).used = true)
    (hu' : (t'.at z k').used = true) (he : pairAt t z qt k = pairAt t' z qt' k') :
    qt k = qt' k' ∧ (t.at z k).rem = (t'.at z k').rem := by
  simp only [pairAt, Prod.mk.injEq] at he
  have h1 := h.le k hk hu
  have h2 := h'.le k' hk' hu'
  exact ⟨pos_inj (by omega) (by omega) he.1, he.2⟩

/-- slots are filled in strictly increasing lexicographic order of (quotient, remainder) -/
theorem lex_lt {t : St N} {z : Fin N} {qt : Nat → Nat} (h : LInv t z qt) {i j : Nat} (hij : i < j)
    (hj : j < N) (hui : (t.at z i).used = true) (huj : (t.at z j).used = true) :
    qt i < qt j ∨ (qt i = qt j ∧ (t.at z i).rem < (t.at z j).rem) := by
  have hm := h.mono hj (by omega) hui huj
  by_cases e : qt i = qt j
  · have := h.run_between hj huj (j - i) i (by omega) hui e
    exact Or.inr ⟨e, by omega⟩
  · exact Or.inl (by omega)

theorem same_pos_aux {t t' : St N} {z : Fin N} {qt qt' : Nat → Nat} (h : LInv t z qt)
    (h' : LInv t' z qt') (hA : ∀ a r, Abs t z qt a r ↔ Abs t' z qt' a r) (k : Nat)
    (ih : ∀ j, j < k → ∀ x, StoredAt t z qt j x ↔ StoredAt t' z qt' j x) (x : Fin N × Nat)
    (hx : StoredAt t z qt k x) : StoredAt t' z qt' k x := by
  obtain ⟨hk, hu, hp⟩ := hx
  obtain ⟨k', hk', hu', hp'⟩ :=
    (abs_iff_storedAt t' z qt' x).mp ((hA _ _).mp ((abs_iff_storedAt t z qt x).mpr ⟨k, hk, hu, hp⟩))
  have hxx := pair_eq h h' hk hk' hu hu' (hp.trans hp'.symm)
  rcases Nat.lt_trichotomy k' k with c | c | c
  · exfalso
    obtain ⟨_, hu2, hp2⟩ := (ih k' c x).mpr ⟨hk', hu', hp'⟩
    have := pair_eq h h hk (by omega) hu hu2 (hp.trans hp2.symm)
    have := h.slot_inj hk (by omega) hu hu2 this.1 this.2
    omega
  · subst c; exact ⟨hk', hu', hp'⟩
  · exfalso
    have hle := h.le k hk hu
    have hcd := h'.chain_down hk' hu' (k' - k) k (by omega) (by omega)
    obtain ⟨j, hj, huj, hpj⟩ := (abs_iff_storedAt t z qt _).mp ((hA _ _).mpr
      ((abs_iff_storedAt t' z qt' (pairAt t' z qt' k)).mpr ⟨k, hk, hcd.1, rfl⟩))
    have hyy := pair_eq h h' hj hk huj hcd.1 hpj
    rcases Nat.lt_trichotomy j k with c2 | c2 | c2
    · obtain ⟨_, hu3, hp3⟩ := (ih j c2 _).mp ⟨hj, huj, hpj⟩
      have := pair_eq h' h' hk (by omega) hcd.1 hu3 hp3.symm
      have := h'.slot_inj hk (by omega) hcd.1 hu3 this.1 this.2
      omega
    · subst c2
      have := h'.slot_inj hk hk' hcd.1 hu' (by omega) (by omega)
      omega
    · have l1 := lex_lt h c2 hj hu huj
      have l2 := lex_lt h' c hk' hcd.1 hu'
      omega

/-- with a common reference slot every pair is stored in the same slot of both tables -/
theorem same_pos {t t' : St N} {z : Fin N} {qt qt' : Nat → Nat} (h : LInv t z qt)
    (h' : LInv t' z qt') (hA : ∀ a r, Abs t z qt a r ↔ Abs t' z qt' a r) :
    ∀ k x, StoredAt t z qt k x ↔ StoredAt t' z qt' k x := by
  intro k
  induction k using Nat.strong_induction_on with
  | _ k ih =>
    intro x
    exact ⟨same_pos_aux h h' hA k ih x,
      same_pos_aux h' h (fun a r => (hA a r).symm) k (fun j hj y => (ih j hj y).symm) x⟩

/-- what is forced: all three bit vectors, and the remainders of used slots -/
def SlotAgree (s s' : Slot) : Prop :=
  s.occ = s'.occ ∧ s.cont = s'.cont ∧ s.shift = s'.shift ∧ (s.used = true → s.rem = s'.rem)

theorem same_ref_agree {t t' : St N} {z : Fin N} {qt qt' : Nat → Nat} (h : LInv t z qt)
    (h' : LInv t' z qt') (hA : ∀ a r, Abs t z qt a r ↔ Abs t' z qt' a r) :
    ∀ k, k < N → SlotAgree (t.at z k) (t'.at z k) := by
  have hsp := same_pos h h' hA
  -- used slots coincide, with equal ghost and remainder
  have hused : ∀ k, k < N → (t.at z k).used = true →
      (t'.at z k).used = true ∧ qt k = qt' k ∧ (t.at z k).rem = (t'.at z k).rem := by
    intro k hk hu
    obtain ⟨_, hu', hp'⟩ := (hsp k _).mp ⟨hk, hu, rfl⟩
    exact ⟨hu', pair_eq h h' hk hk hu hu' hp'.symm⟩
  have hused' : ∀ k, k < N → (t'.at z k).used = true → (t.at z k).used = true := by
    intro k hk hu'
    exact ((hsp k _).mpr ⟨hk, hu', rfl⟩).2.1
  have hunused : ∀ k, k < N → (t.at z k).used = false → (t'.at z k).used = false := by
    intro k hk hu
    cases hx : (t'.at z k).used
    · rfl
    · rw [hused' k hk hx] at hu; cases hu
  intro k hk
  refine ⟨?_, ?_, ?_, fun hu => (hused k hk hu).2.2⟩
  · -- occ
    rw [Bool.eq_iff_iff, h.occ k hk, h'.occ k hk]
    constructor
    · rintro ⟨j, hj, hu, hq⟩
      have := hused j hj hu
      exact ⟨j, hj, this.1, by omega⟩
    · rintro ⟨j, hj, hu', hq⟩
      have hu := hused' j hj hu'
      have := hused j hj hu
      exact ⟨j, hj, hu, by omega⟩
  · -- cont
    cases hu : (t.at z k).used
    · rw [h.emp k hk hu, h'.emp k hk (hunused k hk hu)]
    · have hu1 := hused k hk hu
      rcases k with _ | j
      · rw [h.cont0, h'.cont0]
      · rw [Bool.eq_iff_iff, h.cont j hk hu, h'.cont j hk hu1.1]
        constructor
        · rintro ⟨a, b⟩
          have := hused j (by omega) a
          exact ⟨this.1, by omega⟩
        · rintro ⟨a, b⟩
          have a' := hused' j (by omega) a
          have := hused j (by omega) a'
          exact ⟨a', by omega⟩
  · -- shift
    cases hu : (t.at z k).used
    · have hu' := hunused k hk hu
      simp only [Slot.used, Bool.or_eq_false_iff] at hu hu'
      rw [hu.2, hu'.2]
    · have hu1 := hused k hk hu
      rw [Bool.eq_iff_iff, h.shift k hk hu, h'.shift k hk hu1.1, hu1.2.1]

end Pds.Quotient
