import Pds.Proofs.QuotientInsert
/-!
`insertInternal` of a new pair, relative to the cluster start: the result satisfies the invariant
and stores one more pair.
-/
namespace Pds.Quotient
variable {N : Nat} {t : St N} {z : Fin N} {qt : Nat → Nat} {ka : Nat}

/-- ghost quotient after the insertion -/
def insQt (qt : Nat → Nat) (ka kp ke : Nat) (k : Nat) : Nat :=
  if k < kp then qt k else if k = kp then ka else if k ≤ ke then qt (k - 1) else qt k

/-- explicit contents of every slot after the insertion -/
def insSlot (t : St N) (z : Fin N) (ka r kp ke : Nat) (nc ns cc : Bool) (k : Nat) : Slot :=
  ⟨(t.at z k).occ || decide (k = ka),
    if kp < k ∧ k ≤ ke then (if k = kp + 1 then cc else (t.at z (k - 1)).cont)
      else if k = kp then nc else (t.at z k).cont,
    if kp < k ∧ k ≤ ke then true else if k = kp then ns else (t.at z k).shift,
    if kp < k ∧ k ≤ ke then (t.at z (k - 1)).rem else if k = kp then r else (t.at z k).rem⟩

theorem insSlot_master {t t1 t2 tf : St N} {z : Fin N} {ka r kp ke : Nat} {nc ns cc : Bool}
    (hka : ka < N) (hkpe : kp ≤ ke)
    (hT1 : ∀ k, k < N → t1.at z k = if k = kp then ⟨(t.at z kp).occ, nc, ns, r⟩ else t.at z k)
    (hT2 : ∀ k, k < N → t2.at z k =
      if kp < k ∧ k ≤ kp + (ke - kp) then shifted t1 z kp cc (t.at z kp).rem k else t1.at z k)
    (hTf : ∀ k, k < N → tf.at z k = if k = ka then { t2.at z k with occ := true } else t2.at z k) :
    ∀ k, k < N → tf.at z k = insSlot t z ka r kp ke nc ns cc k := by
  intro k hk
  rw [hTf k hk, hT2 k hk]
  unfold insSlot
  by_cases e2 : kp < k ∧ k ≤ ke
  · rw [if_pos (show kp < k ∧ k ≤ kp + (ke - kp) by omega), if_pos e2, if_pos e2, if_pos e2]
    simp only [shifted]
    rw [hT1 k hk, if_neg (show ¬ k = kp by omega)]
    by_cases e3 : k = kp + 1
    · subst e3
      by_cases e1 : kp + 1 = ka
      · subst e1; simp
      · simp [e1]
    · rw [hT1 (k - 1) (by omega), if_neg (show ¬ k - 1 = kp by omega)]
      by_cases e1 : k = ka
      · subst e1; simp [e3]
      · simp [e1, e3]
  · rw [if_neg (show ¬ (kp < k ∧ k ≤ kp + (ke - kp)) by omega), if_neg e2, if_neg e2, if_neg e2, hT1 k hk]
    by_cases e3 : k = kp
    · subst e3
      by_cases e1 : k = ka
      · subst e1; simp
      · simp [e1]
    · by_cases e1 : k = ka
      · subst e1; simp [e3]
      · simp [e1, e3]

theorem insert_new (c : ClusterCtx t z qt ka) (r : Nat) (hnot : ¬ Abs t z qt (pos z ka) r)
    (hn : t.n ≠ N) (hfree : ∃ e, e < N ∧ (t.at z e).used = false) :
    ∃ tf qt', insertInternal t (pos z ka) r = some (tf, .ok true) ∧ tf.n = t.n + 1 ∧
      LInv tf z qt' ∧
      (∀ a' r', Abs tf z qt' a' r' ↔ (Abs t z qt a' r' ∨ (a' = pos z ka ∧ r' = r))) ∧
      ∃ sr, scan t (pos z ka) r true = some sr ∧ (tf.get sr.position).rem = r := by
  have h := c.inv
  have hka := c.hka
  obtain ⟨sr, hscan, hpres, hins⟩ := scan_spec c r true
  have hp : sr.present = false := by
    cases hx : sr.present
    · rfl
    · exact absurd (hpres.mp hx) hnot
  obtain ⟨kp, ks, IP⟩ := hins rfl hp
  obtain ⟨e, he, hue⟩ := hfree
  have hlow : ∀ k, k < kp → (t.at z k).used = true ∧
      (qt k < ka ∨ (qt k = ka ∧ (t.at z k).rem < r)) := by
    intro k hk
    by_cases c2 : k < ks
    · have := IP.low k c2; exact ⟨this.1, Or.inl this.2⟩
    · have := IP.mid k (by omega) hk; exact ⟨this.1, Or.inr this.2⟩
  have hkpe : kp ≤ e := by
    by_cases c2 : kp ≤ e
    · exact c2
    · have := (hlow e (by omega)).1; rw [hue] at this; cases this
  obtain ⟨ke, k1, k2, k3, k4⟩ := first_unused t z (e - kp) kp (by rwa [show kp + (e - kp) = e by omega])
  have hkeN : ke < N := by omega
  have hkpN : kp < N := by omega
  have hcur : t.get sr.position = t.at z kp := by rw [IP.pos_eq]; rfl
  -- the three stages of the computation
  have hT1 : ∀ k, k < N → (insT1 t sr (pos z ka) r).at z k =
      if k = kp then ⟨(t.at z kp).occ, (sr.hasRun && !sr.atStartOfRun) || (t.at z kp).cont,
        decide (kp ≠ ka) || (t.at z kp).shift, r⟩ else t.at z k := by
    intro k hk
    rw [insT1_slot, hcur, flags_neq IP hkpN hka, IP.pos_eq]
    exact at_set t z hkpN hk _
  have hused : (t.at z kp).used = decide (0 < ke - kp) := by
    by_cases e1 : kp = ke
    · rw [e1, k3]; simp
    · rw [k4 kp (Nat.le_refl _) (by omega)]; simp; omega
  obtain ⟨t2, hsw, hn2, hT2⟩ := swapLoop_spec z IP.pos_eq (ke - kp) (insT1 t sr (pos z ka) r) kp
    ((t.at z kp).cont || sr.atStartOfRun) (t.at z kp).rem (N + 1) (Nat.le_refl _) (by omega)
    (by
      intro k h1 h2
      rw [hT1 k (by omega), if_neg (by omega)]
      exact k4 k (by omega) (by omega))
    (by
      intro hd
      rw [hT1 _ (by omega), if_neg (by omega), show kp + (ke - kp) = ke by omega]
      exact k3)
    (by omega)
  have hTf := fun k (hk : k < N) => insFin_at t2 z (k := k) hka hk
  have hmaster := insSlot_master hka k1 hT1 hT2 hTf
  refine ⟨insFin t2 (pos z ka), insQt qt ka kp ke, ?_, ?_, ?_⟩
  · rw [insertInternal_eq, hscan]
    simp only [hp, Bool.false_eq_true, if_false, hn, hcur, hused]
    rw [IP.pos_eq] at hsw ⊢
    rw [hsw]
  · show t2.n + 1 = t.n + 1
    rw [hn2]; rfl
  · have D : InsData t (insFin t2 (pos z ka)) z qt (insQt qt ka kp ke) ka r kp ke := by
      refine
        { inv := h, ka_le := by have := IP.ka_le; have := IP.ks_le; omega, kp_le := k1, ke_lt := hkeN,
          used_mid := k4, unused_ke := k3, low := hlow,
          hi := fun hlt => IP.hi hkpN (k4 kp (Nat.le_refl _) hlt),
          occ' := ?_, out := ?_, at_kp_cont := ?_, at_kp_shift := ?_, at_kp_rem := ?_,
          at_kp1_cont := ?_, mid_cont := ?_, mid_shift := ?_, mid_rem := ?_, qt'_out := ?_,
          qt'_kp := ?_, qt'_mid := ?_ }
      · intro k hk; rw [hmaster k hk]; rfl
      · intro k hk hout
        rw [hmaster k hk]
        simp only [insSlot]
        rw [if_neg (by omega), if_neg (by omega), if_neg (by omega), if_neg (by omega),
          if_neg (by omega), if_neg (by omega)]
        exact ⟨rfl, rfl, rfl⟩
      · rw [hmaster kp hkpN]
        simp only [insSlot, Nat.lt_irrefl, false_and, if_false, if_true]
        exact newCont_iff h IP hkpN
      · rw [hmaster kp hkpN]
        simp only [insSlot, Nat.lt_irrefl, false_and, if_false, if_true]
      · rw [hmaster kp hkpN]
        simp only [insSlot, Nat.lt_irrefl, false_and, if_false, if_true]
      · intro hlt
        rw [hmaster (kp + 1) (by omega)]
        simp only [insSlot]
        rw [if_pos (by omega), if_pos trivial]
        exact curCont_iff h hka IP hkpN (k4 kp (Nat.le_refl _) hlt)
      · intro k h1 h2
        rw [hmaster (k + 1) (by omega)]
        simp only [insSlot]
        rw [if_pos (by omega), if_neg (by omega)]
        rfl
      · intro k h1 h2
        rw [hmaster (k + 1) (by omega)]
        simp only [insSlot]
        rw [if_pos (by omega)]
      · intro k h1 h2
        rw [hmaster (k + 1) (by omega)]
        simp only [insSlot]
        rw [if_pos (by omega)]
        rfl
      · intro k hout
        unfold insQt
        rcases hout with h1 | h1
        · rw [if_pos h1]
        · rw [if_neg (by omega), if_neg (by omega), if_neg (by omega)]
      · unfold insQt
        rw [if_neg (by omega), if_pos rfl]
      · intro k h1 h2
        unfold insQt
        rw [if_neg (by omega), if_neg (by omega), if_pos (by omega)]
        rfl
    exact ⟨D.linv, D.abs, sr, hscan, by rw [IP.pos_eq]; exact D.at_kp_rem⟩

end Pds.Quotient
