import Pds.Proofs.QuotientBasic
/-!
The representation invariant of the quotient filter, in *linear coordinates*:
pick a reference slot `z` whose `shift` bit is clear and number the slots `0 … N-1` going
forward from `z`.  Because `z` is unshifted no cluster wraps across it, so relative to `z` the
table looks like an ordinary array.  The ghost `qt k` is the (index of the) quotient of the
element stored in slot `k`.
-/
namespace Pds.Quotient
variable {N : Nat}

structure LInv (t : St N) (z : Fin N) (qt : Nat → Nat) : Prop where
  /-- the reference slot is unshifted -/
  z0 : (t.at z 0).shift = false
  /-- elements are stored at or after their canonical slot -/
  le : ∀ k, k < N → (t.at z k).used = true → qt k ≤ k
  /-- no gaps, quotients non-decreasing -/
  chain : ∀ k, k + 1 < N → (t.at z (k + 1)).used = true → qt (k + 1) < k + 1 →
    (t.at z k).used = true ∧ qt k ≤ qt (k + 1)
  shift : ∀ k, k < N → (t.at z k).used = true → ((t.at z k).shift = true ↔ qt k ≠ k)
  cont0 : (t.at z 0).cont = false
  cont : ∀ k, k + 1 < N → (t.at z (k + 1)).used = true →
    ((t.at z (k + 1)).cont = true ↔ ((t.at z k).used = true ∧ qt k = qt (k + 1)))
  occ : ∀ a, a < N → ((t.at z a).occ = true ↔ ∃ k, k < N ∧ (t.at z k).used = true ∧ qt k = a)
  /-- remainders strictly increase inside a run -/
  sorted : ∀ k, k + 1 < N → (t.at z (k + 1)).used = true → (t.at z (k + 1)).cont = true →
    (t.at z k).rem < (t.at z (k + 1)).rem
  /-- unused slots carry no continuation bit -/
  emp : ∀ k, k < N → (t.at z k).used = false → (t.at z k).cont = false

/-- `(a, r)` is stored -/
def Abs (t : St N) (z : Fin N) (qt : Nat → Nat) (a : Fin N) (r : Nat) : Prop :=
  ∃ k, k < N ∧ (t.at z k).used = true ∧ pos z (qt k) = a ∧ (t.at z k).rem = r

theorem at_add_N (t : St N) (z : Fin N) (k : Nat) : t.at z (k + N) = t.at z k := by
  simp [St.at, pos_add_N]

theorem at_N (t : St N) (z : Fin N) : t.at z N = t.at z 0 := by
  have := at_add_N t z 0; simpa using this

namespace LInv
variable {t : St N} {z : Fin N} {qt : Nat → Nat}

theorem used_of_cont (h : LInv t z qt) {k : Nat} (hk : k < N) (hc : (t.at z k).cont = true) :
    (t.at z k).used = true := by
  cases hu : (t.at z k).used
  · have := h.emp k hk hu; simp [this] at hc
  · rfl

theorem used_of_shift {k : Nat} (hc : (t.at z k).shift = true) : (t.at z k).used = true := by
  simp [Slot.used, hc]

theorem used_of_occ {k : Nat} (hc : (t.at z k).occ = true) : (t.at z k).used = true := by
  simp [Slot.used, hc]

/-- all slots between the canonical slot and the element are used, with smaller-or-equal quotient -/
theorem chain_down (h : LInv t z qt) {k : Nat} (hk : k < N) (hu : (t.at z k).used = true) :
    ∀ d j, k = j + d → qt k ≤ j → (t.at z j).used = true ∧ qt j ≤ qt k := by
  intro d
  induction d generalizing k with
  | zero => intro j e _; subst e; exact ⟨hu, Nat.le_refl _⟩
  | succ d ih =>
    intro j e hq
    have e' : k = j + d + 1 := by omega
    clear e; subst e'
    have := h.chain (j + d) hk hu (by omega)
    have := ih (k := j + d) (by omega) this.1 j rfl (by omega)
    exact ⟨this.1, by omega⟩

/-- quotients are monotone over used slots -/
theorem mono (h : LInv t z qt) {j k : Nat} (hk : k < N) (hjk : j ≤ k)
    (huj : (t.at z j).used = true) (hu : (t.at z k).used = true) : qt j ≤ qt k := by
  by_cases hq : qt k ≤ j
  · exact (h.chain_down hk hu (k - j) j (by omega) hq).2
  · have := h.le j (by omega) huj; omega

/-- the canonical slot of a stored element is used -/
theorem used_qt (h : LInv t z qt) {k : Nat} (hk : k < N) (hu : (t.at z k).used = true) :
    (t.at z (qt k)).used = true :=
  (h.chain_down hk hu (k - qt k) (qt k) (by have := h.le k hk hu; omega) (Nat.le_refl _)).1

/-- an unshifted slot is a barrier: later elements have later quotients -/
theorem ge_of_unshifted (h : LInv t z qt) {m : Nat} (hm : (t.at z m).shift = false) :
    ∀ k, m ≤ k → k < N → (t.at z k).used = true → m ≤ qt k := by
  intro k hmk hk hu
  by_cases hq : qt k ≤ m
  · have := h.chain_down hk hu (k - m) m (by omega) hq
    have h2 := (h.shift m (by omega) this.1)
    have : qt m = m := by
      by_cases e : qt m = m
      · exact e
      · have := h2.mpr e; simp [hm] at this
    omega
  · omega

/-- within a run (equal quotients) all slots in between belong to the run and remainders increase -/
theorem run_between (h : LInv t z qt) {k : Nat} (hk : k < N) (hu : (t.at z k).used = true) :
    ∀ d j, k = j + d → (t.at z j).used = true → qt j = qt k →
      (t.at z j).rem + d ≤ (t.at z k).rem := by
  intro d
  induction d generalizing k with
  | zero => intro j e _ _; subst e; omega
  | succ d ih =>
    intro j e huj hq
    have e' : k = j + d + 1 := by omega
    clear e; subst e'
    have hle := h.le j (by omega) huj
    have hc := h.chain (j + d) hk hu (by omega)
    have hm := h.mono (j := j) (k := j + d) (by omega) (by omega) huj hc.1
    have heq : qt (j + d) = qt (j + d + 1) := by omega
    have hcont := (h.cont (j + d) hk hu).mpr ⟨hc.1, heq⟩
    have hs := h.sorted (j + d) hk hu hcont
    have := ih (k := j + d) (by omega) hc.1 j rfl huj (by omega)
    omega

/-- a stored pair determines its slot -/
theorem slot_inj (h : LInv t z qt) {j k : Nat} (hj : j < N) (hk : k < N)
    (huj : (t.at z j).used = true) (hu : (t.at z k).used = true)
    (hq : qt j = qt k) (hr : (t.at z j).rem = (t.at z k).rem) : j = k := by
  rcases Nat.lt_trichotomy j k with hlt | heq | hgt
  · have := h.run_between hk hu (k - j) j (by omega) huj hq; omega
  · exact heq
  · have := h.run_between hj huj (j - k) k (by omega) hu hq.symm; omega

theorem abs_iff (h : LInv t z qt) {ka : Nat} (hka : ka < N) (r : Nat) :
    Abs t z qt (pos z ka) r ↔ ∃ k, k < N ∧ (t.at z k).used = true ∧ qt k = ka ∧ (t.at z k).rem = r := by
  constructor
  · rintro ⟨k, hk, hu, hp, hr⟩
    have := h.le k hk hu
    exact ⟨k, hk, hu, pos_inj (by omega) hka hp, hr⟩
  · rintro ⟨k, hk, hu, hp, hr⟩
    exact ⟨k, hk, hu, by rw [hp], hr⟩

end LInv
end Pds.Quotient
