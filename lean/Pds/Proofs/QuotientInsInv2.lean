import Pds.Proofs.QuotientInsInv
/-!
Second half of: the slot-by-slot description `InsData` re-establishes the invariant, and the
abstraction gains exactly the new pair.
-/
namespace Pds.Quotient
variable {N : Nat}
namespace InsData
variable {t tf : St N} {z : Fin N} {qt qt' : Nat → Nat} {ka r kp ke : Nat}

theorem used'_kp (D : InsData t tf z qt qt' ka r kp ke) : (tf.at z kp).used = true := by
  apply (D.used' (by have := D.kp_le; have := D.ke_lt; omega)).mpr
  by_cases e : kp = ke
  · exact Or.inr e
  · exact Or.inl (D.used_mid kp (Nat.le_refl _) (by have := D.kp_le; omega))

theorem used'_of_used (D : InsData t tf z qt qt' ka r kp ke) {k : Nat} (hk : k < N)
    (hu : (t.at z k).used = true) : (tf.at z k).used = true :=
  (D.used' hk).mpr (Or.inl hu)

theorem used_of_used' (D : InsData t tf z qt qt' ka r kp ke) {k : Nat} (hk : k < N) (hne : k ≠ ke)
    (hu : (tf.at z k).used = true) : (t.at z k).used = true := by
  rcases (D.used' hk).mp hu with h | h
  · exact h
  · exact absurd h hne

theorem new_cont (D : InsData t tf z qt qt' ka r kp ke) :
    ∀ k, k + 1 < N → (tf.at z (k + 1)).used = true →
    ((tf.at z (k + 1)).cont = true ↔ ((tf.at z k).used = true ∧ qt' k = qt' (k + 1))) := by
  intro k hk hu
  have h := D.inv
  have hkpN : kp ≤ ke := D.kp_le
  have hkeN : ke < N := D.ke_lt
  rcases Nat.lt_trichotomy (k + 1) kp with c | c | c
  · rw [(D.out (k + 1) hk (Or.inl c)).1, D.qt'_out (k + 1) (Or.inl c), D.qt'_out k (Or.inl (by omega)),
      h.cont k hk (D.low _ c).1]
    have h1 := (D.low k (by omega)).1
    have h2 := D.used'_of_used (k := k) (by omega) h1
    simp only [h1, h2]
  · have h1 := (D.low k (by omega)).1
    have h2 := D.used'_of_used (k := k) (by omega) h1
    rw [c, D.at_kp_cont, D.qt'_kp, D.qt'_out k (Or.inl (by omega))]
    rw [show kp - 1 = k by omega]
    simp only [h2, true_and]
    constructor
    · intro x; exact x.2
    · intro x; exact ⟨by omega, x⟩
  · by_cases c2 : k + 1 ≤ ke
    · by_cases c3 : k = kp
      · subst c3
        rw [D.at_kp1_cont (by omega), D.qt'_kp, D.qt'_mid k (Nat.le_refl _) (by omega)]
        simp only [D.used'_kp, true_and]
        constructor <;> intro x <;> omega
      · obtain ⟨j, rfl⟩ : ∃ j, k = j + 1 := ⟨k - 1, by omega⟩
        have h1 := D.used_mid (j + 1) (by omega) (by omega)
        have h2 := D.used'_of_used (k := j + 1) (by omega) h1
        have h3 := D.used_mid j (by omega) (by omega)
        rw [D.mid_cont (j + 1) (by omega) (by omega), D.qt'_mid (j + 1) (by omega) (by omega),
          D.qt'_mid j (by omega) (by omega), h.cont j (by omega) h1]
        simp only [h2, h3]
    · have hu1 := D.used_of_used' hk (by omega) hu
      rw [(D.out (k + 1) hk (Or.inr (by omega))).1, D.qt'_out (k + 1) (Or.inr (by omega)),
        h.cont k hk hu1]
      by_cases c3 : k = ke
      · subst c3
        have h1 := D.qt_gt_ke (k := k + 1) (by omega) hk hu1
        have h2 : (tf.at z k).used = true := (D.used' (by omega)).mpr (Or.inr rfl)
        have h3 := D.new_le k (by omega) h2
        simp only [D.unused_ke, Bool.false_eq_true, false_and, false_iff, not_and]
        intro _; omega
      · rw [D.qt'_out k (Or.inr (by omega))]
        constructor
        · rintro ⟨a, b⟩; exact ⟨D.used'_of_used (by omega) a, b⟩
        · rintro ⟨a, b⟩; exact ⟨D.used_of_used' (by omega) c3 a, b⟩

theorem new_occ (D : InsData t tf z qt qt' ka r kp ke) :
    ∀ a, a < N → ((tf.at z a).occ = true ↔ ∃ k, k < N ∧ (tf.at z k).used = true ∧ qt' k = a) := by
  intro a ha
  have h := D.inv
  have hkpN : kp ≤ ke := D.kp_le
  have hkeN : ke < N := D.ke_lt
  rw [D.occ' a ha]
  constructor
  · intro hx
    simp only [Bool.or_eq_true, decide_eq_true_eq] at hx
    rcases hx with hx | hx
    · obtain ⟨k, hk, hu, hq⟩ := (h.occ a ha).mp hx
      by_cases c : k < kp
      · exact ⟨k, hk, D.used'_of_used hk hu, by rw [D.qt'_out k (Or.inl c)]; exact hq⟩
      · by_cases c2 : k < ke
        · have hu' : (tf.at z (k + 1)).used = true := by
            apply (D.used' (by omega)).mpr
            by_cases e : k + 1 = ke
            · exact Or.inr e
            · exact Or.inl (D.used_mid (k + 1) (by omega) (by omega))
          exact ⟨k + 1, by omega, hu', by rw [D.qt'_mid k (by omega) c2]; exact hq⟩
        · have hne : k ≠ ke := by intro e; rw [e, D.unused_ke] at hu; cases hu
          exact ⟨k, hk, D.used'_of_used hk hu, by rw [D.qt'_out k (Or.inr (by omega))]; exact hq⟩
    · subst hx
      exact ⟨kp, by omega, D.used'_kp, D.qt'_kp⟩
  · rintro ⟨k, hk, hu, hq⟩
    simp only [Bool.or_eq_true, decide_eq_true_eq]
    rcases Nat.lt_trichotomy k kp with c | c | c
    · rw [D.qt'_out k (Or.inl c)] at hq
      exact Or.inl ((h.occ a ha).mpr ⟨k, hk, (D.low k c).1, hq⟩)
    · subst c; rw [D.qt'_kp] at hq; exact Or.inr hq.symm
    · by_cases c2 : k ≤ ke
      · obtain ⟨j, rfl⟩ : ∃ j, k = j + 1 := ⟨k - 1, by omega⟩
        rw [D.qt'_mid j (by omega) (by omega)] at hq
        exact Or.inl ((h.occ a ha).mpr ⟨j, by omega, D.used_mid j (by omega) (by omega), hq⟩)
      · rw [D.qt'_out k (Or.inr (by omega))] at hq
        exact Or.inl ((h.occ a ha).mpr ⟨k, hk, D.used_of_used' hk (by omega) hu, hq⟩)

end InsData
end Pds.Quotient
