import Pds.Proofs.TDigestHist
/-!
Helper lemmas for the t-digest model, part 5 (C04): the greedy invariant of the merge pass and the
resulting bound on the number of centroids for the scale function `K0`.
-/
set_option linter.unusedSectionVars false
namespace Pds.TDigest
variable {α : Type} [Field α] [LinearOrder α] [IsStrictOrderedRing α]

/-- the limit in force while the current centroid starts at weight fraction `q0` -/
def lim (sf : ScaleFn α) (n : Nat) (q0 : α) : α := sf.fInv (sf.f q0 n + 1) n

/-- greedy invariant: every centroid together with its right neighbour exceeds the limit that was in
force for it (`q0` = weight fraction to the left of the first centroid of the list) -/
def Greedy (sf : ScaleFn α) (n : Nat) (S : α) : α → List (Centroid α) → Prop
  | _, [] => True
  | _, [_] => True
  | q0, a :: b :: rest =>
    lim sf n q0 < q0 + (a.count + b.count) / S ∧ Greedy sf n S (q0 + a.count / S) (b :: rest)

theorem ml_head (sf : ScaleFn α) (n : Nat) (S : α) (rest : List (Centroid α)) (cur : Centroid α)
    (q0 ql : α) (hpos : ∀ c ∈ rest, 0 < c.count) :
    ∃ h t, ml sf n S rest cur q0 ql = h :: t ∧ cur.count ≤ h.count := by
  induction rest generalizing cur q0 ql with
  | nil => exact ⟨cur, [], rfl, le_rfl⟩
  | cons next rest ih =>
    have hn := hpos next (by simp)
    unfold ml
    split
    · obtain ⟨h, t, e, hle⟩ := ih (cur.fuse next) q0 ql (fun d hd => hpos d (by simp [hd]))
      refine ⟨h, t, e, le_trans ?_ hle⟩
      simp; exact hn.le
    · exact ⟨cur, _, rfl, le_rfl⟩

theorem ml_greedy (sf : ScaleFn α) (n : Nat) {S : α} (hS : 0 < S) (rest : List (Centroid α))
    (cur : Centroid α) (q0 : α) (hpos : ∀ c ∈ rest, 0 < c.count) :
    Greedy sf n S q0 (ml sf n S rest cur q0 (lim sf n q0)) := by
  induction rest generalizing cur q0 with
  | nil => trivial
  | cons next rest ih =>
    have hrest : ∀ c ∈ rest, 0 < c.count := fun d hd => hpos d (by simp [hd])
    unfold ml
    split
    · exact ih _ _ hrest
    · rename_i hgt
      have ih' := ih next (q0 + cur.count / S) hrest
      obtain ⟨h, t, e, hle⟩ := ml_head sf n S rest next (q0 + cur.count / S)
        (lim sf n (q0 + cur.count / S)) hrest
      change Greedy sf n S q0 (cur :: ml sf n S rest next (q0 + cur.count / S)
        (lim sf n (q0 + cur.count / S)))
      rw [e] at ih' ⊢
      refine ⟨lt_of_lt_of_le (not_le.1 hgt) ?_, ih'⟩
      have : (cur.count + next.count) / S ≤ (cur.count + h.count) / S :=
        div_le_div_of_nonneg_right (by linarith) hS.le
      linarith

/-- invariant of reachable states: the centroids are a greedy output w.r.t. their own total weight -/
def InvK (sf : ScaleFn α) (s : St α) : Prop :=
  s.centroids = [] ∨ ∃ n, Greedy sf n (sumCount s.centroids) 0 s.centroids

theorem invK_merge (sf : ScaleFn α) {s : St α} {L : List (α × α)} (h : Inv s L) (hk : InvK sf s) :
    InvK sf (merge sf s) := by
  rcases merge_cases sf s with ⟨_, e⟩ | ⟨_, c0, rest, hperm, _, e⟩
  · rw [e]; exact hk
  · right
    refine ⟨s.nSamples, ?_⟩
    have hpos : ∀ c ∈ c0 :: rest, 0 < c.count := fun c hc => h.pos c (hperm.mem_iff.1 hc)
    have hS : 0 < sumCount (c0 :: rest) := sumCount_pos hpos (by simp)
    rw [e]
    simp only []
    rw [(ml_fused _ _ _ _ _ _ _).sumCount]
    exact ml_greedy sf s.nSamples hS rest c0 0 (fun d hd => hpos d (by simp [hd]))

theorem invK_step (sf : ScaleFn α) {s s' : St α} {L : List (α × α)} (h : Inv s L) (hk : InvK sf s)
    (op : Op α) (hs : step sf s op = some s') : InvK sf s' := by
  cases op with
  | insert x w =>
    simp only [step] at hs
    rcases lt_trichotomy w 0 with hw | hw | hw
    · rw [insertWeighted_neg sf s x hw] at hs; cases hs
    · subst hw; rw [insertWeighted_zero] at hs; cases hs; exact hk
    · rw [insertWeighted_pos sf s x hw] at hs
      cases hs
      have hk' : InvK sf (pushed s x w) := hk
      split
      · exact invK_merge sf (inv_push h x w hw) hk'
      · exact hk'
  | read => simp only [step] at hs; cases hs; exact invK_merge sf h hk
  | clear => simp only [step] at hs; cases hs; exact Or.inl rfl

theorem invK_run (sf : ScaleFn α) {s s' : St α} {L : List (α × α)} (h : Inv s L) (hk : InvK sf s)
    (ops : List (Op α)) (hs : run sf s ops = some s') : InvK sf s' := by
  induction ops generalizing s L with
  | nil => simp only [run] at hs; cases hs; exact hk
  | cons op ops ih =>
    simp only [run] at hs
    cases h1 : step sf s op with
    | none => rw [h1] at hs; cases hs
    | some s1 =>
      rw [h1] at hs
      exact ih (inv_step sf h op h1) (invK_step sf h hk op h1) hs

theorem invK_reachable (sf : ScaleFn α) {mb : Nat} {s : St α} {ops : List (Op α)}
    (h : run sf (new mb) ops = some s) : InvK sf s :=
  invK_run sf (inv_new mb) (Or.inl rfl) ops h

/-! ### K0 -/

/-- for `K0` the limit is `min (q0 + 2/δ) 1` on `[0, 1]`; what is needed of it -/
theorem k0_lim_lt {δ : α} (hδ : 0 < δ) (n : Nat) {q0 y : α} (h0 : 0 ≤ q0) (h1 : q0 ≤ 1)
    (hy : q0 + y ≤ 1) (h : lim (k0 δ) n q0 < q0 + y) : 2 / δ < y := by
  have h2 : (1 + 1 : α) = 2 := by norm_num
  simp only [lim, k0, h2, not_lt.2 h1, not_lt.2 h0, if_false] at h
  have hk : ¬ (δ / 2 * q0 + 1 < 0) := by
    have : 0 ≤ δ / 2 * q0 := by positivity
    linarith
  by_cases hc : δ / 2 < δ / 2 * q0 + 1
  · simp only [hc, if_true] at h
    have : ¬ (δ / 2 < 0) := by have : 0 < δ / 2 := by positivity
                               linarith
    simp only [this, if_false] at h
    have e : δ / 2 * 2 / δ = 1 := by field_simp
    rw [e] at h
    linarith
  · simp only [hc, if_false, hk] at h
    have e : (δ / 2 * q0 + 1) * 2 / δ = q0 + 2 / δ := by field_simp
    rw [e] at h
    linarith

/-- every two adjacent centroids together weigh more than `c` -/
def PairsExceed (c : α) : List (Centroid α) → Prop
  | a :: b :: rest => c < a.count + b.count ∧ PairsExceed c (b :: rest)
  | [_] => True
  | [] => True

theorem PairsExceed.tail {c : α} {a : Centroid α} {l : List (Centroid α)} (h : PairsExceed c (a :: l)) :
    PairsExceed c l := by
  cases l with
  | nil => trivial
  | cons b rest => exact h.2

theorem greedy_k0_pairs {δ : α} (hδ : 0 < δ) (n : Nat) {S : α} (hS : 0 < S) (l : List (Centroid α))
    (q0 : α) (h0 : 0 ≤ q0) (h1 : q0 + sumCount l / S ≤ 1) (hpos : ∀ c ∈ l, 0 < c.count)
    (hg : Greedy (k0 δ) n S q0 l) : PairsExceed (2 * S / δ) l := by
  induction l generalizing q0 with
  | nil => trivial
  | cons a l ih =>
    cases l with
    | nil => trivial
    | cons b rest =>
      have ha := hpos a (by simp); have hb := hpos b (by simp)
      have hr : 0 ≤ sumCount rest := sumCount_nonneg (fun d hd => hpos d (by simp [hd]))
      simp only [sumCount_cons] at h1
      have hsplit : (a.count + (b.count + sumCount rest)) / S
          = a.count / S + b.count / S + sumCount rest / S := by ring
      rw [hsplit] at h1
      have hqa : 0 < a.count / S := div_pos ha hS
      have hqb : 0 < b.count / S := div_pos hb hS
      have hqr : 0 ≤ sumCount rest / S := div_nonneg hr hS.le
      refine ⟨?_, ?_⟩
      · have hab : (a.count + b.count) / S = a.count / S + b.count / S := by field_simp
        have := k0_lim_lt hδ n (y := (a.count + b.count) / S) h0 (by linarith) (by rw [hab]; linarith) hg.1
        rw [div_lt_div_iff₀ hδ hS] at this
        rw [div_lt_iff₀ hδ]
        linarith
      · apply ih (q0 + a.count / S) (by linarith) _ (fun d hd => hpos d (by simp [hd])) hg.2
        simp only [sumCount_cons]
        have : (b.count + sumCount rest) / S = b.count / S + sumCount rest / S := by ring
        rw [this]; linarith

/-- counting: `⌊m/2⌋` disjoint adjacent pairs fit into the total weight -/
theorem pairs_count (c : α) (hc : 0 ≤ c) : ∀ l : List (Centroid α), PairsExceed c l →
    (∀ d ∈ l, 0 < d.count) → ((l.length / 2 : ℕ) : α) * c ≤ sumCount l
  | [], _, _ => by simp
  | [a], _, hp => by
    have := hp a (by simp)
    simp; exact this.le
  | a :: b :: rest, h, hp => by
    have ih := pairs_count c hc rest h.tail.tail (fun d hd => hp d (by simp [hd]))
    have hlen : (a :: b :: rest).length / 2 = rest.length / 2 + 1 := by
      simp only [List.length_cons]; omega
    rw [hlen]
    push_cast
    simp only [sumCount_cons]
    have := h.1
    linarith

theorem pairs_count_strict (c : α) (hc : 0 ≤ c) (l : List (Centroid α)) (h : PairsExceed c l)
    (hp : ∀ d ∈ l, 0 < d.count) (h2 : 2 ≤ l.length) : ((l.length / 2 : ℕ) : α) * c < sumCount l := by
  match l, h, hp, h2 with
  | a :: b :: rest, h, hp, _ =>
    have ih := pairs_count c hc rest h.tail.tail (fun d hd => hp d (by simp [hd]))
    have hlen : (a :: b :: rest).length / 2 = rest.length / 2 + 1 := by
      simp only [List.length_cons]; omega
    rw [hlen]
    push_cast
    simp only [sumCount_cons]
    have := h.1
    linarith

/-- the number of centroids of a `K0` greedy output: `2·⌊m/2⌋ < δ` as soon as `m ≥ 2` -/
theorem k0_pairs_bound {δ : α} (hδ : 0 < δ) (n : Nat) (l : List (Centroid α))
    (hpos : ∀ c ∈ l, 0 < c.count) (hg : Greedy (k0 δ) n (sumCount l) 0 l) (h2 : 2 ≤ l.length) :
    (2 * (l.length / 2 : ℕ) : α) < δ := by
  have hne : l ≠ [] := by intro e; rw [e] at h2; simp at h2
  have hS := sumCount_pos hpos hne
  have hp := greedy_k0_pairs hδ n hS l 0 le_rfl (by rw [zero_add, div_self hS.ne']) hpos hg
  have hc : 0 ≤ 2 * sumCount l / δ := by positivity
  have := pairs_count_strict _ hc l hp hpos h2
  rw [mul_div_assoc', div_lt_iff₀ hδ] at this
  have h3 : ((l.length / 2 : ℕ) : α) * 2 * sumCount l < δ * sumCount l := by linarith
  have := lt_of_mul_lt_mul_right h3 hS.le
  linarith

theorem k0_length_bound {δ : α} (hδ : 0 < δ) (n : Nat) (l : List (Centroid α))
    (hpos : ∀ c ∈ l, 0 < c.count) (hg : Greedy (k0 δ) n (sumCount l) 0 l) :
    (l.length : α) < δ + 1 := by
  by_cases h2 : 2 ≤ l.length
  · have := k0_pairs_bound hδ n l hpos hg h2
    have hle : l.length ≤ 2 * (l.length / 2) + 1 := by omega
    have : (l.length : α) ≤ 2 * ((l.length / 2 : ℕ) : α) + 1 := by exact_mod_cast hle
    linarith
  · have : l.length ≤ 1 := by omega
    have : (l.length : α) ≤ 1 := by exact_mod_cast this
    linarith

end Pds.TDigest
