import Pds.Proofs.QuotientCanon3
/-!
Canonicity, part 4: `RepC` (representation + cleanliness), its preservation, and the state-level
corollaries: insertion order is irrelevant; `union` is commutative and idempotent on tables.
-/
namespace Pds.Quotient
variable {N : Nat}

/-- `t` represents `S` and its unused slots are pristine: every state reachable from `empty` -/
def RepC (t : St N) (S : Finset (Fin N × Nat)) : Prop := Rep t S ∧ Clean t

theorem repC_empty (hN : 0 < N) : RepC (empty N) ∅ := ⟨rep_empty hN, clean_empty⟩

theorem repC_unique {t t' : St N} {S : Finset (Fin N × Nat)} (h : RepC t S) (h' : RepC t' S) :
    t = t' := rep_clean_unique h.1 h.2 h'.1 h'.2

theorem repC_insert {t : St N} {S : Finset (Fin N × Nat)} (hr : RepC t S) (x : Fin N × Nat) :
    ∃ t', insertInternal t x.1 x.2 = some (t', (specStep S x).2) ∧ RepC t' (specStep S x).1 := by
  obtain ⟨t', h1, h2⟩ := rep_insert hr.1 x
  exact ⟨t', h1, h2, clean_insert h1 hr.2⟩

theorem repC_run {t : St N} {S : Finset (Fin N × Nat)} (hr : RepC t S) (h : List (Fin N × Nat)) :
    ∃ t', runFrom t h = some (t', (specFrom S h).2) ∧ RepC t' (specFrom S h).1 := by
  obtain ⟨t', h1, h2⟩ := rep_run hr.1 h
  exact ⟨t', h1, h2, clean_runFrom h h1 hr.2⟩

theorem repC_union {t o : St N} {S So : Finset (Fin N × Nat)} (hr : RepC t S) (ho : RepC o So) :
    (union t o = some (t, .full) ∧ N < (S ∪ So).card) ∨
      ∃ t', union t o = some (t', .ok true) ∧ RepC t' (S ∪ So) := by
  rcases rep_union hr.1 ho.1 with h | ⟨t', h1, h2, _⟩
  · exact Or.inl h
  · exact Or.inr ⟨t', h1, h2, clean_union h1 hr.2⟩

/-- the final table depends only on the set of inserted pairs (when they fit) -/
theorem run_order_irrelevant (hN : 0 < N) {h h' : List (Fin N × Nat)}
    (hset : ∀ x, x ∈ h ↔ x ∈ h') (hfit : h.toFinset.card ≤ N) :
    ∃ t rs rs', runFrom (empty N) h = some (t, rs) ∧ runFrom (empty N) h' = some (t, rs') := by
  have hfs : h.toFinset = h'.toFinset := by
    ext x; rw [List.mem_toFinset, List.mem_toFinset]; exact hset x
  obtain ⟨t, h1, h2⟩ := repC_run (repC_empty hN) h
  obtain ⟨t', h1', h2'⟩ := repC_run (repC_empty hN) h'
  rw [(specFrom_fits ∅ h (by simpa using hfit)).1] at h2
  rw [(specFrom_fits ∅ h' (by rw [← hfs]; simpa using hfit)).1, ← hfs] at h2'
  have := repC_unique h2 h2'
  subst this
  exact ⟨t, _, _, h1, h1'⟩

theorem union_comm_state {t o t1 t2 : St N} {S So : Finset (Fin N × Nat)} (hr : RepC t S)
    (ho : RepC o So) (h1 : union t o = some (t1, .ok true)) (h2 : union o t = some (t2, .ok true)) :
    t1 = t2 := by
  rcases repC_union hr ho with ⟨h, _⟩ | ⟨t1', e1, r1⟩
  · rw [h1] at h; simp at h
  · rcases repC_union ho hr with ⟨h, _⟩ | ⟨t2', e2, r2⟩
    · rw [h2] at h; simp at h
    · rw [h1] at e1; rw [h2] at e2
      simp only [Option.some.injEq, Prod.mk.injEq, and_true] at e1 e2
      subst e1 e2
      rw [Finset.union_comm] at r2
      exact repC_unique r1 r2

theorem union_self_state {t : St N} {S : Finset (Fin N × Nat)} (hr : RepC t S) :
    union t t = some (t, .ok true) := by
  rcases repC_union hr hr with ⟨_, h⟩ | ⟨t', e1, r1⟩
  · rw [Finset.union_self] at h
    have := rep_card_le hr.1; omega
  · rw [Finset.union_self] at r1
    rw [e1, repC_unique r1 hr]

theorem union_idem_state {t o t1 : St N} {S So : Finset (Fin N × Nat)} (hr : RepC t S)
    (ho : RepC o So) (h1 : union t o = some (t1, .ok true)) :
    union t1 o = some (t1, .ok true) := by
  rcases repC_union hr ho with ⟨h, _⟩ | ⟨t1', e1, r1⟩
  · rw [h1] at h; simp at h
  · rw [h1] at e1
    simp only [Option.some.injEq, Prod.mk.injEq, and_true] at e1
    subst e1
    have hidem : S ∪ So ∪ So = S ∪ So := by rw [Finset.union_assoc, Finset.union_self]
    rcases repC_union r1 ho with ⟨_, h⟩ | ⟨t', e2, r2⟩
    · rw [hidem] at h
      have := rep_card_le r1.1; omega
    · rw [hidem] at r2
      rw [e2, repC_unique r2 r1]

/-- the invariant really does not constrain the remainder of unused slots: the empty table with a
stray remainder also represents `∅` -/
def dirtyEmpty : St 2 := ⟨#v[⟨false, false, false, 5⟩, {}], 0⟩

theorem dirtyEmpty_rep : Rep dirtyEmpty ∅ := by
  refine ⟨⟨0, fun k => k, ?_, ?_⟩, rfl⟩
  · exact ⟨by decide, by decide, forall_succ_lt (by decide), by decide, by decide,
      forall_succ_lt (by decide), by decide, forall_succ_lt (by decide), by decide⟩
  · intro a r
    simp only [Finset.notMem_empty, iff_false]
    rintro ⟨k, hk, hu, _⟩
    have : ∀ k, k < 2 → (dirtyEmpty.at 0 k).used = false := by decide
    rw [this k hk] at hu; cases hu

end Pds.Quotient
