import Pds.Proofs.QuotientRebase
/-!
Specifications of the elementary loops of `scan`: `walkBack`, `skipRun`, `nextOcc`.
-/
namespace Pds.Quotient
variable {N : Nat} {t : St N} {z : Fin N} {qt : Nat → Nat}

theorem walkBack_spec (h : LInv t z qt) : ∀ ka fuel, ka < N → ka < fuel →
    ∃ kb, kb ≤ ka ∧ walkBack t fuel (pos z ka) = some (pos z kb) ∧ (t.at z kb).shift = false ∧
      ∀ k, kb < k → k ≤ ka → (t.at z k).shift = true := by
  intro ka
  induction ka with
  | zero =>
    intro fuel _ hf
    obtain ⟨f, rfl⟩ : ∃ f, fuel = f + 1 := ⟨fuel - 1, by omega⟩
    refine ⟨0, Nat.le_refl _, ?_, h.z0, fun k h1 h2 => by omega⟩
    have := h.z0
    simp only [St.at, pos_zero] at this
    simp [walkBack, this]
  | succ ka ih =>
    intro fuel hka hf
    obtain ⟨f, rfl⟩ : ∃ f, fuel = f + 1 := ⟨fuel - 1, by omega⟩
    cases hs : (t.at z (ka + 1)).shift
    · refine ⟨ka + 1, Nat.le_refl _, ?_, hs, fun k h1 h2 => by omega⟩
      simp only [St.at] at hs
      simp [walkBack, hs]
    · obtain ⟨kb, hkb, hw, hsb, hall⟩ := ih f (by omega) (by omega)
      refine ⟨kb, by omega, ?_, hsb, ?_⟩
      · have hs' := hs
        simp only [St.at] at hs'
        simp [walkBack, hs', decr_pos, hw]
      · intro k h1 h2
        by_cases e : k = ka + 1
        · subst e; exact hs
        · exact hall k h1 (by omega)

theorem skipRun_spec (hc0 : (t.at z 0).cont = false) : ∀ fuel ks, ks < N → N ≤ ks + fuel →
    ∃ ks', ks < ks' ∧ ks' ≤ N ∧ skipRun t fuel (pos z ks) = some (pos z ks') ∧
      (∀ k, ks < k → k < ks' → (t.at z k).cont = true) ∧ (t.at z ks').cont = false := by
  intro fuel
  induction fuel with
  | zero => intro ks h1 h2; omega
  | succ f ih =>
    intro ks hks hf
    cases hc : (t.at z (ks + 1)).cont
    · refine ⟨ks + 1, by omega, by omega, ?_, fun k h1 h2 => by omega, hc⟩
      simp only [St.at] at hc
      simp [skipRun, incr_pos, hc]
    · have hlt : ks + 1 < N := by
        by_cases e : ks + 1 = N
        · rw [e, at_N, hc0] at hc; cases hc
        · omega
      obtain ⟨ks', h1, h2, h3, h4, h5⟩ := ih (ks + 1) hlt (by omega)
      refine ⟨ks', by omega, h2, ?_, ?_, h5⟩
      · have hc' := hc
        simp only [St.at] at hc'
        simp [skipRun, incr_pos, hc', h3]
      · intro k hk1 hk2
        by_cases e : k = ks + 1
        · subst e; exact hc
        · exact h4 k (by omega) hk2

theorem nextOcc_spec {ka : Nat} (hka : ka < N) {oi : Bool}
    (hstop : (t.at z ka).occ = true ∨ oi = true) : ∀ fuel kb, kb < ka → ka ≤ kb + fuel →
    ∃ kb', kb < kb' ∧ kb' ≤ ka ∧ nextOcc t (pos z ka) oi fuel (pos z kb) = some (pos z kb') ∧
      (∀ k, kb < k → k < kb' → (t.at z k).occ = false) ∧
      ((t.at z kb').occ = true ∨ (kb' = ka ∧ oi = true)) := by
  intro fuel
  induction fuel with
  | zero => intro kb h1 h2; omega
  | succ f ih =>
    intro kb hkb hf
    cases ho : (t.at z (kb + 1)).occ
    · by_cases e : kb + 1 = ka
      · cases hoi : oi
        · rcases hstop with h | h
          · rw [← e, ho] at h; cases h
          · rw [hoi] at h; cases h
        · refine ⟨kb + 1, by omega, by omega, ?_, fun k h1 h2 => by omega, Or.inr ⟨e, rfl⟩⟩
          simp [nextOcc, incr_pos, e]
      · obtain ⟨kb', h1, h2, h3, h4, h5⟩ := ih (kb + 1) (by omega) (by omega)
        refine ⟨kb', by omega, h2, ?_, ?_, h5⟩
        · have ho' := ho
          simp only [St.at] at ho'
          have hne : (pos z (kb + 1) == pos z ka) = false := by
            rw [beq_eq_false_iff_ne]
            intro hp
            exact e (pos_inj (by omega) hka hp)
          simp [nextOcc, incr_pos, ho', hne, h3]
        · intro k hk1 hk2
          by_cases e : k = kb + 1
          · subst e; exact ho
          · exact h4 k (by omega) hk2
    · refine ⟨kb + 1, by omega, by omega, ?_, fun k h1 h2 => by omega, Or.inl ho⟩
      simp only [St.at] at ho
      simp [nextOcc, incr_pos, ho]

end Pds.Quotient
