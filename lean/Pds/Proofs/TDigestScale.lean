import Pds.Proofs.TDigestSize
/-!
Helper lemmas for the t-digest model, part 6 (C04): the counting argument behind the centroid bound
for an arbitrary scale function.  `ScaleOKOn sf n lo hi` collects what is needed of the scale
function on the quantile interval `[lo, hi]`; `ScaleOK sf n` is the case `[0, 1]`.
-/
set_option linter.unusedSectionVars false
namespace Pds.TDigest
variable {α : Type} [Field α] [LinearOrder α] [IsStrictOrderedRing α]

/-- what the counting argument needs of a scale function on the quantile interval `[lo, hi]` (for the
sample count `n` in force): `f` is non-decreasing there, `fInv` is non-decreasing, and `fInv` inverts
`f` there -/
structure ScaleOKOn (sf : ScaleFn α) (n : Nat) (lo hi : α) : Prop where
  f_mono : ∀ {q q' : α}, lo ≤ q → q ≤ q' → q' ≤ hi → sf.f q n ≤ sf.f q' n
  fInv_mono : ∀ {k k' : α}, k ≤ k' → sf.fInv k n ≤ sf.fInv k' n
  fInv_f : ∀ {q : α}, lo ≤ q → q ≤ hi → sf.fInv (sf.f q n) n = q

/-- the hypotheses on the whole quantile range `[0, 1]` -/
def ScaleOK (sf : ScaleFn α) (n : Nat) : Prop := ScaleOKOn sf n 0 1

/-- greedy invariant ⇒ each adjacent pair spans more than 1 in k-space -/
theorem ScaleOKOn.span {sf : ScaleFn α} {n : Nat} {lo hi : α} (h : ScaleOKOn sf n lo hi) {q0 q2 : α}
    (h1 : lo ≤ q2) (h2 : q2 ≤ hi) (hl : lim sf n q0 < q2) : sf.f q0 n + 1 < sf.f q2 n := by
  by_contra hc
  have := h.fInv_mono (not_lt.1 hc)
  rw [h.fInv_f h1 h2] at this
  exact absurd hl (not_lt.2 this)

theorem Greedy.tail {sf : ScaleFn α} {n : Nat} {S q0 : α} {a : Centroid α} {l : List (Centroid α)}
    (h : Greedy sf n S q0 (a :: l)) : Greedy sf n S (q0 + a.count / S) l := by
  cases l with
  | nil => trivial
  | cons b rest => exact h.2

theorem Greedy.dropLast {sf : ScaleFn α} {n : Nat} {S : α} : ∀ {q0 : α} {l : List (Centroid α)},
    Greedy sf n S q0 l → Greedy sf n S q0 l.dropLast
  | _, [], _ => trivial
  | _, [_], _ => trivial
  | _, [_, _], _ => trivial
  | q0, a :: b :: c :: rest, h => by
    have ih := Greedy.dropLast (q0 := q0 + a.count / S) (l := b :: c :: rest) h.2
    simp only [List.dropLast_cons_cons] at ih ⊢
    exact ⟨h.1, ih⟩

/-- telescoping: a greedy list lying inside `[lo, hi]` spans at least `⌊m/2⌋` in k-space, more
when `m ≥ 2` -/
theorem greedy_span {sf : ScaleFn α} {n : Nat} {lo hi S : α} (hok : ScaleOKOn sf n lo hi) (hS : 0 < S) :
    ∀ (l : List (Centroid α)) (q0 : α), Greedy sf n S q0 l → (∀ c ∈ l, 0 < c.count) → lo ≤ q0 →
      q0 + sumCount l / S ≤ hi →
      sf.f q0 n + ((l.length / 2 : ℕ) : α) ≤ sf.f (q0 + sumCount l / S) n ∧
      (2 ≤ l.length → sf.f q0 n + ((l.length / 2 : ℕ) : α) < sf.f (q0 + sumCount l / S) n)
  | [], q0, _, _, _, _ => by simp
  | [a], q0, _, hp, h0, h1 => by
    have ha := hp a (by simp)
    have : 0 < a.count / S := div_pos ha hS
    simp only [sumCount_cons, sumCount_nil, add_zero] at h1 ⊢
    refine ⟨?_, fun h => by simp at h⟩
    simpa using hok.f_mono h0 (by linarith) h1
  | a :: b :: rest, q0, hg, hp, h0, h1 => by
    have ha := hp a (by simp); have hb := hp b (by simp)
    have hr : 0 ≤ sumCount rest := sumCount_nonneg (fun d hd => hp d (by simp [hd]))
    have hqa : 0 < a.count / S := div_pos ha hS
    have hqb : 0 < b.count / S := div_pos hb hS
    have hqr : 0 ≤ sumCount rest / S := div_nonneg hr hS.le
    have e2 : q0 + (a.count + b.count) / S = q0 + a.count / S + b.count / S := by ring
    have eend : q0 + sumCount (a :: b :: rest) / S
        = q0 + a.count / S + b.count / S + sumCount rest / S := by
      simp only [sumCount_cons]; ring
    rw [eend] at h1 ⊢
    have hspan := hok.span (q0 := q0) (q2 := q0 + a.count / S + b.count / S) (by linarith) (by linarith)
      (by rw [← e2]; exact hg.1)
    have ih := (greedy_span hok hS rest (q0 + a.count / S + b.count / S) hg.tail.tail
      (fun d hd => hp d (by simp [hd])) (by linarith) h1).1
    have hlen : (a :: b :: rest).length / 2 = rest.length / 2 + 1 := by
      simp only [List.length_cons]; omega
    rw [hlen]
    push_cast
    exact ⟨by linarith, fun _ => by linarith⟩

/-- counting on `[0, 1]`: a greedy output w.r.t. its own total has `2·⌊m/2⌋ < 2·(f 1 − f 0)` for `m ≥ 2` -/
theorem scale_pairs_bound {sf : ScaleFn α} {n : Nat} (hok : ScaleOK sf n) (l : List (Centroid α))
    (hpos : ∀ c ∈ l, 0 < c.count) (hg : Greedy sf n (sumCount l) 0 l) (h2 : 2 ≤ l.length) :
    (2 * (l.length / 2 : ℕ) : α) < 2 * (sf.f 1 n - sf.f 0 n) := by
  have hne : l ≠ [] := by intro e; rw [e] at h2; simp at h2
  have hS := sumCount_pos hpos hne
  have := (greedy_span hok hS l 0 hg hpos le_rfl (by rw [zero_add, div_self hS.ne'])).2 h2
  rw [zero_add, div_self hS.ne'] at this
  linarith

theorem scale_length_bound {sf : ScaleFn α} {n : Nat} (hok : ScaleOK sf n) (l : List (Centroid α))
    (hpos : ∀ c ∈ l, 0 < c.count) (hg : l = [] ∨ Greedy sf n (sumCount l) 0 l) :
    (l.length : α) < 2 * (sf.f 1 n - sf.f 0 n) + 1 := by
  have hf : sf.f 0 n ≤ sf.f 1 n := hok.f_mono le_rfl zero_le_one le_rfl
  by_cases h2 : 2 ≤ l.length
  · rcases hg with e | hg
    · rw [e] at h2; simp at h2
    have := scale_pairs_bound hok l hpos hg h2
    have hle : l.length ≤ 2 * (l.length / 2) + 1 := by omega
    have : (l.length : α) ≤ 2 * ((l.length / 2 : ℕ) : α) + 1 := by exact_mod_cast hle
    linarith
  · have : l.length ≤ 1 := by omega
    have : (l.length : α) ≤ 1 := by exact_mod_cast this
    rcases Nat.lt_or_ge l.length 1 with h0 | h1
    · have : l.length = 0 := by omega
      rw [this]; simp; linarith
    · -- exactly one centroid: need `1 < 2 (f 1 - f 0) + 1`, i.e. `f 0 < f 1`; in general only `≤` holds,
      -- so use the span of the (empty) pair structure: fall back to `f 0 ≤ f 1` and strictness from
      -- `fInv (f 0) = 0 ≠ 1 = fInv (f 1)`
      have hne : sf.f 0 n ≠ sf.f 1 n := by
        intro e
        have h0 := hok.fInv_f (q := (0 : α)) le_rfl zero_le_one
        have h1' := hok.fInv_f (q := (1 : α)) zero_le_one le_rfl
        rw [e, h1'] at h0
        exact one_ne_zero h0
      have : sf.f 0 n < sf.f 1 n := lt_of_le_of_ne hf hne
      linarith

/-- counting away from the ends: if the first and the last centroid are set aside and the rest lies
inside `[lo, hi]`, then `m ≤ 2·(f hi − f lo) + 3` -/
theorem scale_length_bound_interior {sf : ScaleFn α} {n : Nat} {lo hi : α} (hok : ScaleOKOn sf n lo hi)
    (a z : Centroid α) (mid : List (Centroid α))
    (hpos : ∀ c ∈ a :: (mid ++ [z]), 0 < c.count)
    (hg : Greedy sf n (sumCount (a :: (mid ++ [z]))) 0 (a :: (mid ++ [z])))
    (ha : lo ≤ a.count / sumCount (a :: (mid ++ [z])))
    (hz : 1 - z.count / sumCount (a :: (mid ++ [z])) ≤ hi) :
    ((a :: (mid ++ [z])).length : α) ≤ 2 * (sf.f hi n - sf.f lo n) + 3 := by
  have hS := sumCount_pos hpos (by simp)
  generalize hSd : sumCount (a :: (mid ++ [z])) = S at *
  have hmid : Greedy sf n S (0 + a.count / S) mid := by
    have := (Greedy.tail hg).dropLast
    simpa using this
  have hposm : ∀ c ∈ mid, 0 < c.count := fun c hc => hpos c (by simp [hc])
  have hend : 0 + a.count / S + sumCount mid / S = 1 - z.count / S := by
    have : S = a.count + (sumCount mid + z.count) := by rw [← hSd]; simp
    have hne := hS.ne'
    field_simp
    linarith
  have hsp := (greedy_span hok hS mid (0 + a.count / S) hmid hposm (by simpa using ha)
    (by rw [hend]; exact hz)).1
  rw [hend] at hsp
  have hza : 0 < z.count / S := div_pos (hpos z (by simp)) hS
  have h1 : sf.f lo n ≤ sf.f (0 + a.count / S) n := by
    have hle : 0 + a.count / S ≤ 1 - z.count / S := by
      rw [← hend]
      have : 0 ≤ sumCount mid / S := div_nonneg (sumCount_nonneg hposm) hS.le
      linarith
    exact hok.f_mono le_rfl (by simpa using ha) (le_trans hle hz)
  have h2 : sf.f (1 - z.count / S) n ≤ sf.f hi n := by
    have hle : lo ≤ 1 - z.count / S := by
      rw [← hend]
      have : 0 ≤ sumCount mid / S := div_nonneg (sumCount_nonneg hposm) hS.le
      have := ha; simp only [zero_add] at *; linarith
    exact hok.f_mono hle hz le_rfl
  have hlen : (a :: (mid ++ [z])).length = mid.length + 2 := by simp
  have hle : mid.length ≤ 2 * (mid.length / 2) + 1 := by omega
  have hc : (mid.length : α) ≤ 2 * ((mid.length / 2 : ℕ) : α) + 1 := by exact_mod_cast hle
  rw [hlen]; push_cast
  linarith

/-! ### history level: the `n` of the greedy invariant is the current `nSamples` of a merged state -/

/-- like `InvK`, remembering that without a backlog the `n` is the current `nSamples` -/
def InvKN (sf : ScaleFn α) (s : St α) : Prop :=
  s.centroids = [] ∨
    ∃ n, Greedy sf n (sumCount s.centroids) 0 s.centroids ∧ (s.backlog = [] → n = s.nSamples)

theorem invKN_merge (sf : ScaleFn α) {s : St α} {L : List (α × α)} (h : Inv s L) (hk : InvKN sf s) :
    InvKN sf (merge sf s) := by
  rcases merge_cases sf s with ⟨_, e⟩ | ⟨_, c0, rest, hperm, _, e⟩
  · rw [e]; exact hk
  · right
    refine ⟨s.nSamples, ?_, fun _ => by rw [merge_nSamples]⟩
    have hpos : ∀ c ∈ c0 :: rest, 0 < c.count := fun c hc => h.pos c (hperm.mem_iff.1 hc)
    have hS : 0 < sumCount (c0 :: rest) := sumCount_pos hpos (by simp)
    rw [e]
    simp only []
    rw [(ml_fused _ _ _ _ _ _ _).sumCount]
    exact ml_greedy sf s.nSamples hS rest c0 0 (fun d hd => hpos d (by simp [hd]))

theorem invKN_step (sf : ScaleFn α) {s s' : St α} {L : List (α × α)} (h : Inv s L) (hk : InvKN sf s)
    (op : Op α) (hs : step sf s op = some s') : InvKN sf s' := by
  cases op with
  | insert x w =>
    simp only [step] at hs
    rcases lt_trichotomy w 0 with hw | hw | hw
    · rw [insertWeighted_neg sf s x hw] at hs; cases hs
    · subst hw; rw [insertWeighted_zero] at hs; cases hs; exact hk
    · rw [insertWeighted_pos sf s x hw] at hs
      cases hs
      have hk' : InvKN sf (pushed s x w) := by
        rcases hk with e | ⟨n, hg, _⟩
        · exact Or.inl e
        · exact Or.inr ⟨n, hg, fun hb => by simp [pushed] at hb⟩
      split
      · exact invKN_merge sf (inv_push h x w hw) hk'
      · exact hk'
  | read => simp only [step] at hs; cases hs; exact invKN_merge sf h hk
  | clear => simp only [step] at hs; cases hs; exact Or.inl rfl

theorem invKN_run (sf : ScaleFn α) {s s' : St α} {L : List (α × α)} (h : Inv s L) (hk : InvKN sf s)
    (ops : List (Op α)) (hs : run sf s ops = some s') : InvKN sf s' := by
  induction ops generalizing s L with
  | nil => simp only [run] at hs; cases hs; exact hk
  | cons op ops ih =>
    simp only [run] at hs
    cases h1 : step sf s op with
    | none => rw [h1] at hs; cases hs
    | some s1 =>
      rw [h1] at hs
      exact ih (inv_step sf h op h1) (invKN_step sf h hk op h1) hs

/-- what a read sees is empty or greedy w.r.t. its own total weight *and the current sample count* -/
theorem greedy_reachable (sf : ScaleFn α) {mb : Nat} {s : St α} {ops : List (Op α)}
    (h : run sf (new mb) ops = some s) :
    (merge sf s).centroids = [] ∨
      Greedy sf s.nSamples (sumCount (merge sf s).centroids) 0 (merge sf s).centroids := by
  have hk := invKN_merge sf (inv_reachable sf h) (invKN_run sf (inv_new mb) (Or.inl rfl) ops h)
  rcases hk with e | ⟨n, hg, hn⟩
  · exact Or.inl e
  · right
    have := hn (merge_backlog sf s)
    rw [merge_nSamples] at this
    rw [← this]; exact hg

/-! ### `K0` satisfies the hypotheses -/

theorem scaleOK_k0 {δ : α} (hδ : 0 < δ) (n : Nat) : ScaleOK (k0 δ) n := by
  have h2 : (1 + 1 : α) = 2 := by norm_num
  refine ⟨?_, ?_, ?_⟩
  · intro q q' h0 hqq h1
    have hq1 : q ≤ 1 := le_trans hqq h1
    have hq0 : 0 ≤ q' := le_trans h0 hqq
    simp only [k0, h2, not_lt.2 hq1, not_lt.2 h0, not_lt.2 h1, not_lt.2 hq0, if_false]
    exact mul_le_mul_of_nonneg_left hqq (by positivity)
  · intro k k' hk
    simp only [k0, h2]
    have hd : 0 < δ / 2 := by positivity
    apply div_le_div_of_nonneg_right _ hδ.le
    apply mul_le_mul_of_nonneg_right _ (by norm_num)
    split_ifs <;> linarith
  · intro q h0 h1
    simp only [k0, h2, not_lt.2 h1, not_lt.2 h0, if_false]
    have hd : 0 < δ / 2 := by positivity
    have hle : δ / 2 * q ≤ δ / 2 := by
      have := mul_le_mul_of_nonneg_left h1 hd.le
      simpa using this
    have hge : 0 ≤ δ / 2 * q := mul_nonneg hd.le h0
    simp only [not_lt.2 hle, not_lt.2 hge, if_false]
    field_simp

theorem k0_span (δ : α) (n : Nat) : 2 * ((k0 δ).f 1 n - (k0 δ).f 0 n) + 1 = δ + 1 := by
  have h2 : (1 + 1 : α) = 2 := by norm_num
  have h10 : ¬ ((1 : α) < 0) := not_lt.2 zero_le_one
  simp only [k0, h2, h10, lt_irrefl, if_false]
  ring

end Pds.TDigest
