/-
Invariant of the `CMSHeap` model: the heap part (`obj2count`, `tree`) given an estimate `est` of the
sketch that is sandwiched between the true count and the true count plus `E`.
-/
import Pds.Proofs.HeapTree
namespace Pds.Proofs.Heap
open Pds.CmsHeap

/-- the heap part of `add`, given the sketch's new state and estimate -/
def heapStep (s : St) (cms : Cms.St) (count x : Nat) : Option St :=
  match lookup x s.obj2count with
  | some n =>
    some { s with cms := cms, obj2count := mapSet x (n + 1) s.obj2count,
                  tree := treeInsert (n + 1, x) (treeRemove (n, x) s.tree) }
  | none =>
    if s.obj2count.length < s.k then
      some { s with cms := cms, obj2count := mapSet x 1 s.obj2count, tree := treeInsert (1, x) s.tree }
    else
      match s.tree with
      | [] => none
      | mn :: _ =>
        if count > mn.1 then
          some { s with cms := cms, obj2count := mapRemove mn.2 (mapSet x count s.obj2count),
                        tree := treeInsert (count, x) (treeRemove mn s.tree) }
        else some { s with cms := cms }

theorem add_eq (s : St) (x : Nat) (cols : List Nat) :
    add s x cols = (Cms.addCols s.cms cols 1).bind (fun r => heapStep s r.1 r.2 x) := by
  unfold add heapStep
  cases Cms.addCols s.cms cols 1 <;> rfl

/-- the invariant of the two indexes after the stream `xs`; `E` bounds the sketch's overestimate -/
structure HInv (k E : Nat) (xs : List Nat) (m t : List (Nat × Nat)) : Prop where
  nodup : (keys m).Nodup
  sorted : Sorted t
  same : ∀ c y, (c, y) ∈ t ↔ (y, c) ∈ m
  size_le : m.length ≤ k
  seen : ∀ p ∈ m, p.1 ∈ xs
  /-- while there is room, every seen element is held -/
  notfull : m.length < k → ∀ x ∈ xs, x ∈ keys m
  lower : ∀ p ∈ m, xs.count p.1 ≤ p.2
  upper : ∀ p ∈ m, p.2 ≤ xs.count p.1 + E
  /-- an element that is not held is no more frequent than any held count -/
  absent : ∀ x, x ∉ keys m → ∀ p ∈ m, xs.count x ≤ p.2

theorem hinv_nil (k E : Nat) : HInv k E [] [] [] :=
  ⟨by simp [keys], by simp, by simp, by simp, by simp, by simp, by simp, by simp, by simp⟩

theorem length_eq_keys (m : List (Nat × Nat)) : m.length = (keys m).length := by simp [keys]

/-- the element is held: its exact counter is incremented -/
theorem hinv_bump {k E : Nat} {xs : List Nat} {m t : List (Nat × Nat)} {z n : Nat}
    (h : HInv k E xs m t) (hl : (z, n) ∈ m) :
    HInv k E (xs ++ [z]) (mapSet z (n + 1) m) (treeInsert (n + 1, z) (treeRemove (n, z) t)) ∧
    (mapSet z (n + 1) m).length = m.length ∧
    (∀ b, (∀ p ∈ m, b ≤ p.2) → ∀ p ∈ mapSet z (n + 1) m, b ≤ p.2) := by
  have hz : z ∈ keys m := mem_keys_of_mem hl
  have hmem := mem_mapSet_of_mem (n := n + 1) h.nodup hz
  have hkeys := keys_mapSet_of_mem (n := n + 1) hz
  have hlen : (mapSet z (n + 1) m).length = m.length := by
    rw [length_eq_keys, hkeys, ← length_eq_keys]
  refine ⟨⟨?_, ?_, ?_, ?_, ?_, ?_, ?_, ?_, ?_⟩, hlen, ?_⟩
  · rw [hkeys]; exact h.nodup
  · exact sorted_treeInsert _ (sorted_treeRemove _ h.sorted)
  · intro c y
    rw [mem_treeInsert, mem_treeRemove, hmem, h.same]
    simp only [Prod.mk.injEq, ne_eq]
    constructor
    · rintro (⟨h1, h2⟩ | ⟨h1, h2⟩)
      · exact Or.inl ⟨h2, h1⟩
      · refine Or.inr ⟨h1, fun hy => h2 ⟨?_, hy⟩⟩
        subst hy; exact functional h.nodup h1 hl
    · rintro (⟨h1, h2⟩ | ⟨h1, h2⟩)
      · exact Or.inl ⟨h2, h1⟩
      · exact Or.inr ⟨h1, fun hh => h2 hh.2⟩
  · rw [hlen]; exact h.size_le
  · intro p hp
    rcases (hmem p).1 hp with rfl | ⟨hp, _⟩
    · simp
    · have := h.seen p hp; simp [this]
  · intro hlt x hx
    rw [hkeys]
    rw [hlen] at hlt
    rcases List.mem_append.1 hx with hx | hx
    · exact h.notfull hlt x hx
    · have : x = z := by simpa using hx
      subst this; exact hz
  · intro p hp
    rcases (hmem p).1 hp with rfl | ⟨hp, hne⟩
    · have := h.lower _ hl
      dsimp only at this ⊢
      rw [count_snoc_self]; omega
    · rw [count_snoc_ne _ hne]; exact h.lower p hp
  · intro p hp
    rcases (hmem p).1 hp with rfl | ⟨hp, hne⟩
    · have := h.upper _ hl
      dsimp only at this ⊢
      rw [count_snoc_self]; omega
    · rw [count_snoc_ne _ hne]; exact h.upper p hp
  · intro x hx p hp
    rw [hkeys] at hx
    have hxz : x ≠ z := fun e => hx (e ▸ hz)
    rw [count_snoc_ne _ hxz]
    rcases (hmem p).1 hp with rfl | ⟨hp, _⟩
    · have := h.absent x hx _ hl
      dsimp only at this ⊢
      omega
    · exact h.absent x hx p hp
  · intro b hb p hp
    rcases (hmem p).1 hp with rfl | ⟨hp, _⟩
    · have := hb _ hl
      dsimp only at this ⊢
      omega
    · exact hb p hp

/-- the element is not held and there is room: it enters with count 1 -/
theorem hinv_insert {k E : Nat} {xs : List Nat} {m t : List (Nat × Nat)} {z : Nat}
    (h : HInv k E xs m t) (hz : z ∉ keys m) (hlt : m.length < k) :
    HInv k E (xs ++ [z]) (m ++ [(z, 1)]) (treeInsert (1, z) t) := by
  have hzxs : z ∉ xs := fun hh => hz (h.notfull hlt z hh)
  have hne_of_mem : ∀ p ∈ m, p.1 ≠ z := fun p hp e => hz (e ▸ mem_keys_of_mem hp)
  refine ⟨?_, ?_, ?_, ?_, ?_, ?_, ?_, ?_, ?_⟩
  · exact nodup_keys_snoc h.nodup hz
  · exact sorted_treeInsert _ h.sorted
  · intro c y
    rw [mem_treeInsert, List.mem_append, h.same]
    simp only [Prod.mk.injEq, List.mem_singleton]
    constructor
    · rintro (⟨h1, h2⟩ | h1)
      · exact Or.inr ⟨h2, h1⟩
      · exact Or.inl h1
    · rintro (h1 | ⟨h1, h2⟩)
      · exact Or.inr h1
      · exact Or.inl ⟨h2, h1⟩
  · simp; omega
  · intro p hp
    rcases List.mem_append.1 hp with hp | hp
    · have := h.seen p hp; simp [this]
    · have : p = (z, 1) := by simpa using hp
      subst this; simp
  · intro _ x hx
    simp only [keys, List.map_append, List.mem_append]
    rcases List.mem_append.1 hx with hx | hx
    · exact Or.inl (h.notfull hlt x hx)
    · right; simpa using hx
  · intro p hp
    rcases List.mem_append.1 hp with hp | hp
    · rw [count_snoc_ne _ (hne_of_mem p hp)]; exact h.lower p hp
    · have : p = (z, 1) := by simpa using hp
      subst this
      dsimp only
      rw [count_snoc_self, List.count_eq_zero_of_not_mem hzxs]; omega
  · intro p hp
    rcases List.mem_append.1 hp with hp | hp
    · rw [count_snoc_ne _ (hne_of_mem p hp)]; exact h.upper p hp
    · have : p = (z, 1) := by simpa using hp
      subst this
      dsimp only
      rw [count_snoc_self, List.count_eq_zero_of_not_mem hzxs]; omega
  · intro x hx p _
    simp only [keys, List.map_append, List.mem_append, not_or] at hx
    have hxz : x ≠ z := by simpa using hx.2
    have hxxs : x ∉ xs := fun hh => hx.1 (h.notfull hlt x hh)
    rw [count_snoc_ne _ hxz, List.count_eq_zero_of_not_mem hxxs]
    exact Nat.zero_le _

/-- the minimum entry bounds all held counts from below -/
theorem min_le_all {k E : Nat} {xs : List Nat} {m t0 : List (Nat × Nat)} {mn : Nat × Nat}
    (h : HInv k E xs m (mn :: t0)) : (mn.2, mn.1) ∈ m ∧ ∀ p ∈ m, mn.1 ≤ p.2 := by
  refine ⟨(h.same mn.1 mn.2).1 (by simp), ?_⟩
  intro p hp
  have : (p.2, p.1) ∈ mn :: t0 := (h.same p.2 p.1).2 hp
  exact head_le h.sorted _ this

/-- the element is not held, the heap is full and the estimate beats the minimum: replace it -/
theorem hinv_evict {k E : Nat} {xs : List Nat} {m t0 : List (Nat × Nat)} {mn : Nat × Nat} {z est : Nat}
    (h : HInv k E xs m (mn :: t0)) (hz : z ∉ keys m) (hfull : m.length = k)
    (hgt : est > mn.1) (hlo : (xs ++ [z]).count z ≤ est) (hhi : est ≤ (xs ++ [z]).count z + E) :
    HInv k E (xs ++ [z]) (mapRemove mn.2 (m ++ [(z, est)]))
      (treeInsert (est, z) (treeRemove mn (mn :: t0))) ∧
    (mapRemove mn.2 (m ++ [(z, est)])).length = m.length ∧
    (∀ b, (∀ p ∈ m, b ≤ p.2) → ∀ p ∈ mapRemove mn.2 (m ++ [(z, est)]), b ≤ p.2) := by
  obtain ⟨hmn, hmin⟩ := min_le_all h
  obtain ⟨c0, y0⟩ := mn
  dsimp only at hmn hmin hgt ⊢
  have hne_of_mem : ∀ p ∈ m, p.1 ≠ z := fun p hp e => hz (e ▸ mem_keys_of_mem hp)
  have hy0z : y0 ≠ z := hne_of_mem _ hmn
  have hnd' : (keys (m ++ [(z, est)])).Nodup := nodup_keys_snoc h.nodup hz
  have hy0k : y0 ∈ keys (m ++ [(z, est)]) := by
    simp only [keys, List.map_append, List.mem_append]
    exact Or.inl (mem_keys_of_mem hmn)
  have hlen : (mapRemove y0 (m ++ [(z, est)])).length = m.length := by
    have := length_mapRemove hnd' hy0k
    simp only [List.length_append, List.length_cons, List.length_nil] at this
    omega
  have hmem : ∀ p, p ∈ mapRemove y0 (m ++ [(z, est)]) ↔ (p ∈ m ∨ p = (z, est)) ∧ p.1 ≠ y0 := by
    intro p; rw [mem_mapRemove, List.mem_append]; simp
  refine ⟨⟨?_, ?_, ?_, ?_, ?_, ?_, ?_, ?_, ?_⟩, hlen, ?_⟩
  · exact nodup_keys_mapRemove hnd'
  · exact sorted_treeInsert _ (sorted_treeRemove _ h.sorted)
  · intro c y
    rw [mem_treeInsert, mem_treeRemove, hmem, h.same]
    simp only [Prod.mk.injEq, ne_eq]
    constructor
    · rintro (⟨h1, h2⟩ | ⟨h1, h2⟩)
      · exact ⟨Or.inr ⟨h2, h1⟩, by rw [h2]; exact Ne.symm hy0z⟩
      · refine ⟨Or.inl h1, fun hy => h2 ⟨?_, hy⟩⟩
        subst hy; exact functional h.nodup h1 hmn
    · rintro ⟨h1 | ⟨h1, h2⟩, h3⟩
      · exact Or.inr ⟨h1, fun hh => h3 hh.2⟩
      · exact Or.inl ⟨h2, h1⟩
  · rw [hlen]; exact h.size_le
  · intro p hp
    rcases ((hmem p).1 hp).1 with hp | rfl
    · have := h.seen p hp; simp [this]
    · simp
  · intro hlt; rw [hlen] at hlt; omega
  · intro p hp
    rcases ((hmem p).1 hp).1 with hp | rfl
    · rw [count_snoc_ne _ (hne_of_mem p hp)]; exact h.lower p hp
    · exact hlo
  · intro p hp
    rcases ((hmem p).1 hp).1 with hp | rfl
    · rw [count_snoc_ne _ (hne_of_mem p hp)]; exact h.upper p hp
    · exact hhi
  · intro x hx p hp
    have hzin : (z, est) ∈ mapRemove y0 (m ++ [(z, est)]) := (hmem _).2 ⟨Or.inr rfl, Ne.symm hy0z⟩
    have hxz : x ≠ z := fun e => hx (e ▸ mem_keys_of_mem hzin)
    rw [count_snoc_ne _ hxz]
    -- the count of `x` is at most the old minimum
    have hxc0 : xs.count x ≤ c0 := by
      by_cases hxk : x ∈ keys m
      · obtain ⟨q, hq, hq1⟩ := List.mem_map.1 hxk
        have hxy0 : x = y0 := by
          apply Decidable.byContradiction
          intro hne
          have hq' : q ∈ mapRemove y0 (m ++ [(z, est)]) :=
            (hmem q).2 ⟨Or.inl hq, by rw [hq1]; exact hne⟩
          have := mem_keys_of_mem hq'
          rw [hq1] at this
          exact hx this
        subst hxy0
        exact h.lower _ hmn
      · exact h.absent x hxk _ hmn
    rcases ((hmem p).1 hp).1 with hp | rfl
    · have := hmin p hp; omega
    · dsimp only; omega
  · intro b hb p hp
    rcases ((hmem p).1 hp).1 with hp | rfl
    · exact hb p hp
    · have := hb _ hmn
      dsimp only at this ⊢; omega

/-- the element is not held, the heap is full and the estimate does not beat the minimum -/
theorem hinv_reject {k E : Nat} {xs : List Nat} {m t0 : List (Nat × Nat)} {mn : Nat × Nat} {z est : Nat}
    (h : HInv k E xs m (mn :: t0)) (hz : z ∉ keys m) (hfull : m.length = k)
    (hle : ¬ est > mn.1) (hlo : (xs ++ [z]).count z ≤ est) :
    HInv k E (xs ++ [z]) m (mn :: t0) := by
  obtain ⟨hmn, hmin⟩ := min_le_all h
  have hne_of_mem : ∀ p ∈ m, p.1 ≠ z := fun p hp e => hz (e ▸ mem_keys_of_mem hp)
  refine ⟨h.nodup, h.sorted, h.same, h.size_le, ?_, ?_, ?_, ?_, ?_⟩
  · intro p hp; have := h.seen p hp; simp [this]
  · intro hlt; omega
  · intro p hp; rw [count_snoc_ne _ (hne_of_mem p hp)]; exact h.lower p hp
  · intro p hp; rw [count_snoc_ne _ (hne_of_mem p hp)]; exact h.upper p hp
  · intro x hx p hp
    by_cases hxz : x = z
    · subst hxz
      have := hmin p hp; omega
    · rw [count_snoc_ne _ hxz]; exact h.absent x hx p hp

/-- one `add` on the heap part: never panics, keeps the invariant, never shrinks, and once the heap
is full every lower bound on the held counts is kept (the minimum does not decrease) -/
theorem heapStep_spec {k E : Nat} {xs : List Nat} {s : St} (hk : 1 ≤ k) (hsk : s.k = k)
    (h : HInv k E xs s.obj2count s.tree) (cms : Cms.St) (est z : Nat)
    (hlo : (xs ++ [z]).count z ≤ est) (hhi : est ≤ (xs ++ [z]).count z + E) :
    ∃ s', heapStep s cms est z = some s' ∧ s'.k = k ∧ s'.cms = cms ∧
      HInv k E (xs ++ [z]) s'.obj2count s'.tree ∧
      s.obj2count.length ≤ s'.obj2count.length ∧
      (s.obj2count.length = k →
        ∀ b, (∀ p ∈ s.obj2count, b ≤ p.2) → ∀ p ∈ s'.obj2count, b ≤ p.2) := by
  unfold heapStep
  cases hlk : lookup z s.obj2count with
  | some n =>
    obtain ⟨h1, h2, h3⟩ := hinv_bump h (lookup_some_mem hlk)
    exact ⟨_, rfl, hsk, rfl, h1, by dsimp only; omega, fun _ => h3⟩
  | none =>
    have hz : z ∉ keys s.obj2count := (lookup_none_iff z _).1 hlk
    dsimp only
    by_cases hlt : s.obj2count.length < s.k
    · rw [if_pos hlt, mapSet_of_not_mem hz]
      refine ⟨_, rfl, hsk, rfl, hinv_insert h hz (hsk ▸ hlt), by simp, ?_⟩
      intro hfull; omega
    · rw [if_neg hlt]
      have hfull : s.obj2count.length = k := by have := h.size_le; omega
      cases ht : s.tree with
      | nil =>
        exfalso
        have hpos : 0 < s.obj2count.length := by omega
        obtain ⟨p, hp⟩ := List.exists_mem_of_length_pos hpos
        have := (h.same p.2 p.1).2 hp
        rw [ht] at this; simp at this
      | cons mn t0 =>
        rw [ht] at h
        dsimp only
        by_cases hgt : est > mn.1
        · rw [if_pos hgt, mapSet_of_not_mem hz]
          obtain ⟨h1, h2, h3⟩ := hinv_evict h hz hfull hgt hlo hhi
          exact ⟨_, rfl, hsk, rfl, h1, by dsimp only; omega, fun _ => h3⟩
        · rw [if_neg hgt]
          refine ⟨_, rfl, hsk, rfl, ?_, Nat.le_refl _, fun _ b hb => hb⟩
          exact hinv_reject h hz hfull hgt hlo

end Pds.Proofs.Heap
