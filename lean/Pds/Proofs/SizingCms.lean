import Pds.Proofs.Cms
import Pds.Proofs.SizingCount
import Pds.Proofs.SizingReal
/-!
The overestimate of a count-min sketch is made of the *other* elements only, and the counting
form of the `(ε, δ)` guarantee on top of the table invariant of `Pds.Proofs.Cms`.
-/
namespace Pds.Cms
open Finset

/-- the stream with every entry of `x` removed -/
def others (x : Nat) (str : List (Nat × Nat)) : List (Nat × Nat) := str.filter fun e => e.1 ≠ x

theorem others_cons_eq {x : Nat} {e : Nat × Nat} (h : e.1 = x) (str : List (Nat × Nat)) :
    others x (e :: str) = others x str := by simp [others, h]
theorem others_cons_ne {x : Nat} {e : Nat × Nat} (h : e.1 ≠ x) (str : List (Nat × Nat)) :
    others x (e :: str) = e :: others x str := by simp [others, h]
theorem total_cons (e : Nat × Nat) (str : List (Nat × Nat)) : total (e :: str) = e.2 + total str := by
  simp [total]
theorem weightOf_cons (x : Nat) (e : Nat × Nat) (str : List (Nat × Nat)) :
    weightOf x (e :: str) = (if e.1 = x then e.2 else 0) + weightOf x str := by simp [weightOf]
theorem cellSum_cons (hash : List Nat → Nat) (w d r c : Nat) (e : Nat × Nat) (str : List (Nat × Nat)) :
    cellSum hash w d r c (e :: str) =
      (if (colsOf hash w d e.1)[r]? = some c then e.2 else 0) + cellSum hash w d r c str := by
  simp [cellSum]

theorem total_others (x : Nat) (str : List (Nat × Nat)) :
    total (others x str) + weightOf x str = total str := by
  induction str with
  | nil => simp [others, total, weightOf]
  | cons e str ih =>
    by_cases he : e.1 = x
    · rw [others_cons_eq he, total_cons, weightOf_cons, if_pos he]; omega
    · rw [others_cons_ne he, total_cons, total_cons, weightOf_cons, if_neg he]; omega

theorem weightOf_others (x : Nat) (str : List (Nat × Nat)) : weightOf x (others x str) = 0 := by
  induction str with
  | nil => simp [others, weightOf]
  | cons e str ih =>
    by_cases he : e.1 = x
    · rw [others_cons_eq he, ih]
    · rw [others_cons_ne he, weightOf_cons, if_neg he, ih]

theorem weightOf_others_ne {x y : Nat} (h : y ≠ x) (str : List (Nat × Nat)) :
    weightOf y (others x str) = weightOf y str := by
  induction str with
  | nil => simp [others, weightOf]
  | cons e str ih =>
    by_cases he : e.1 = x
    · have : e.1 ≠ y := fun h' => h (h'.symm.trans he)
      rw [others_cons_eq he, weightOf_cons, if_neg this, ih]; omega
    · rw [others_cons_ne he, weightOf_cons, weightOf_cons, ih]

/-- the cell of `x` in row `r` is the weight of `x` plus what the other elements put there -/
theorem cellSum_split (hash : List Nat → Nat) (w d r c x : Nat) (str : List (Nat × Nat))
    (h : (colsOf hash w d x)[r]? = some c) :
    cellSum hash w d r c str = weightOf x str + cellSum hash w d r c (others x str) := by
  induction str with
  | nil => simp [others, cellSum, weightOf]
  | cons e str ih =>
    by_cases he : e.1 = x
    · rw [others_cons_eq he, cellSum_cons, weightOf_cons, if_pos he, he, if_pos h, ih]; omega
    · rw [others_cons_ne he, cellSum_cons, cellSum_cons, weightOf_cons, if_neg he, ih]; omega

/-- every row of the sketch of the other elements sums to `N − weight x` -/
theorem rowSum_others (hash : List Nat → Nat) {w d r : Nat} (hw : 0 < w) (hr : r < d) (x : Nat)
    (str : List (Nat × Nat)) :
    ((List.range w).map fun c => cellSum hash w d r c (others x str)).sum + weightOf x str
      = total str := by
  rw [rowSum_cellSum hash hw hr, total_others]

/-- `query x − weight x` is the minimum over the rows of the weight the *other* elements put into
`x`'s cell of that row. -/
theorem query_overestimate {hash : List Nat → Nat} {w d cmax : Nat} {s : St} {str : List (Nat × Nat)}
    (hw : 0 < w) (hd : 0 < d) (h : Inv hash w d cmax s str) (x : Nat) :
    ∃ v, query hash s x = some v ∧
      (∀ r (hr : r < (colsOf hash w d x).length),
        v ≤ weightOf x str + cellSum hash w d r (colsOf hash w d x)[r] (others x str)) ∧
      ∃ r, ∃ hr : r < (colsOf hash w d x).length,
        v = weightOf x str + cellSum hash w d r (colsOf hash w d x)[r] (others x str) := by
  have hv := h.valid hw hd
  have e1 := h.hw
  have e2 := h.hd
  subst e1 e2
  obtain ⟨v, hq, hlb, r, hr, hat⟩ := query_spec (hash := hash) hv x
  have hlt : ∀ r (hr : r < (colsOf hash s.w s.d x).length), (colsOf hash s.w s.d x)[r] < s.w :=
    fun r hr => (colsOf_wf hash hv.1 s.d x).2.2 _ (List.getElem_mem hr)
  refine ⟨v, hq, ?_, r, hr, ?_⟩
  · intro r hr
    have := hlb r hr
    rwa [h.hcell _ _ (hlt r hr),
      cellSum_split hash _ _ _ _ x str (List.getElem?_eq_getElem hr)] at this
  · rwa [h.hcell _ _ (hlt r hr),
      cellSum_split hash _ _ _ _ x str (List.getElem?_eq_getElem hr)] at hat

/-- the column tuple of `x` as an element of `[0,w)^d` -/
def colTuple (hash : List Nat → Nat) {w : Nat} (hw : 0 < w) (d x : Nat) : Fin d → Fin w := fun r =>
  ⟨(colsOf hash w d x)[r.1]'(by rw [(colsOf_wf hash hw d x).2.1]; exact r.2),
    (colsOf_wf hash hw d x).2.2 _ (List.getElem_mem _)⟩

/-- the columns of row `r` in which the given stream has put more than `t` -/
noncomputable def heavyCols (hash : List Nat → Nat) (w d : Nat) (t : ℝ) (str : List (Nat × Nat))
    (r : Fin d) : Finset (Fin w) :=
  univ.filter fun c => t < (cellSum hash w d r.1 c.1 str : ℝ)

/-- the column tuples that are heavy in every row -/
noncomputable def badTuples (hash : List Nat → Nat) (w d : Nat) (t : ℝ) (str : List (Nat × Nat)) :
    Finset (Fin d → Fin w) :=
  Fintype.piFinset (heavyCols hash w d t str)

theorem sum_fin_eq_sum_range (w : Nat) (f : Nat → Nat) :
    ∑ c : Fin w, f c.1 = ((List.range w).map f).sum := by
  induction w with
  | zero => simp
  | succ w ih =>
    rw [Fin.sum_univ_castSucc, List.range_succ, List.map_append, List.sum_append]
    simp [ih]

/-- fewer than `w/e` columns of a row of *any* stream of total weight `≤ N` hold more than `ε·N` -/
theorem heavyCols_card_lt (hash : List Nat → Nat) {w d : Nat} (hw : 0 < w) {ε : ℝ} (hε : 0 < ε)
    (hwe : Real.exp 1 / ε ≤ (w : ℝ)) {N : Nat} (hN : 0 < N) (str : List (Nat × Nat))
    (hstr : total str ≤ N) (r : Fin d) :
    ((heavyCols hash w d (ε * N) str r).card : ℝ) < (w : ℝ) / Real.exp 1 := by
  have hsum : ∑ c : Fin w, cellSum hash w d r.1 c.1 str ≤ N := by
    rw [sum_fin_eq_sum_range w (fun c => cellSum hash w d r.1 c str), rowSum_cellSum hash hw r.2]
    exact hstr
  obtain ⟨h1, h2⟩ := Pds.Sizing.card_heavy_lt_width univ
    (fun c : Fin w => cellSum hash w d r.1 c.1 str) hε hN hsum hwe
  exact lt_of_lt_of_le h1 h2

/-- the counting form of the `(ε, δ)` guarantee: of the `w^d` column tuples fewer than `δ·w^d` are
heavy (more than `ε·N` foreign weight) in every row -/
theorem badTuples_card_lt (hash : List Nat → Nat) {w d : Nat} (hw : 0 < w) (hd : 0 < d) {ε δ : ℝ}
    (hε : 0 < ε) (hwe : Real.exp 1 / ε ≤ (w : ℝ)) (hde : Real.exp (-(d : ℝ)) ≤ δ) {N : Nat}
    (hN : 0 < N) (str : List (Nat × Nat)) (hstr : total str ≤ N) :
    ((badTuples hash w d (ε * N) str).card : ℝ) < δ * (w : ℝ) ^ d :=
  Pds.Sizing.card_all_bad_lt hd _ (heavyCols_card_lt hash hw hε hwe hN str hstr) hde

/-- the overestimate of `x` exceeds `t` iff `x`'s column tuple is heavy in every row of the sketch
of the other elements -/
theorem overestimate_gt_iff {hash : List Nat → Nat} {w d cmax : Nat} {s : St}
    {str : List (Nat × Nat)} (hw : 0 < w) (hd : 0 < d) (h : Inv hash w d cmax s str) (x : Nat)
    (t : ℝ) {v : Nat} (hq : query hash s x = some v) :
    t < (v : ℝ) - (weightOf x str : ℝ) ↔ colTuple hash hw d x ∈ badTuples hash w d t (others x str) := by
  obtain ⟨v', hq', hle, r0, hr0, hat⟩ := query_overestimate hw hd h x
  rw [hq] at hq'
  cases hq'
  have hlen : (colsOf hash w d x).length = d := (colsOf_wf hash hw d x).2.1
  simp only [badTuples, heavyCols, Fintype.mem_piFinset, mem_filter, mem_univ, true_and, colTuple]
  constructor
  · intro hlt r
    have := hle r.1 (by rw [hlen]; exact r.2)
    have : (v : ℝ) ≤ (weightOf x str : ℝ) +
        (cellSum hash w d r.1 (colsOf hash w d x)[r.1] (others x str) : ℝ) := by exact_mod_cast this
    linarith
  · intro hall
    have := hall ⟨r0, by rw [← hlen]; exact hr0⟩
    simp only at this
    rw [hat]
    push_cast
    linarith

open Pds.Sizing in
/-- fewer than `1/ε` cells of a row of a reachable sketch exceed `ε·N` -/
theorem sketch_row_heavy {hash : List Nat → Nat} {w d cmax : Nat} (hw : 0 < w) (hd : 0 < d)
    {h : List Op} {s : St} (hr : run hash w d cmax h = some s) {r : Nat} (hrd : r < d) {ε : ℝ}
    (hε : 0 < ε) (hN : 0 < totalWeight h) :
    ((((List.range w).map fun c => cell s.table (r * w + c)).countP
      fun v : ℕ => ε * (totalWeight h : ℝ) < (v : ℝ)) : ℝ) < 1 / ε := by
  have hN' : (0 : ℝ) < totalWeight h := by exact_mod_cast hN
  have := list_heavy_lt ((List.range w).map fun c => cell s.table (r * w + c)) (mul_pos hε hN') hN
    (le_of_eq (inv_row_sum hw (run_inv hw hd hr) hrd))
  have e : (totalWeight h : ℝ) / (ε * totalWeight h) = 1 / ε := by field_simp
  rwa [e] at this

open Pds.Sizing in
/-- parameters, counting bound and characterisation of a large overestimate together -/
theorem cms_eps_delta {ε δ : ℝ} (hε : 0 < ε) (hδ : 0 < δ) (hδ1 : δ < 1) {w d : ℕ}
    (hp : cmsParams ε δ = some (w, d)) (hash : List Nat → Nat) (cmax : Nat) {h : List Op} {s : St}
    (hN : 0 < totalWeight h) (x : Nat) :
    ∃ hw : 0 < w, 0 < d ∧
      ((badTuples hash w d (ε * totalWeight h) (others x (stream h))).card : ℝ) < δ * (w : ℝ) ^ d ∧
      (run hash w d cmax h = some s → ∀ v, query hash s x = some v →
        (ε * (totalWeight h : ℝ) < (v : ℝ) - (trueWeight h x : ℝ) ↔
          colTuple hash hw d x ∈ badTuples hash w d (ε * totalWeight h) (others x (stream h)))) := by
  rw [cmsParams_eq hε hδ hδ1] at hp
  simp only [Option.some.injEq, Prod.mk.injEq] at hp
  obtain ⟨rfl, rfl⟩ := hp
  have hw := (cms_width_bounds hε).2
  have hd := (cms_depth_bounds hδ hδ1).1
  refine ⟨hw, hd, ?_, ?_⟩
  · apply badTuples_card_lt hash hw hd hε (cms_width_bounds hε).1 (cms_depth_bounds hδ hδ1).2 hN
    have := total_others x (stream h)
    unfold totalWeight; omega
  · intro hr v hq
    exact overestimate_gt_iff hw hd (run_inv hw hd hr) x _ hq

end Pds.Cms
