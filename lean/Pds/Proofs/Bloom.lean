import Pds.Model.Bloom
import Pds.Proofs.HashIter
/-!
Helper lemmas for the Bloom filter model: effect of `insert` / `query` / `union` on every bit,
histories, monotonicity.
-/
namespace Pds.Bloom

/-- bit `j` (false outside the array) -/
def bit (b : Array Bool) (j : Nat) : Bool := b[j]?.getD false

/-- the positions of `x` in a filter of `m` bits with `k` hash functions -/
def posOf (hash : List Nat → Nat) (m k x : Nat) : List Nat := (HashIter.positions hash m k x).getD []

theorem posOf_spec (hash : List Nat → Nat) {m : Nat} (hm : 0 < m) (k x : Nat) :
    HashIter.positions hash m k x = some (posOf hash m k x) ∧ (posOf hash m k x).length = k ∧
      ∀ p ∈ posOf hash m k x, p < m := by
  obtain ⟨ps, e, hl, hlt⟩ := HashIter.positions_some hash hm k x
  simp only [posOf, e, Option.getD_some]
  exact ⟨trivial, hl, hlt⟩

theorem bit_set {b : Array Bool} {p : Nat} (hp : p < b.size) (v : Bool) (j : Nat) :
    bit (b.set p v) j = if p = j then v else bit b j := by
  simp only [bit, Array.getElem?_set]
  split <;> simp

theorem bit_of_lt {b : Array Bool} {j : Nat} (h : j < b.size) : bit b j = b[j] := by simp [bit, h]
theorem bit_of_ge {b : Array Bool} {j : Nat} (h : b.size ≤ j) : bit b j = false := by simp [bit, h]

theorem bit_replicate_false (m j : Nat) : bit (Array.replicate m false) j = false := by
  simp only [bit, Array.getElem?_replicate]; split <;> rfl

theorem array_ext_bit {a b : Array Bool} (hs : a.size = b.size) (h : ∀ j, j < a.size → bit a j = bit b j) :
    a = b := by
  apply Array.ext hs
  intro i h1 h2
  have := h i h1
  rwa [bit_of_lt h1, bit_of_lt h2] at this

theorem St.ext' {s t : St} (hk : s.k = t.k) (hb : s.bits = t.bits) : s = t := by
  cases s; cases t; simp_all

/-! ### `putAll`, `queryPos` -/

theorem putAll_spec : ∀ (ps : List Nat) (bits : Array Bool) (was : Bool), (∀ p ∈ ps, p < bits.size) →
    ∃ bits' was', putAll bits ps was = some (bits', was') ∧ bits'.size = bits.size ∧
      (∀ j, bit bits' j = true ↔ bit bits j = true ∨ j ∈ ps) ∧
      (was' = true ↔ was = true ∧ ∀ p ∈ ps, bit bits p = true) := by
  intro ps
  induction ps with
  | nil => intro bits was _; exact ⟨bits, was, rfl, rfl, by simp, by simp⟩
  | cons p ps ih =>
    intro bits was hlt
    have hp : p < bits.size := hlt p List.mem_cons_self
    obtain ⟨bits', was', e, hs, hb, hw⟩ := ih (bits.set p true) (was && bits[p])
      (by intro q hq; rw [Array.size_set]; exact hlt q (List.mem_cons_of_mem _ hq))
    refine ⟨bits', was', ?_, by rw [hs, Array.size_set], ?_, ?_⟩
    · rw [putAll, dif_pos hp]; exact e
    · intro j
      rw [hb j, bit_set hp]
      by_cases hpj : p = j
      · subst hpj; simp
      · have : ¬ j = p := fun h => hpj h.symm
        simp [hpj, this]
    · rw [hw, Bool.and_eq_true, ← bit_of_lt hp]
      simp only [List.mem_cons, forall_eq_or_imp, bit_set hp]
      constructor
      · rintro ⟨⟨h1, h2⟩, h3⟩
        refine ⟨h1, h2, ?_⟩
        intro q hq
        have := h3 q hq
        by_cases hpq : p = q
        · subst hpq; exact h2
        · simpa [hpq] using this
      · rintro ⟨h1, h2, h3⟩
        refine ⟨⟨h1, h2⟩, ?_⟩
        intro q hq
        by_cases hpq : p = q
        · simp [hpq]
        · simpa [hpq] using h3 q hq

theorem queryPos_spec (bits : Array Bool) : ∀ (ps : List Nat), (∀ p ∈ ps, p < bits.size) →
    ∃ r, queryPos bits ps = some r ∧ (r = true ↔ ∀ p ∈ ps, bit bits p = true) := by
  intro ps
  induction ps with
  | nil => intro _; exact ⟨true, rfl, by simp⟩
  | cons p ps ih =>
    intro hlt
    have hp : p < bits.size := hlt p List.mem_cons_self
    obtain ⟨r, e, hr⟩ := ih (fun q hq => hlt q (List.mem_cons_of_mem _ hq))
    have hget : bits[p]? = some (bit bits p) := by simp [bit, hp]
    rw [queryPos, hget]
    cases hb : bit bits p with
    | false => exact ⟨false, rfl, by simp [hb]⟩
    | true => exact ⟨r, e, by simp [hb, hr]⟩

/-! ### `insert`, `query`, `union`, `clear` -/

theorem insert_spec (hash : List Nat → Nat) {s : St} (hm : 0 < s.m) (x : Nat) :
    ∃ s' r, insert hash s x = some (s', r) ∧ s'.k = s.k ∧ s'.m = s.m ∧
      (∀ j, bit s'.bits j = true ↔ bit s.bits j = true ∨ j ∈ posOf hash s.m s.k x) ∧
      (r = false ↔ ∀ p ∈ posOf hash s.m s.k x, bit s.bits p = true) := by
  obtain ⟨hp, _, hlt⟩ := posOf_spec hash hm s.k x
  obtain ⟨bits', was', e, hs, hb, hw⟩ := putAll_spec (posOf hash s.m s.k x) s.bits true hlt
  refine ⟨{ s with bits := bits' }, !was', ?_, rfl, hs, hb, ?_⟩
  · unfold insert; rw [hp]; simp only [e]
  · simp [hw]

theorem query_spec (hash : List Nat → Nat) {s : St} (hm : 0 < s.m) (x : Nat) :
    ∃ r, query hash s x = some r ∧ (r = true ↔ ∀ p ∈ posOf hash s.m s.k x, bit s.bits p = true) := by
  obtain ⟨hp, _, hlt⟩ := posOf_spec hash hm s.k x
  obtain ⟨r, e, hr⟩ := queryPos_spec s.bits (posOf hash s.m s.k x) hlt
  exact ⟨r, by unfold query; rw [hp]; exact e, hr⟩

theorem query_eq_true_iff (hash : List Nat → Nat) {s : St} (hm : 0 < s.m) (x : Nat) :
    query hash s x = some true ↔ ∀ p ∈ posOf hash s.m s.k x, bit s.bits p = true := by
  obtain ⟨r, e, hr⟩ := query_spec hash hm x
  rw [e, ← hr]; simp

theorem bit_zipWith_or (a b : Array Bool) (j : Nat) :
    bit (Array.zipWith (· || ·) a b) j = (bit a j && decide (j < b.size) || bit b j && decide (j < a.size)) := by
  unfold bit
  by_cases h1 : j < a.size <;> by_cases h2 : j < b.size <;> simp [h1, h2, Array.getElem?_zipWith]

theorem union_eq_some_iff {s o u : St} :
    union s o = some u ↔ (s.k = o.k ∧ s.m = o.m) ∧ u = ⟨s.k, Array.zipWith (· || ·) s.bits o.bits⟩ := by
  unfold union
  split <;> simp_all [eq_comm]

theorem union_isSome_iff (s o : St) : (union s o).isSome ↔ s.k = o.k ∧ s.m = o.m := by
  unfold union; split <;> simp_all

theorem union_spec {s o u : St} (h : union s o = some u) :
    u.k = s.k ∧ u.m = s.m ∧ ∀ j, bit u.bits j = (bit s.bits j || bit o.bits j) := by
  obtain ⟨⟨hk, hm⟩, rfl⟩ := union_eq_some_iff.mp h
  simp only [St.m] at hm
  refine ⟨rfl, by simp [St.m, hm], ?_⟩
  intro j
  simp only [bit_zipWith_or]
  by_cases hj : j < s.bits.size
  · have hj' : j < o.bits.size := hm ▸ hj
    simp [hj, hj']
  · have hj' : ¬ j < o.bits.size := hm ▸ hj
    simp [bit_of_ge (Nat.not_lt.mp hj), bit_of_ge (Nat.not_lt.mp hj')]

theorem clear_spec (s : St) : (clear s).k = s.k ∧ (clear s).m = s.m ∧ ∀ j, bit (clear s).bits j = false :=
  ⟨rfl, by simp [clear, St.m], fun j => by simp [clear, bit_replicate_false]⟩

end Pds.Bloom
