/-
Consequences of the `LossyCounter` invariant: membership facts and query soundness/completeness
over `ℚ`.
-/
import Pds.Proofs.LossyInv
import Mathlib.Tactic.Linarith
import Mathlib.Algebra.Order.Field.Basic
import Mathlib.Data.Rat.Floor
import Mathlib.Algebra.Order.Floor.Semiring
namespace Pds.Proofs.Lossy
open Pds.Lossy

/-- the counter after the stream `xs` -/
abbrev after (w : Nat) (xs : List Nat) : St := run ⟨w, 0, []⟩ xs

theorem tracked_entry {w : Nat} {xs : List Nat} {x : Nat} (h : x ∈ keys (after w xs).known) :
    ∃ e ∈ (after w xs).known, e.key = x := by
  obtain ⟨e, he, hk⟩ := List.mem_map.1 h
  exact ⟨e, he, hk⟩

theorem add_snd (s : St) (x : Nat) : (add s x).2 = true ↔ x ∉ keys s.known := by
  rw [add_eq]
  simp only [Option.isNone_iff_eq_none]
  exact bump_none_iff x s.known

theorem tracked_of_frequent {w : Nat} (xs : List Nat) (x : Nat) (h : xs.length < xs.count x * w) :
    x ∈ keys (after w xs).known := by
  apply Decidable.byContradiction
  intro hx
  have h1 := (inv_run w xs).untracked x hx
  have h2 : xs.length / w * w ≤ xs.length := Nat.div_mul_le_self _ _
  have h3 : xs.count x * w ≤ xs.length / w * w := Nat.mul_le_mul_right _ h1
  omega

theorem mem_queryBound {s : St} {bound x : Nat} :
    x ∈ queryBound s bound ↔ ∃ e ∈ s.known, bound ≤ e.f ∧ e.key = x := by
  simp [queryBound, List.mem_map, List.mem_filter, and_assoc]

/-- completeness of `query`, with the ceiling described by its characteristic inequality -/
theorem query_no_miss {w : Nat} (hw : 1 ≤ w) (xs : List Nat) (x : Nat) (thr ε : ℚ) (bound : Nat)
    (hε : 1 / (w : ℚ) ≤ ε)
    (hb : bound = 0 ∨ (bound : ℚ) - 1 < (thr - ε) * xs.length)
    (hthr : thr * xs.length ≤ xs.count x) (hfreq : xs.length < xs.count x * w) :
    x ∈ queryBound (after w xs) bound := by
  obtain ⟨e, he, hk⟩ := tracked_entry (tracked_of_frequent xs x hfreq)
  refine mem_queryBound.2 ⟨e, he, ?_, hk⟩
  rcases hb with hb | hb
  · omega
  · have ok := (inv_run w xs).entries e he
    subst hk
    have hwpos : (0 : ℚ) < w := by exact_mod_cast hw
    have h1 : (e.delta : ℚ) * w ≤ xs.length := by
      have := ok.delta_lt
      have h' : e.delta * w ≤ xs.length := by omega
      exact_mod_cast h'
    have h2 : (e.delta : ℚ) ≤ xs.length * (1 / (w : ℚ)) := by
      rw [mul_one_div, le_div_iff₀ hwpos]; exact h1
    have h3 : (xs.length : ℚ) * (1 / (w : ℚ)) ≤ xs.length * ε :=
      mul_le_mul_of_nonneg_left hε (Nat.cast_nonneg _)
    have h4 : ((xs.count e.key : Nat) : ℚ) ≤ e.f + e.delta := by exact_mod_cast ok.le_fd
    have h5 : (bound : ℚ) < (e.f : ℚ) + 1 := by linarith
    have h6 : bound < e.f + 1 := by exact_mod_cast h5
    omega

/-- soundness of `query` -/
theorem query_no_intruder {w : Nat} (xs : List Nat) (x : Nat) (a : ℚ) (bound : Nat)
    (hb : a ≤ bound) (hx : x ∈ queryBound (after w xs) bound) :
    a ≤ xs.count x := by
  obtain ⟨e, he, hf, hk⟩ := mem_queryBound.1 hx
  have ok := (inv_run w xs).entries e he
  subst hk
  have h1 : (bound : ℚ) ≤ e.f := by exact_mod_cast hf
  have h2 : (e.f : ℚ) ≤ xs.count e.key := by exact_mod_cast ok.f_le
  linarith

/-- `⌈a⌉₊ = max 0 ⌈a⌉` satisfies the characteristic inequalities used above -/
theorem natCeil_char (a : ℚ) : a ≤ (⌈a⌉₊ : ℚ) ∧ (⌈a⌉₊ = 0 ∨ ((⌈a⌉₊ : ℚ) - 1 < a)) := by
  refine ⟨Nat.le_ceil a, ?_⟩
  by_cases ha : 0 ≤ a
  · right
    have := Nat.ceil_lt_add_one ha
    linarith
  · left
    exact Nat.ceil_eq_zero.2 (le_of_lt (not_le.1 ha))

end Pds.Proofs.Lossy
