/-
Cuckoo filter proofs, part 4: `union`.
-/
import Pds.Proofs.CuckooState

namespace Pds.Cuckoo

/-- classes of the slots `rest` that sit at positions `counter, counter+1, …` of a table -/
def restAbs (hash : List Nat → Nat) (bs nb : Nat) : List Nat → Nat → Multiset Cls
  | [], _ => 0
  | f :: rest, counter => slotV hash nb f (counter / bs) + restAbs hash bs nb rest (counter + 1)

/-- walking over the whole table yields its abstraction: the bucket recomputed as `counter / bs`
is the bucket the fingerprint lives in -/
theorem restAbs_drop (hash : List Nat → Nat) (bs nb : Nat) (o : Array Nat) :
    ∀ (k c : Nat), c + k = o.size →
      restAbs hash bs nb (o.toList.drop c) c + sumTo (slot hash bs nb o) c = absT hash bs nb o := by
  intro k
  induction k with
  | zero =>
    intro c hc
    have : o.toList.drop c = [] := List.drop_eq_nil_of_le (by simp; omega)
    rw [this]
    have : c = o.size := by omega
    subst this
    simp [restAbs, absT]
  | succ k ih =>
    intro c hc
    have hlt : c < o.toList.length := by simp; omega
    rw [List.drop_eq_getElem_cons hlt]
    have hg : o.toList[c] = gt o c := by
      have h1 : c < o.size := by omega
      have := getElem?_eq_gt h1
      rw [← Array.getElem?_toList, List.getElem?_eq_getElem hlt] at this
      exact Option.some.inj this
    have := ih (c + 1) (by omega)
    simp only [restAbs, sumTo] at this ⊢
    rw [← this, hg]
    simp only [slot]
    rw [add_comm (slotV hash nb (gt o c) (c / bs)), add_assoc,
      add_comm (slotV hash nb (gt o c) (c / bs))]

theorem restAbs_toList (hash : List Nat → Nat) (bs nb : Nat) (o : Array Nat) :
    restAbs hash bs nb o.toList 0 = absT hash bs nb o := by
  have := restAbs_drop hash bs nb o o.size 0 (by omega)
  simpa [sumTo] using this

theorem unionLoop_spec {R : Type} (I : RngI R) (hI : RngOK I) (hash : List Nat → Nat) {bs nb : Nat}
    (kicks : Nat) :
    ∀ (rest : List Nat) (counter : Nat) {t : Array Nat} (n : Nat) (rng : R) (log : Log),
      TValid bs nb t → counter + rest.length ≤ nb * bs →
      ∃ st, unionLoop I hash bs nb kicks rest counter t n rng log = some st ∧
        TValid bs nb st.table ∧ restore st.table st.log = restore t log ∧
        (∀ b, st.res = .ok b →
          absT hash bs nb st.table = absT hash bs nb t + restAbs hash bs nb rest counter ∧
          st.n = n + (restAbs hash bs nb rest counter).card) := by
  intro rest
  induction rest with
  | nil =>
    intro counter t n rng log hv _
    exact ⟨_, rfl, hv, rfl, fun _ _ => ⟨by simp [restAbs], by simp [restAbs]⟩⟩
  | cons f rest ih =>
    intro counter t n rng log hv hlen
    simp only [List.length_cons] at hlen
    unfold unionLoop
    by_cases hf : f = 0
    · subst hf
      simp only [if_true]
      obtain ⟨st, h1, h2, h3, h4⟩ := ih (counter + 1) n rng log hv (by omega)
      refine ⟨st, h1, h2, h3, ?_⟩
      intro b hb
      simpa [restAbs, slotV_zero] using h4 b hb
    · simp only [hf, if_false]
      have hi1 : counter / bs < nb := div_lt_of_lt_mul' (by omega)
      have hi2 : counter / bs ^^^ bucketOf hash nb f < nb :=
        hv.xor_lt hi1 (bucketOf_lt hash hv.nb_pos _)
      obtain ⟨st1, hst1, hok⟩ := insertInternal_spec I hI hash kicks n rng log hv hf hi1 hi2
        (cls_alt _ _ _ _)
      rw [hst1]
      simp only
      cases hres : st1.res with
      | full =>
        simp only
        refine ⟨st1, rfl, hok.valid, hok.undo, ?_⟩
        intro b hb
        rw [hres] at hb
        cases hb
      | ok b1 =>
        simp only
        obtain ⟨k1, k2, k3⟩ := hok.ok b1 hres
        obtain ⟨st, h1, h2, h3, h4⟩ := ih (counter + 1) st1.n st1.rng st1.log hok.valid (by omega)
        refine ⟨st, h1, h2, by rw [h3, hok.undo], ?_⟩
        intro b hb
        obtain ⟨a1, a2⟩ := h4 b hb
        simp only [restAbs, slotV_ne _ _ hf, Multiset.card_add, Multiset.card_singleton]
        refine ⟨by rw [a1, k2, add_assoc], by rw [a2, k3]; omega⟩

theorem union_spec {R : Type} (I : RngI R) (hI : RngOK I) (hash : List Nat → Nat) (kicks : Nat)
    {s o : St R} (hs : Inv hash s) (ho : Inv hash o)
    (hp : s.bs = o.bs ∧ s.nb = o.nb ∧ s.lf = o.lf) :
    ∃ s' r, union I hash kicks s o = some (s', r) ∧ SameParams s s' ∧
      (∀ b, r = .ok b → b = true ∧ abs hash s' = abs hash s + abs hash o ∧ s'.n = s.n + o.n ∧
        Inv hash s') ∧
      (r = .full → s'.table = s.table ∧ s'.n = s.n) := by
  obtain ⟨hv, hn⟩ := hs
  obtain ⟨hvo, hno⟩ := ho
  have hlen : 0 + o.table.toList.length ≤ s.nb * s.bs := by
    simp only [Array.length_toList, hvo.size, hp.1, hp.2.1]; omega
  obtain ⟨st, hst, h2, h3, h4⟩ := unionLoop_spec I hI hash kicks o.table.toList 0 s.n s.rng []
    hv.tvalid hlen
  have hao : restAbs hash s.bs s.nb o.table.toList 0 = abs hash o := by
    rw [restAbs_toList]; unfold abs; rw [hp.1, hp.2.1]
  rw [hao] at h4
  unfold union
  rw [if_pos hp, hst]
  simp only
  cases hres : st.res with
  | ok b =>
    simp only
    refine ⟨_, _, rfl, ⟨rfl, rfl, rfl⟩, ?_, by intro h; cases h⟩
    intro b' hb'
    simp only [Res.ok.injEq] at hb'
    obtain ⟨a1, a2⟩ := h4 b hres
    refine ⟨hb'.symm, a1, by rw [hno]; exact a2, Valid.of_table hv ⟨rfl, rfl, rfl⟩ h2, ?_⟩
    show st.n = (absT hash s.bs s.nb st.table).card
    rw [a1, a2, Multiset.card_add, hn]; rfl
  | full =>
    simp only
    refine ⟨_, _, rfl, ⟨rfl, rfl, rfl⟩, (by intro b h; cases h), ?_⟩
    intro _
    refine ⟨?_, rfl⟩
    show restore st.table st.log = s.table
    rw [h3]; rfl

/-- `union` asserts equal parameters -/
theorem union_mismatch {R : Type} (I : RngI R) (hash : List Nat → Nat) (kicks : Nat) {s o : St R}
    (hp : ¬ (s.bs = o.bs ∧ s.nb = o.nb ∧ s.lf = o.lf)) : union I hash kicks s o = none := by
  unfold union; rw [if_neg hp]

end Pds.Cuckoo
