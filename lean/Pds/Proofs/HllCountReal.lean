import Mathlib.Analysis.SpecialFunctions.Log.Basic
import Mathlib.Analysis.SpecialFunctions.Sqrt
import Mathlib.Analysis.Complex.ExponentialBounds
import Mathlib.Tactic.Linarith
import Mathlib.Tactic.NormNum
/-!
Real-analysis facts about the HyperLogLog estimator formulas (C03 part D): over `ℝ`, i.e. about the
formulas the f64 code approximates, not about the f64 arithmetic itself.
-/
namespace Pds.HllCount.RealFacts
open Real

/-- linear counting of an all-zero sketch (`v = m`) is 0 -/
theorem linear_counting_empty (m : ℝ) (hm : 0 < m) : m * Real.log (m / m) = 0 := by
  rw [div_self (ne_of_gt hm), Real.log_one, mul_zero]

/-- With `m` registers of which `j` are non-zero (`v = m − j`), `0 < j`, `j (j+1) ≤ m`:
`j ≤ m·ln(m/(m−j)) < j + 1`. -/
theorem linear_counting_bounds (m j : ℝ) (hj : 0 < j) (hjm : j * (j + 1) ≤ m) :
    j ≤ m * Real.log (m / (m - j)) ∧ m * Real.log (m / (m - j)) < j + 1 := by
  have hm : 0 < m := by nlinarith
  have hmj : 0 < m - j := by nlinarith
  have hx : 0 < (m - j) / m := div_pos hmj hm
  have hy : 0 < m / (m - j) := div_pos hm hmj
  constructor
  · -- log ((m-j)/m) ≤ (m-j)/m - 1 = -j/m
    have h1 := Real.log_le_sub_one_of_pos hx
    have h2 : Real.log ((m - j) / m) = - Real.log (m / (m - j)) := by
      rw [← Real.log_inv, inv_div]
    have h3 : (m - j) / m - 1 = - (j / m) := by field_simp; ring
    rw [h2, h3] at h1
    have h4 : j / m ≤ Real.log (m / (m - j)) := by linarith
    calc j = m * (j / m) := by field_simp
      _ ≤ m * Real.log (m / (m - j)) := mul_le_mul_of_nonneg_left h4 hm.le
  · have hne : m / (m - j) ≠ 1 := by
      intro h
      rw [div_eq_one_iff_eq (ne_of_gt hmj)] at h
      linarith
    have h1 := Real.log_lt_sub_one_of_pos hy hne
    have h3 : m / (m - j) - 1 = j / (m - j) := by field_simp; ring
    rw [h3] at h1
    have h5 : m * (j / (m - j)) ≤ j + 1 := by
      rw [← mul_div_assoc, div_le_iff₀ hmj]
      nlinarith
    calc m * Real.log (m / (m - j)) < m * (j / (m - j)) := mul_lt_mul_of_pos_left h1 hm
      _ ≤ j + 1 := h5

/-- natural-number form: truncation to `usize` yields exactly `j` -/
theorem linear_counting_floor (m j : ℕ) (hj : 0 < j) (hjm : j * (j + 1) ≤ m) :
    ⌊(m : ℝ) * Real.log ((m : ℝ) / ((m : ℝ) - (j : ℝ)))⌋₊ = j := by
  have h := linear_counting_bounds (m : ℝ) (j : ℝ) (by exact_mod_cast hj) (by exact_mod_cast hjm)
  rw [Nat.floor_eq_iff (le_trans (Nat.cast_nonneg j) h.1)]
  exact h

/-- `relative_error`'s numerator: `1.038 < sqrt(3 ln 2 − 1) < 1.04` -/
theorem sqrt_three_log_two_sub_one :
    (1.038 : ℝ) < Real.sqrt (3 * Real.log 2 - 1) ∧ Real.sqrt (3 * Real.log 2 - 1) < 1.04 := by
  have h1 := Real.log_two_gt_d9
  have h2 := Real.log_two_lt_d9
  constructor
  · rw [Real.lt_sqrt (by norm_num)]
    norm_num at h1 ⊢
    linarith
  · rw [Real.sqrt_lt' (by norm_num)]
    norm_num at h2 ⊢
    linarith

theorem relative_error_pos (m : ℝ) (hm : 0 < m) :
    0 < Real.sqrt (3 * Real.log 2 - 1) / Real.sqrt m :=
  div_pos (lt_trans (by norm_num) sqrt_three_log_two_sub_one.1) (Real.sqrt_pos.2 hm)

theorem relative_error_bounds (m : ℝ) (hm : 0 < m) :
    1.038 / Real.sqrt m < Real.sqrt (3 * Real.log 2 - 1) / Real.sqrt m ∧
    Real.sqrt (3 * Real.log 2 - 1) / Real.sqrt m < 1.04 / Real.sqrt m := by
  have hs := Real.sqrt_pos.2 hm
  exact ⟨div_lt_div_of_pos_right sqrt_three_log_two_sub_one.1 hs,
    div_lt_div_of_pos_right sqrt_three_log_two_sub_one.2 hs⟩

end Pds.HllCount.RealFacts
