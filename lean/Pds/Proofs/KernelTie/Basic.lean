import Mathlib.Algebra.Order.Field.Basic
import Mathlib.Tactic.Ring
import Mathlib.Tactic.Linarith
import Mathlib.Tactic.FieldSimp
import Mathlib.Tactic.NormNum
import Pds.Model.KernelOps
import Pds.Model.TDigest
import Pds.Model.Sizing
/-!
# The translated kernels equal the hand-written model (common part)

`Pds/Generated/Kernels/*.lean` are rewritten by `tools/translate.py` from the *function bodies* in
/repo's current source on every run.  The files in this directory prove, for each translated
function, that it computes the same value as the corresponding function of the hand-written model —
over every linearly ordered field for the float kernels (the setting in which the property theorems
are proved), over `Nat` for the integer kernels.  A change of one of these functions in the source
changes the generated definition, and the theorem is re-checked against it: for these kernels the tie
between model and code is a theorem, not a sample.  One generated module and one tie module per group
of kernels, so that a change breaks only the tie of the properties that depend on that group.

The only assumption about the carrier is `LawfulKOps`: `n as f64` is the canonical embedding of ℕ.
The model's operation classes (`ScaleOps`, `Transc`) are instantiated from `KOps`, so the model is
compared with the translated code *on the same primitive operations* (ln, exp, sin, asin, log2, ceil, casts).
-/
set_option linter.unusedSectionVars false
set_option linter.unusedVariables false
namespace Pds.KernelTie
open Pds

/-- `n as f64` is the embedding of ℕ (exact in a field; at `Float` this is the rounding cast) -/
class LawfulKOps (α : Type) [KOps α] [NatCast α] : Prop where
  ofNat_eq : ∀ n : Nat, (KOps.ofNat n : α) = (n : α)

variable {α : Type} [Field α] [LinearOrder α] [IsStrictOrderedRing α] [KOps α] [LawfulKOps α]

/-- the model's transcendental operations, read off the same `KOps` the translated code uses -/
@[reducible] def scaleOps : TDigest.ScaleOps α :=
  ⟨KOps.pi, KOps.sin, KOps.asin, KOps.log, KOps.exp, KOps.isInf, KOps.ofNat⟩
@[reducible] def transc : Sizing.Transc α :=
  ⟨KOps.log, KOps.log2, KOps.exp, fun x => KOps.toNat x, fun x => KOps.toNat (KOps.ceil x)⟩

attribute [local instance] scaleOps transc

@[simp] theorem so_pi : (TDigest.ScaleOps.pi : α) = KOps.pi := rfl
@[simp] theorem so_sin (x : α) : TDigest.ScaleOps.sin x = KOps.sin x := rfl
@[simp] theorem so_asin (x : α) : TDigest.ScaleOps.asin x = KOps.asin x := rfl
@[simp] theorem so_log (x : α) : TDigest.ScaleOps.log x = KOps.log x := rfl
@[simp] theorem so_exp (x : α) : TDigest.ScaleOps.exp x = KOps.exp x := rfl
@[simp] theorem so_isInf (x : α) : TDigest.ScaleOps.isInf x = KOps.isInf x := rfl
@[simp] theorem so_ofNat (n : Nat) : (TDigest.ScaleOps.ofNat n : α) = KOps.ofNat n := rfl
@[simp] theorem tr_log (x : α) : Sizing.Transc.log x = KOps.log x := rfl
@[simp] theorem tr_log2 (x : α) : Sizing.Transc.log2 x = KOps.log2 x := rfl
@[simp] theorem tr_exp (x : α) : Sizing.Transc.exp x = KOps.exp x := rfl
@[simp] theorem tr_floorNat (x : α) : Sizing.Transc.floorNat x = KOps.toNat x := rfl
@[simp] theorem tr_ceilNat (x : α) : Sizing.Transc.ceilNat x = KOps.toNat (KOps.ceil x) := rfl

@[simp] theorem ofNat_eq (n : Nat) : (KOps.ofNat n : α) = (n : α) := LawfulKOps.ofNat_eq n

theorem fmin_eq (a b : α) : KOps.fmin a b = if b < a then b else a := by
  simp [KOps.fmin]
theorem fmax_eq (a b : α) : KOps.fmax a b = if a < b then b else a := by
  simp [KOps.fmax]

theorem lit_eq (m e : Nat) : (KOps.lit m e : α) = (m : α) / (10 : α) ^ e := by
  simp [KOps.lit]

/-- closing tactic of the tie proofs: tolerant of algebraically harmless rewrites of the source
(`δ / 2 * q` ↔ `δ * 0.5 * q`), which change the generated text but not the function -/
macro "tie_close" : tactic => `(tactic| (
  try simp only [lit_eq, ofNat_eq]
  first
  | rfl
  | (norm_num; done)
  | (norm_num; ring_nf; done)
  | (split_ifs <;> norm_num <;> ring_nf; done)
  | (split_ifs <;> field_simp <;> ring_nf; done)
  | (norm_num; split_ifs <;> ring_nf; done)))

end Pds.KernelTie
