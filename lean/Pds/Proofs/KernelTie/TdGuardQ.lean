import Pds.Proofs.KernelTie.Basic
import Pds.Generated.Kernels.TdGuardQ
/-! Tie by translation: the range assertion of the public `TDigest::quantile`. -/
namespace Pds.KernelTie
open Pds Pds.Generated.Kernels
variable {α : Type} [Field α] [LinearOrder α] [IsStrictOrderedRing α] [KOps α] [LawfulKOps α]

/-- the range assertion of the public `quantile` (`(0. ..=1.).contains(&q)`) is the model's guard `0 ≤ q ∧ q ≤ 1` -/
theorem td_quantile_guard_eq (q : α) :
    td_quantile_guard q = if 0 ≤ q ∧ q ≤ 1 then Flow.ret true else Flow.panic := by
  have h0 : (KOps.ofNat 0 : α) = 0 := by rw [LawfulKOps.ofNat_eq]; simp
  have h1 : (KOps.ofNat 1 : α) = 1 := by rw [LawfulKOps.ofNat_eq]; simp
  unfold td_quantile_guard
  by_cases a : 0 ≤ q <;> by_cases b : q ≤ 1 <;> simp [h0, h1, a, b]

/-- the NaN assertion of the public `cdf`: it panics exactly on a NaN argument (the driver glue of the model does the same
test before `TDigest.cdf` is asked) -/
theorem td_cdf_guard_eq (x : α) : td_cdf_guard x = if KOps.isNan x = true then Flow.panic else Flow.ret true := by
  unfold td_cdf_guard
  cases KOps.isNan x <;> simp

end Pds.KernelTie
