import Pds.Proofs.KernelTie.Basic
import Pds.Generated.Kernels.TdScale
set_option linter.unusedSectionVars false
set_option linter.unusedVariables false
namespace Pds.KernelTie
open Pds Pds.Generated.Kernels TDigest

variable {α : Type} [Field α] [LinearOrder α] [IsStrictOrderedRing α] [KOps α] [LawfulKOps α]
attribute [local instance] scaleOps transc

theorem clamp01 (q : α) :
    KOps.fmax (KOps.fmin q ((1 : Nat) : α)) ((0 : Nat) : α)
      = (let q := if 1 < q then 1 else q; if q < 0 then 0 else q) := by
  simp [fmin_eq, fmax_eq]

theorem k0_f (delta q : α) (n : Nat) : K0_f delta q n = (k0 delta).f q n := by
  simp only [K0_f, k0, ofNat_eq, clamp01]
  tie_close

theorem k0_f_inv (delta k : α) (n : Nat) : K0_f_inv delta k n = (k0 delta).fInv k n := by
  simp only [K0_f_inv, k0, ofNat_eq, fmin_eq, fmax_eq]
  tie_close

theorem k1_f (delta q : α) (n : Nat) : K1_f delta q n = (k1 delta).f q n := by
  simp only [K1_f, k1, so_pi, so_asin, ofNat_eq, fmin_eq, fmax_eq, clampTo, two]
  tie_close

theorem k1_f_inv (delta k : α) (n : Nat) : K1_f_inv delta k n = (k1 delta).fInv k n := by
  have h : (KOps.lit 25 2 : α) * delta = delta / four := by
    simp only [lit_eq, four, two]; norm_num; ring
  simp only [K1_f_inv, k1, so_pi, so_sin, ofNat_eq, fmin_eq, fmax_eq, clampTo, two, h]
  tie_close

theorem k2_x (delta : α) (n : Nat) : K2_x delta n = scaleX delta 24 n := by
  simp only [K2_x, scaleX, so_log, so_ofNat, ofNat_eq, four, two]
  tie_close
theorem k3_x (delta : α) (n : Nat) : K3_x delta n = scaleX delta 21 n := by
  simp only [K3_x, scaleX, so_log, so_ofNat, ofNat_eq, four, two]
  tie_close

theorem k2_f (delta q : α) (n : Nat) : K2_f delta q n = (k2 delta 24).f q n := by
  simp only [K2_f, k2, k2_x, so_log, ofNat_eq, fmin_eq, fmax_eq, clampTo]
  tie_close
theorem k2_f_inv (delta k : α) (n : Nat) : K2_f_inv delta k n = (k2 delta 24).fInv k n := by
  simp only [K2_f_inv, K2_z, k2, k2_x, so_exp, so_isInf, ofNat_eq]
  tie_close

theorem k3_f (delta q : α) (n : Nat) : K3_f delta q n = (k3 delta 21).f q n := by
  have h : (KOps.lit 5 1 : α) = half := by simp only [lit_eq, half]; norm_num
  simp only [K3_f, k3, k3_x, so_log, ofNat_eq, fmin_eq, fmax_eq, clampTo, two, h]
  tie_close
theorem k3_f_inv (delta k : α) (n : Nat) : K3_f_inv delta k n = (k3 delta 21).fInv k n := by
  simp only [K3_f_inv, k3, k3_x, so_exp, so_isInf, ofNat_eq, two]
  tie_close

/-- the scale functions as the digest uses them, built from the translated `f` / `f_inv` -/
def genK0 (delta : α) : ScaleFn α := ⟨K0_f delta, K0_f_inv delta⟩
def genK1 (delta : α) : ScaleFn α := ⟨K1_f delta, K1_f_inv delta⟩
def genK2 (delta : α) : ScaleFn α := ⟨K2_f delta, K2_f_inv delta⟩
def genK3 (delta : α) : ScaleFn α := ⟨K3_f delta, K3_f_inv delta⟩

theorem genK0_eq (delta : α) : genK0 delta = k0 delta := by
  unfold genK0; congr 1 <;> funext a n <;> simp only [k0_f, k0_f_inv] <;> rfl
theorem genK1_eq (delta : α) : genK1 delta = k1 delta := by
  unfold genK1; congr 1 <;> funext a n <;> simp only [k1_f, k1_f_inv] <;> rfl
theorem genK2_eq (delta : α) : genK2 delta = k2 delta 24 := by
  unfold genK2; congr 1 <;> funext a n <;> simp only [k2_f, k2_f_inv] <;> rfl
theorem genK3_eq (delta : α) : genK3 delta = k3 delta 21 := by
  unfold genK3; congr 1 <;> funext a n <;> simp only [k3_f, k3_f_inv] <;> rfl

end Pds.KernelTie
