import Pds.Proofs.KernelTie.Real
import Pds.Generated.Kernels.HllErr
namespace Pds.KernelTie
open Pds Pds.Generated.Kernels

/-- the translated `relative_error()` over ℝ is `sqrt(3 ln 2 − 1) / sqrt m` -/
theorem hll_relative_error_real (m : Nat) :
    (hll_relative_error m : ℝ) = Real.sqrt (3 * Real.log 2 - 1) / Real.sqrt (m : ℝ) := by
  simp [hll_relative_error, KOps.ofNat, KOps.log, KOps.sqrt]

/-- the translated `am()` over any ordered field, as exact decimals -/
theorem hll_am_eq {α : Type} [Field α] [LinearOrder α] [IsStrictOrderedRing α] [KOps α] [LawfulKOps α] (m : Nat) :
    (hll_am m : α) = if 128 ≤ m then (7213 / 10000 : α) / (1 + (1079 / 1000) / (m : α))
      else if 64 ≤ m then 709 / 1000 else if 32 ≤ m then 697 / 1000 else 673 / 1000 := by
  simp only [hll_am, lit_eq, ofNat_eq, ge_iff_le]
  split_ifs <;> norm_num

end Pds.KernelTie
