import Pds.Generated.Kernels.CtorQf
import Pds.Model.Quotient
/-! Tie by translation: the guard of `QuotientFilter::with_params_and_hash`. -/
namespace Pds.KernelTie
open Pds Pds.Generated.Kernels

theorem qf_with_params_eq (q r : Nat) :
    qf_with_params q r = if Quotient.paramsOk q r then Flow.ret (2 ^ q) else Flow.panic := by
  unfold qf_with_params Quotient.paramsOk
  by_cases h1 : 0 < r <;> by_cases h2 : r ≤ 64 <;> by_cases h3 : 0 < q <;> by_cases h4 : r + q ≤ 64 <;>
    simp [h1, h2, h3, h4, Nat.shiftLeft_eq]

end Pds.KernelTie
