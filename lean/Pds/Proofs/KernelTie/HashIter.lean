import Pds.Proofs.KernelTie.Basic
import Pds.Generated.Kernels.HashIter
import Pds.Model.HashIter
set_option linter.unusedSectionVars false
set_option linter.unusedVariables false
namespace Pds.KernelTie
open Pds Pds.Generated.Kernels 

variable {α : Type} [Field α] [LinearOrder α] [IsStrictOrderedRing α] [KOps α] [LawfulKOps α]
attribute [local instance] scaleOps transc

theorem hashiter_next_eq (hash : List Nat → Nat) (m k x i : Nat) (hm : m ≠ 0) (hi : i < k) :
    (HashIter.positions hash m k x).map (fun l => l[i]?) =
      some (some (hashiter_next i (hash [0, x] % m) (hash [1, x] % m) m (hash [i + 2] % m))) := by
  simp [HashIter.positions, hm, hashiter_next, hi]

/-- `HashIterBuilder::iter_for`: the two residues every probe position is computed from (`h_i(obj, i)` is the hasher fed
`i` and then the object: `hash [i, x]`); `% 0` (a builder with `m = 0`) is the panic the model records as `none` -/
theorem hashiter_iter_for_eq (hash : List Nat → Nat) (m x : Nat) :
    hashiter_iter_for m (fun x i => hash [i, x]) x = Flow.ret (hash [0, x] % m, hash [1, x] % m) := rfl

/-- hence the model's positions are `next` applied to exactly the pair the translated `iter_for` returns -/
theorem hashiter_positions_eq (hash : List Nat → Nat) (m k x i : Nat) (hm : m ≠ 0) (hi : i < k) :
    ∃ h1 h2, hashiter_iter_for m (fun x i => hash [i, x]) x = Flow.ret (h1, h2) ∧
      (HashIter.positions hash m k x).map (fun l => l[i]?) = some (some (hashiter_next i h1 h2 m (hash [i + 2] % m))) :=
  ⟨_, _, rfl, hashiter_next_eq hash m k x i hm hi⟩

end Pds.KernelTie
