import Pds.Proofs.KernelTie.Basic
import Pds.Generated.Kernels.HashIter
import Pds.Model.HashIter
set_option linter.unusedSectionVars false
set_option linter.unusedVariables false
namespace Pds.KernelTie
open Pds Pds.Generated.Kernels 

variable {α : Type} [Field α] [LinearOrder α] [IsStrictOrderedRing α] [KOps α] [LawfulKOps α]
attribute [local instance] scaleOps transc

theorem hashiter_next_eq (hash : List Nat → Nat) (m k x i : Nat) (hm : m ≠ 0) (hi : i < k) :
    (HashIter.positions hash m k x).map (fun l => l[i]?) =
      some (some (hashiter_next i (hash [0, x] % m) (hash [1, x] % m) m (hash [i + 2] % m))) := by
  simp [HashIter.positions, hm, hashiter_next, hi]

end Pds.KernelTie
