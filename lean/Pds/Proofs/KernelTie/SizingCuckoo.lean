import Pds.Proofs.KernelTie.Basic
import Pds.Generated.Kernels.SizingCuckoo
set_option linter.unusedSectionVars false
set_option linter.unusedVariables false
namespace Pds.KernelTie
open Pds Pds.Generated.Kernels Sizing

variable {α : Type} [Field α] [LinearOrder α] [IsStrictOrderedRing α] [KOps α] [LawfulKOps α]
attribute [local instance] scaleOps transc

theorem cuckoo_with_properties_eq (bs : Nat) (load p : α) (n : Nat) :
    cuckoo_with_properties bs load p n = cuckooParams bs load p n := by
  unfold cuckoo_with_properties cuckooParams
  by_cases hn : 1 ≤ n <;> by_cases h0 : (0 : α) < p <;> by_cases h1 : p < 1 <;>
    simp [hn, h0, h1, failure, bind, pure, KOps.nextPow2, nextPow2]

/-- the constants the two public wrappers pass on: `with_properties_4` = (4, 0.95), `with_properties_8` = (8, 0.98) -/
theorem cuckoo_props4_consts_eq (p : α) (n : Nat) : cuckoo_props4_consts p n = (4, (95 : α) / 100) := by
  simp only [cuckoo_props4_consts, lit_eq]; norm_num
theorem cuckoo_props8_consts_eq (p : α) (n : Nat) : cuckoo_props8_consts p n = (8, (98 : α) / 100) := by
  simp only [cuckoo_props8_consts, lit_eq]; norm_num

end Pds.KernelTie
