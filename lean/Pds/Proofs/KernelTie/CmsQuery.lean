import Pds.Proofs.KernelTie.CmsOps
namespace Pds.KernelTie
open Pds Pds.Generated.Kernels Pds.Cms

def comb (acc : Option Nat) (vs : List Nat) : Option Nat :=
  vs.foldl (fun acc v => some (match acc with | none => v | some a => min a v)) acc

theorem comb_some (a : Nat) (vs : List Nat) : comb (some a) vs = some (vs.foldl min a) := by
  induction vs generalizing a with
  | nil => rfl
  | cons v vs ih => simp only [comb, List.foldl_cons] at ih ⊢; exact ih (min a v)

theorem comb_none (vs : List Nat) : comb none vs = vs.min? := by
  cases vs with
  | nil => rfl
  | cons v vs =>
    have := comb_some v vs
    simp only [comb, List.foldl_cons] at this ⊢
    rw [this]; rfl

def cells (w i : Nat) (ps : List Nat) : List Nat :=
  List.map (fun (j, pos) => j * w + pos) ((List.range' i ps.length).zip ps)
def reads (s : St) (l : List Nat) : Option (List Nat) := List.mapM (fun x => s.table.toList[x]?) l

theorem cells_cons (w i p : Nat) (ps : List Nat) : cells w i (p :: ps) = (i * w + p) :: cells w (i + 1) ps := by
  simp [cells, List.range'_succ]
theorem reads_nil (s : St) : reads s [] = some [] := rfl
theorem reads_cons (s : St) (x : Nat) (l : List Nat) :
    reads s (x :: l) = match s.table[x]? with | none => none | some v => (reads s l).map (v :: ·) := by
  unfold reads
  rw [List.mapM_cons]
  cases h : s.table[x]? with
  | none => simp [h]
  | some v =>
    simp only [Array.getElem?_toList, h]
    cases List.mapM (fun x => s.table[x]?) l <;> rfl

theorem queryCols_go_eq (s : St) (i : Nat) (ps : List Nat) (acc : Option Nat) :
    queryCols.go s i ps acc = match reads s (cells s.w i ps) with | none => none | some vs => comb acc vs := by
  induction ps generalizing i acc with
  | nil => simp [queryCols.go, comb, cells, reads_nil]
  | cons p ps ih =>
    rw [cells_cons, reads_cons]
    simp only [queryCols.go]
    cases h : s.table[i * s.w + p]? with
    | none => rfl
    | some v =>
      simp only []
      rw [ih]
      cases reads s (cells s.w (i + 1) ps) with
      | none => rfl
      | some vs => cases acc <;> rfl

theorem cms_query_point_eq (s : St) (cols : List Nat) :
    cms_query_point s.w s.table.toList cols =
      match queryCols s cols with
      | none => Flow.panic
      | some v => Flow.ret v := by
  have hg := queryCols_go_eq s 0 cols none
  unfold cms_query_point queryCols
  rw [hg, List.range_eq_range']
  show (match (reads s (cells s.w 0 cols)).bind List.min? with | none => Flow.panic | some mn_ => Flow.ret mn_) = _
  cases reads s (cells s.w 0 cols) with
  | none => rfl
  | some vs => simp only [Option.bind_some, comb_none]

end Pds.KernelTie
