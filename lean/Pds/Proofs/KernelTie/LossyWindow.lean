import Pds.Generated.Kernels.LossyWindow
import Pds.Model.Lossy
namespace Pds.KernelTie
open Pds Pds.Generated.Kernels

/-- the window arithmetic of `LossyCounter::add` (is this add the last of its window; the current window
number) as translated is what the model's `add` uses -/
theorem lossy_add_window_eq (n w : Nat) :
    lossy_add_window n w = ((n + 1) % w = 0, (n + 1) / w + (if (n + 1) % w = 0 then 0 else 1)) := rfl

/-- … and the model's `add` is determined by them: `n` is incremented, a new element enters with
`delta = b_current − 1`, pruning happens exactly at a window end and keeps `f + delta > b_current` -/
theorem lossy_add_uses_window (s : Lossy.St) (x : Nat) :
    (Lossy.add s x).1.n = s.n + 1 ∧
    (Lossy.bump x s.known = none → (lossy_add_window s.n s.width).1 →
      (Lossy.add s x).1.known = (⟨x, 1, (lossy_add_window s.n s.width).2 - 1⟩ :: s.known).filter
        (fun e => e.f + e.delta > (lossy_add_window s.n s.width).2)) := by
  constructor
  · simp [Lossy.add]
  · intro hb hend
    simp only [lossy_add_window_eq] at hend ⊢
    simp [Lossy.add, hb, hend]

end Pds.KernelTie
