import Pds.Generated.Kernels.CtorHll
import Pds.Model.Hll
/-! Tie by translation: the guard of `HyperLogLog::with_registers_and_hash`. -/
namespace Pds.KernelTie
open Pds Pds.Generated.Kernels

theorem hll_with_registers_eq (b : Nat) (regs : Array Nat) :
    hll_with_registers b regs.toList =
      match Hll.withRegisters b regs with
      | none => Flow.panic
      | some s => Flow.ret s.regs.toList := by
  unfold hll_with_registers Hll.withRegisters
  by_cases h1 : 4 ≤ b <;> by_cases h2 : b ≤ 18 <;> by_cases h3 : regs.size = 2 ^ b <;>
    simp [h1, h2, h3, Nat.shiftLeft_eq, eq_comm]

end Pds.KernelTie
