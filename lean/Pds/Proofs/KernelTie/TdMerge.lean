import Pds.Proofs.KernelTie.TdCore
import Pds.Generated.Kernels.TdMerge
/-!
Tie by translation, flow mode: the fusion pass of `TDigestInner::merge` (everything after the sort: total
weight, the greedy loop with its `q_0` / `q_limit` bookkeeping, `fuse`, the result vector) as translated
from the source computes the model's `mergeLoop`, for every scale function and every sorted input.
The sort itself (`Vec::sort_by` with `partial_cmp` on the means = the model's stable `mergeSort`) is
outside the translated subset and stays tied by the correspondence.
-/
set_option linter.unusedSectionVars false
set_option linter.unusedVariables false
namespace Pds.KernelTie
open Pds Pds.Generated.Kernels TDigest

variable {α : Type} [Field α] [LinearOrder α] [IsStrictOrderedRing α] [KOps α] [LawfulKOps α]

theorem fuse_struct (a b : Centroid α) :
    (let p_ := Centroid_fuse a.sum a.count b.sum b.count; ({ sum := p_.1, count := p_.2 } : Centroid α)) = a.fuse b := rfl

theorem td_merge_loop_eq (sf : ScaleFn α) (n : Nat) (s : α) (rest : List (Centroid α)) (cs : List (Centroid α))
    (q0 ql : α) (res : List (Centroid α)) (cur : Centroid α) :
    ∃ q0' ql' res' cur', td_merge_pass_loop1 n sf s rest (cs, q0, ql, res, cur) = Flow.cont (cs, q0', ql', res', cur') ∧
      res' ++ [cur'] = mergeLoop sf n s rest cur q0 ql res.reverse := by
  induction rest generalizing q0 ql res cur with
  | nil => exact ⟨q0, ql, res, cur, by simp [td_merge_pass_loop1], by simp [mergeLoop]⟩
  | cons next rest ih =>
    by_cases h : q0 + (cur.count + next.count) / s ≤ ql
    · obtain ⟨q0', ql', res', cur', h1, h2⟩ := ih q0 ql res (cur.fuse next)
      refine ⟨q0', ql', res', cur', ?_, ?_⟩
      · simp only [td_merge_pass_loop1, h, decide_true, if_true, Flow.bind_cont, fuse_struct]
        exact h1
      · simp only [mergeLoop, h, if_true]; exact h2
    · obtain ⟨q0', ql', res', cur', h1, h2⟩ :=
        ih (q0 + cur.count / s) (sf.fInv (sf.f (q0 + cur.count / s) n + 1) n) (res ++ [cur]) next
      refine ⟨q0', ql', res', cur', ?_, ?_⟩
      · simp only [td_merge_pass_loop1, h, decide_false, Bool.false_eq_true, if_false, Flow.bind_cont, ofNat_eq, Nat.cast_one]
        exact h1
      · simp only [mergeLoop, h, if_false]
        simpa using h2

/-- the translated fusion pass = the model's: unchanged when the backlog is empty, panic on an empty
input (unreachable: a non-empty backlog makes `x` non-empty), else `mergeLoop` from the first centroid -/
theorem td_merge_pass_eq (sf : ScaleFn α) (n : Nat) (backlog cs x : List (Centroid α)) :
    td_merge_pass backlog n sf cs x =
      if backlog.isEmpty then Flow.ret cs else
      match x with
      | [] => Flow.panic
      | c0 :: rest => Flow.cont (mergeLoop sf n (totalCount x) rest c0 0 (sf.fInv (sf.f 0 n + 1) n) []) := by
  unfold td_merge_pass
  by_cases hb : backlog.isEmpty
  · simp [hb]
  · simp only [hb, Bool.false_eq_true, if_false, Flow.bind_cont]
    cases x with
    | nil => simp
    | cons c0 rest =>
      obtain ⟨q0', ql', res', cur', h1, h2⟩ :=
        td_merge_loop_eq sf n (totalCount (c0 :: rest)) rest cs 0 (sf.fInv (sf.f 0 n + 1) n) [] c0
      simp only [List.getElem?_cons_zero, List.tail_cons, ofNat_eq, Nat.cast_zero, Nat.cast_one]
      have hs : List.foldl (fun acc_ c => acc_ + c.count) (0 : α) (c0 :: rest) = totalCount (c0 :: rest) := rfl
      rw [hs, h1]
      simp only [Flow.bind_cont, h2, List.reverse_nil]

end Pds.KernelTie
