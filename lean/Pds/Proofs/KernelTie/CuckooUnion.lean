import Pds.Proofs.KernelTie.CuckooOps
import Pds.Proofs.CuckooBasic
/-!
Tie by translation, flow mode: `CuckooFilter::union` (the three `assert_eq!`s, the walk over the other
table with its incremental bucket counter, `insert_internal` per used slot, and on failure `restore_state`,
`n_elements = n_elements_backup`, `return Err`) as translated from the source is the model's `Cuckoo.union`.
Needs the invariant that every logged position is a slot of the table (`LogOk`, proved here for
`insertInternal`), because `IntVector::set` panics out of bounds while the model's `restore` does not.
-/
namespace Pds.KernelTie
open Pds Pds.Generated.Kernels Pds.Cuckoo

def LogOk (t : Array Nat) (lg : Log) : Prop := ∀ p ∈ lg, p.1 < t.size

theorem logOk_set {t : Array Nat} {lg : Log} (h : LogOk t lg) (x v : Nat) : LogOk (t.setIfInBounds x v) lg := by
  intro p hp; rw [Array.size_setIfInBounds]; exact h p hp

theorem writeToBucket_log {t : Array Nat} {bs i f : Nat} {lg : Log} {t' : Array Nat} {lg' : Log}
    (h : writeToBucket t bs i f lg = some (some (t', lg'))) (hl : LogOk t lg) :
    LogOk t' lg' ∧ t'.size = t.size := by
  unfold writeToBucket at h
  cases hf : find t 0 (i * bs) bs with
  | found x =>
    rw [hf] at h
    simp only [Option.some.injEq, Prod.mk.injEq] at h
    obtain ⟨rfl, rfl⟩ := h
    have hx := (find_found hf).2.2.1
    refine ⟨?_, by rw [Array.size_setIfInBounds]⟩
    intro p hp
    rw [Array.size_setIfInBounds]
    rcases List.mem_cons.mp hp with rfl | hp
    · exact hx
    · exact hl p hp
  | absent => rw [hf] at h; simp at h
  | oob => rw [hf] at h; simp at h

theorem kickLoop_log {R : Type} (I : RngI R) (hash : List Nat → Nat) (bs nb : Nat) :
    ∀ (kicks : Nat) (t : Array Nat) (n f i : Nat) (rng : R) (lg : Log) (st : Step R),
      kickLoop I hash bs nb kicks t n f i rng lg = some st → LogOk t lg →
      LogOk st.table st.log ∧ st.table.size = t.size := by
  intro kicks
  induction kicks with
  | zero =>
    intro t n f i rng lg st h hl
    simp only [kickLoop, Option.some.injEq] at h
    subst h; exact ⟨hl, rfl⟩
  | succ k ih =>
    intro t n f i rng lg st h hl
    rcases hb : I.below bs rng with ⟨e, rng1⟩
    simp only [kickLoop, hb] at h
    cases hx : t[i * bs + e]? with
    | none => rw [hx] at h; simp at h
    | some tmp =>
      rw [hx] at h
      have hlt : i * bs + e < t.size := by
        rcases Nat.lt_or_ge (i * bs + e) t.size with h' | h'
        · exact h'
        · rw [Array.getElem?_eq_none h'] at hx; exact absurd hx (by simp)
      have hl' : LogOk (t.setIfInBounds (i * bs + e) f) ((i * bs + e, tmp) :: lg) := by
        intro p hp
        rw [Array.size_setIfInBounds]
        rcases List.mem_cons.mp hp with rfl | hp
        · exact hlt
        · exact hl p hp
      simp only at h
      cases hw : writeToBucket (t.setIfInBounds (i * bs + e) f) bs (i ^^^ bucketOf hash nb tmp) tmp ((i * bs + e, tmp) :: lg) with
      | none => rw [hw] at h; simp at h
      | some r =>
        rw [hw] at h
        cases r with
        | some tl =>
          obtain ⟨t', lg'⟩ := tl
          simp only [Option.some.injEq] at h
          subst h
          have := writeToBucket_log hw hl'
          exact ⟨this.1, by rw [this.2, Array.size_setIfInBounds]⟩
        | none =>
          have := ih _ _ _ _ _ _ _ h hl'
          exact ⟨this.1, by rw [this.2, Array.size_setIfInBounds]⟩

theorem insertInternal_log {R : Type} (I : RngI R) (hash : List Nat → Nat) (bs nb kicks : Nat)
    (t : Array Nat) (n : Nat) (rng : R) (lg : Log) (f i1 i2 : Nat) (st : Step R)
    (h : insertInternal I hash bs nb kicks t n rng lg f i1 i2 = some st) (hl : LogOk t lg) :
    LogOk st.table st.log ∧ st.table.size = t.size := by
  unfold insertInternal at h
  cases h1 : writeToBucket t bs i1 f lg with
  | none => rw [h1] at h; simp at h
  | some r1 =>
    rw [h1] at h
    cases r1 with
    | some tl =>
      obtain ⟨t', lg'⟩ := tl
      simp only [Option.some.injEq] at h
      subst h
      exact writeToBucket_log h1 hl
    | none =>
      simp only at h
      cases h2 : writeToBucket t bs i2 f lg with
      | none => rw [h2] at h; simp at h
      | some r2 =>
        rw [h2] at h
        cases r2 with
        | some tl =>
          obtain ⟨t', lg'⟩ := tl
          simp only [Option.some.injEq] at h
          subst h
          exact writeToBucket_log h2 hl
        | none =>
          simp only at h
          exact kickLoop_log I hash bs nb kicks t n f _ _ lg st h hl

/-- the public `insert`, unconditionally (the log starts empty) -/
theorem cuckoo_insert_eq' {R : Type} (I : RngI R) (hash : List Nat → Nat) (kicks : Nat) (s : St R) (x : Nat) :
    cuckoo_insert R I (bucketOf hash s.nb) s.bs s.table.toList s.n s.rng (start hash s x).1 (start hash s x).2.1 (start hash s x).2.2 kicks =
      match Cuckoo.insert I hash kicks s x with
      | none => Flow.panic
      | some (s', r) => Flow.ret (resB r, (s'.table.toList, s'.n, s'.rng)) :=
  cuckoo_insert_eq I hash kicks s x (fun st hst =>
    (insertInternal_log I hash s.bs s.nb kicks s.table s.n s.rng [] _ _ _ st hst (by intro p hp; simp at hp)).1)

/-- the incremental bucket counter of `union` is `counter / bucketsize` -/
theorem bucket_counter {bs counter i1 : Nat} (hbs : 0 < bs) (hi : i1 = (counter - 1) / bs) :
    (if (decide (counter > 0) && decide (counter % bs = 0)) = true then i1 + 1 else i1) = counter / bs := by
  cases counter with
  | zero => simp at hi; simp [hi]
  | succ c =>
    simp only [Nat.add_sub_cancel] at hi
    rw [Nat.succ_div]
    by_cases hd : bs ∣ c + 1
    · have : (c + 1) % bs = 0 := Nat.eq_zero_of_dvd_of_lt (Nat.dvd_of_mod_eq_zero (Nat.mod_eq_zero_of_dvd hd) |> fun _ => by
          exact (Nat.dvd_iff_mod_eq_zero).mp hd |> fun h => by rw [h]; exact Nat.dvd_zero _) (Nat.mod_lt _ hbs)
      simp [hd, this, hi]
    · have : (c + 1) % bs ≠ 0 := fun h => hd (Nat.dvd_of_mod_eq_zero h)
      simp [hd, this, hi]

theorem ite_cont {ρ σ : Type} (c : Prop) [Decidable c] (a b : σ) :
    (if c then (Flow.cont a : Flow ρ σ) else Flow.cont b) = Flow.cont (if c then a else b) := by
  split <;> rfl

theorem cuckoo_union_loop_eq {R : Type} (I : RngI R) (hash : List Nat → Nat) (bs nb kicks n0 : Nat) (hbs : 0 < bs)
    (rest : List Nat) (counter : Nat) (t : Array Nat) (n : Nat) (rng : R) (lg : List (Nat × Nat)) (i1 : Nat)
    (hl : LogOk t lg.reverse) (hi : i1 = (counter - 1) / bs) :
    ∃ i1', cuckoo_union_loop1 R I (bucketOf hash nb) bs bs kicks n0 counter rest (t.toList, n, rng, lg, i1) =
      match unionLoop I hash bs nb kicks rest counter t n rng lg.reverse with
      | none => Flow.panic
      | some st =>
        match st.res with
        | .full => Flow.ret (false, ((restore st.table st.log).toList, n0, st.rng))
        | .ok _ => Flow.cont (st.table.toList, st.n, st.rng, st.log.reverse, i1') := by
  induction rest generalizing counter t n rng lg i1 with
  | nil => exact ⟨i1, by simp [cuckoo_union_loop1, unionLoop]⟩
  | cons f rest ih =>
    have hc := bucket_counter hbs hi
    have hstep : ∀ (T : List Nat) (N : Nat) (Rg : R) (L : List (Nat × Nat)),
        (if (decide (counter > 0) && decide (counter % bs = 0)) = true then
            (Flow.cont (T, N, Rg, L, i1 + 1) : Flow (Bool × List Nat × Nat × R) (List Nat × Nat × R × List (Nat × Nat) × Nat))
          else Flow.cont (T, N, Rg, L, i1)) = Flow.cont (T, N, Rg, L, counter / bs) := by
      intro T N Rg L
      rw [ite_cont]
      congr 1
      rw [← hc]
      split <;> rfl
    by_cases hf : f = 0
    · obtain ⟨i1', h'⟩ := ih (counter + 1) t n rng lg (counter / bs) hl (by simp)
      refine ⟨i1', ?_⟩
      simp only [cuckoo_union_loop1, unionLoop, hf, if_true, hstep, Flow.bind_cont, ne_eq, not_true_eq_false,
        decide_false, Bool.false_eq_true, if_false]
      exact h'
    · have hii := cuckoo_insert_internal_eq I hash bs nb kicks t n rng lg f (counter / bs) (counter / bs ^^^ bucketOf hash nb f)
      cases hst : insertInternal I hash bs nb kicks t n rng lg.reverse f (counter / bs) (counter / bs ^^^ bucketOf hash nb f) with
      | none =>
        refine ⟨i1, ?_⟩
        rw [hst] at hii
        simp only [cuckoo_union_loop1, unionLoop, hf, if_false, hstep, Flow.bind_cont, ne_eq, not_false_eq_true,
          decide_true, if_true, hii, hst]
        rfl
      | some st =>
        rw [hst] at hii
        have hlog := insertInternal_log I hash bs nb kicks t n rng lg.reverse f _ _ st hst hl
        cases hr : st.res with
        | full =>
          refine ⟨i1, ?_⟩
          have hrs := cuckoo_restore_state_eq st.log.reverse st.table (by intro p hp; exact hlog.1 p (by simpa using hp))
          simp only [List.reverse_reverse] at hrs
          simp only [cuckoo_union_loop1, unionLoop, hf, if_false, hstep, Flow.bind_cont, ne_eq, not_false_eq_true,
            decide_true, if_true, hii, hst, hr, resB, Bool.not_false, hrs]
          rfl
        | ok b =>
          obtain ⟨i1', h'⟩ := ih (counter + 1) st.table st.n st.rng st.log.reverse (counter / bs)
            (by simpa using hlog.1) (by simp)
          refine ⟨i1', ?_⟩
          simp only [List.reverse_reverse] at h'
          simp only [cuckoo_union_loop1, unionLoop, hf, if_false, hstep, Flow.bind_cont, ne_eq, not_false_eq_true,
            decide_true, if_true, hii, hst, hr, resB, Bool.not_true, Bool.false_eq_true]
          exact h'

/-- `CuckooFilter::union` as translated = the model's `union` (hasher equality, the fourth assertion, is the
caller's business on both sides) -/
theorem cuckoo_union_eq {R : Type} (I : RngI R) (hash : List Nat → Nat) (kicks : Nat) (s o : St R) (hbs : 0 < s.bs) :
    cuckoo_union R I (bucketOf hash s.nb) s.bs s.nb s.lf s.table.toList s.n s.rng o.table.toList o.bs o.nb o.lf kicks =
      match Cuckoo.union I hash kicks s o with
      | none => Flow.panic
      | some (s', r) => Flow.ret (resB r, (s'.table.toList, s'.n, s'.rng)) := by
  unfold cuckoo_union Cuckoo.union
  by_cases h1 : s.bs = o.bs
  · by_cases h2 : s.nb = o.nb
    · by_cases h3 : s.lf = o.lf
      · obtain ⟨i1', h'⟩ := cuckoo_union_loop_eq I hash s.bs s.nb kicks s.n hbs o.table.toList 0 s.table s.n s.rng [] 0
          (by intro p hp; simp at hp) (by simp)
        simp only [List.reverse_nil] at h'
        simp only [h1, h2, h3, decide_true, if_true, and_self]
        rw [h2] at h'
        rw [← h1, h']
        cases hu : unionLoop I hash s.bs o.nb kicks o.table.toList 0 s.table s.n s.rng [] with
        | none => rfl
        | some st =>
          cases hr : st.res with
          | full => simp [resB, hr, Flow.bind]
          | ok b => simp [resB, hr, Flow.bind]
      · simp [h1, h2, h3]
    · simp [h1, h2]
  · simp [h1]

end Pds.KernelTie
