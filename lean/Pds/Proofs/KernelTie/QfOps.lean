import Pds.Generated.Kernels.QfOps
import Pds.Model.Quotient
/-!
Tie by translation, flow mode with fuel loops: `QuotientFilter::scan` — the walk back to the cluster start
(`while self.is_shifted[b]`), the walk forward over runs and occupied buckets (`while b != quotient { loop … loop … }`),
the search within the run (`loop` with `break` and an early `return`) — as translated from the source computes the
model's `scan`, for every table size `N > 0`.  The three bit sets and the remainder vector are four lists
read off the model's `Vector Slot N`; `while`/`loop` take the fuel `len + 1` the model uses (out of fuel = the
real code would not terminate = panic on both sides).
-/
namespace Pds.KernelTie
open Pds Pds.Generated.Kernels Pds.Quotient

variable {N : Nat}

def occL (t : St N) : List Bool := List.ofFn fun i : Fin N => (t.get i).occ
def contL (t : St N) : List Bool := List.ofFn fun i : Fin N => (t.get i).cont
def shiftL (t : St N) : List Bool := List.ofFn fun i : Fin N => (t.get i).shift
def remL (t : St N) : List Nat := List.ofFn fun i : Fin N => (t.get i).rem

@[simp] theorem occL_len (t : St N) : (occL t).length = N := by simp [occL]
@[simp] theorem occL_get (t : St N) (p : Fin N) : (occL t)[p.val]? = some (t.get p).occ := by
  simp [occL, List.getElem?_ofFn, p.isLt]
@[simp] theorem contL_get (t : St N) (p : Fin N) : (contL t)[p.val]? = some (t.get p).cont := by
  simp [contL, List.getElem?_ofFn, p.isLt]
@[simp] theorem shiftL_get (t : St N) (p : Fin N) : (shiftL t)[p.val]? = some (t.get p).shift := by
  simp [shiftL, List.getElem?_ofFn, p.isLt]
@[simp] theorem remL_get (t : St N) (p : Fin N) : (remL t)[p.val]? = some (t.get p).rem := by
  simp [remL, List.getElem?_ofFn, p.isLt]

theorem ringIncr_eq (p : Fin N) : KOps.ringIncr N p.val = (incr p).val := by
  unfold KOps.ringIncr incr
  have := p.isLt
  by_cases h : p.val + 1 < N
  · have hp : p.val ≠ N - 1 := by omega
    rw [dif_pos h, if_neg hp]
  · have hp : p.val = N - 1 := by omega
    rw [dif_neg h, if_pos hp]

theorem ringDecr_eq (p : Fin N) : KOps.ringDecr N p.val = (decr p).val := by
  unfold KOps.ringDecr decr
  by_cases h : p.val = 0 <;> simp [h]

/-- `while self.is_shifted[b] { self.decr(&mut b) }` -/
theorem qf_walkBack_eq (t : St N) (fuel : Nat) (b : Fin N) :
    qf_scan_loop1 (occL t) (shiftL t) fuel b.val =
      match walkBack t fuel b with
      | none => Flow.panic
      | some b' => Flow.cont b'.val := by
  induction fuel generalizing b with
  | zero => simp [qf_scan_loop1, walkBack]
  | succ f ih =>
    simp only [qf_scan_loop1, walkBack, shiftL_get, occL_len]
    by_cases h : (t.get b).shift
    · simp only [h, if_true, Flow.bind_cont, ringDecr_eq]
      exact ih (decr b)
    · simp [h]

/-- `loop { self.incr(&mut s); if !self.is_continuation[s] { break; } }` -/
theorem qf_skipRun_eq (t : St N) (fuel : Nat) (b : Nat) (s : Fin N) :
    qf_scan_loop3 (occL t) (contL t) fuel (b, s.val) =
      match skipRun t fuel s with
      | none => Flow.panic
      | some s' => Flow.cont (b, s'.val) := by
  induction fuel generalizing s with
  | zero => simp [qf_scan_loop3, skipRun]
  | succ f ih =>
    simp only [qf_scan_loop3, skipRun, occL_len, ringIncr_eq, contL_get]
    by_cases h : (t.get (incr s)).cont
    · simp only [h, Bool.not_true, Bool.false_eq_true, if_false, if_true]
      exact ih (incr s)
    · simp [h]

/-- `loop { self.incr(&mut b); if self.is_occupied[b] || ((b == quotient) && on_insert) { break; } }` -/
theorem qf_nextOcc_eq (t : St N) (q : Fin N) (onInsert : Bool) (fuel : Nat) (b : Fin N) (s : Nat) :
    qf_scan_loop4 (occL t) q.val onInsert fuel (b.val, s) =
      match nextOcc t q onInsert fuel b with
      | none => Flow.panic
      | some b' => Flow.cont (b'.val, s) := by
  induction fuel generalizing b with
  | zero => simp [qf_scan_loop4, nextOcc]
  | succ f ih =>
    have hbeq : decide ((incr b).val = q.val) = (incr b == q) := by
      by_cases h : incr b = q
      · simp [h]
      · have : (incr b).val ≠ q.val := fun hv => h (Fin.ext hv)
        simp [h, this]
    simp only [qf_scan_loop4, nextOcc, occL_len, ringIncr_eq, occL_get, hbeq]
    by_cases h : ((t.get (incr b)).occ || (incr b == q && onInsert)) = true
    · simp [h]
    · simp only [h, Bool.false_eq_true, if_false]
      exact ih (incr b)

/-- `while b != quotient { skip the run; find the next occupied bucket }` — on exit `b = quotient` -/
theorem qf_walkFwd_eq (t : St N) (q : Fin N) (onInsert : Bool) (fuel : Nat) (b s : Fin N) :
    qf_scan_loop2 (occL t) (contL t) q.val onInsert fuel (b.val, s.val) =
      match walkFwd t q onInsert fuel b s with
      | none => Flow.panic
      | some s' => Flow.cont (q.val, s'.val) := by
  induction fuel generalizing b s with
  | zero => simp [qf_scan_loop2, walkFwd]
  | succ f ih =>
    by_cases hb : b = q
    · subst hb; simp [qf_scan_loop2, walkFwd]
    · have hne : b.val ≠ q.val := fun hv => hb (Fin.ext hv)
      have hbeq : (b == q) = false := by simp [hb]
      simp only [qf_scan_loop2, walkFwd, ne_eq, hne, not_false_eq_true, decide_true, if_true, hbeq, Bool.false_eq_true,
        if_false, occL_len, qf_skipRun_eq]
      cases hs : skipRun t (N + 1) s with
      | none => simp [Flow.bind]
      | some s' =>
        simp only [Flow.bind_cont, qf_nextOcc_eq]
        cases hn : nextOcc t q onInsert (N + 1) b with
        | none => simp [Flow.bind]
        | some b' =>
          simp only [Flow.bind_cont]
          exact ih b' s'

/-- the search within the run: `loop { r = remainders[s]; if r == remainder { return found }; if r > remainder
{ break }; incr(s); if !is_continuation[s] { break } }` -/
theorem qf_searchRun_eq (t : St N) (r s0 : Nat) (fuel : Nat) (b : Nat) (s : Fin N) :
    qf_scan_loop5 (occL t) (contL t) (remL t) r s0 fuel (b, s.val) =
      match searchRun t r fuel s with
      | none => Flow.panic
      | some (true, p) => Flow.ret ⟨true, p.val, some s0⟩
      | some (false, p) => Flow.cont (b, p.val) := by
  induction fuel generalizing s with
  | zero => simp [qf_scan_loop5, searchRun]
  | succ f ih =>
    simp only [qf_scan_loop5, searchRun, remL_get, occL_len]
    by_cases h1 : (t.get s).rem = r
    · simp [h1, Flow.bind]
    · by_cases h2 : (t.get s).rem > r
      · simp [h1, h2, Flow.bind]
      · simp only [h1, h2, decide_false, Bool.false_eq_true, if_false, Flow.bind_cont, ringIncr_eq, contL_get]
        by_cases h3 : (t.get (incr s)).cont
        · simp only [h3, Bool.not_true, Bool.false_eq_true, if_false, if_true]
          exact ih (incr s)
        · simp [h3]

/-- `QuotientFilter::scan` as translated = the model's `scan` -/
theorem qf_scan_eq (t : St N) (q : Fin N) (r : Nat) (onInsert : Bool) :
    qf_scan (occL t) (contL t) (shiftL t) (remL t) q.val r onInsert =
      match scan t q r onInsert with
      | none => Flow.panic
      | some sr => Flow.ret ⟨sr.present, sr.position.val, sr.startOfRun.map (·.val)⟩ := by
  simp only [qf_scan, scan, occL_get, occL_len]
  by_cases h0 : (!(t.get q).occ && !onInsert) = true
  · simp [h0]
  · simp only [h0, Bool.false_eq_true, if_false, Flow.bind_cont, qf_walkBack_eq]
    cases hb : walkBack t (N + 1) q with
    | none => simp [Flow.bind]
    | some b =>
      simp only [Flow.bind_cont, qf_walkFwd_eq]
      cases hf : walkFwd t q onInsert (N + 1) b b with
      | none => simp [Flow.bind]
      | some s =>
        simp only [Flow.bind_cont]
        by_cases hr : (t.get q).occ
        · simp only [hr, if_true, qf_searchRun_eq]
          cases hsr : searchRun t r (N + 1) s with
          | none => simp [Flow.bind]
          | some res =>
            obtain ⟨pr, p⟩ := res
            cases pr <;> simp [Flow.bind]
        · simp [hr, Flow.bind]

end Pds.KernelTie
