import Pds.Generated.Kernels.QfOps
import Pds.Proofs.KernelTie.QfViews
/-!
Tie by translation, flow mode with fuel loops: `QuotientFilter::scan` — the walk back to the cluster start
(`while self.is_shifted[b]`), the walk forward over runs and occupied buckets (`while b != quotient { loop … loop … }`),
the search within the run (`loop` with `break` and an early `return`) — as translated from the source computes the
model's `scan`, for every table size `N > 0`.  The three bit sets and the remainder vector are four lists
read off the model's `Vector Slot N`; `while`/`loop` take the fuel `len + 1` the model uses (out of fuel = the
real code would not terminate = panic on both sides).
-/
set_option linter.unusedSimpArgs false
namespace Pds.KernelTie
open Pds Pds.Generated.Kernels Pds.Quotient

variable {N : Nat}

theorem ringIncr_eq (p : Fin N) : KOps.ringIncr N p.val = (incr p).val := by
  unfold KOps.ringIncr incr
  have := p.isLt
  by_cases h : p.val + 1 < N
  · have hp : p.val ≠ N - 1 := by omega
    rw [dif_pos h, if_neg hp]
  · have hp : p.val = N - 1 := by omega
    rw [dif_neg h, if_pos hp]

theorem ringDecr_eq (p : Fin N) : KOps.ringDecr N p.val = (decr p).val := by
  unfold KOps.ringDecr decr
  by_cases h : p.val = 0 <;> simp [h]

/-- `while self.is_shifted[b] { self.decr(&mut b) }` -/
theorem qf_walkBack_eq (t : St N) (fuel : Nat) (b : Fin N) :
    qf_scan_loop1 (occL t) (shiftL t) fuel b.val =
      match walkBack t fuel b with
      | none => Flow.panic
      | some b' => Flow.cont b'.val := by
  induction fuel generalizing b with
  | zero => simp [qf_scan_loop1, walkBack]
  | succ f ih =>
    simp only [qf_scan_loop1, walkBack, shiftL_get, occL_len]
    by_cases h : (t.get b).shift
    · simp only [h, if_true, Flow.bind_cont, ringDecr_eq]
      exact ih (decr b)
    · simp [h]

/-- `loop { self.incr(&mut s); if !self.is_continuation[s] { break; } }` -/
theorem qf_skipRun_eq (t : St N) (fuel : Nat) (b : Nat) (s : Fin N) :
    qf_scan_loop3 (occL t) (contL t) fuel (b, s.val) =
      match skipRun t fuel s with
      | none => Flow.panic
      | some s' => Flow.cont (b, s'.val) := by
  induction fuel generalizing s with
  | zero => simp [qf_scan_loop3, skipRun]
  | succ f ih =>
    simp only [qf_scan_loop3, skipRun, occL_len, ringIncr_eq, contL_get]
    by_cases h : (t.get (incr s)).cont
    · simp only [h, Bool.not_true, Bool.false_eq_true, if_false, if_true]
      exact ih (incr s)
    · simp [h]

/-- `loop { self.incr(&mut b); if self.is_occupied[b] || ((b == quotient) && on_insert) { break; } }` -/
theorem qf_nextOcc_eq (t : St N) (q : Fin N) (onInsert : Bool) (fuel : Nat) (b : Fin N) (s : Nat) :
    qf_scan_loop4 (occL t) q.val onInsert fuel (b.val, s) =
      match nextOcc t q onInsert fuel b with
      | none => Flow.panic
      | some b' => Flow.cont (b'.val, s) := by
  induction fuel generalizing b with
  | zero => simp [qf_scan_loop4, nextOcc]
  | succ f ih =>
    have hbeq : decide ((incr b).val = q.val) = (incr b == q) := by
      by_cases h : incr b = q
      · simp [h]
      · have : (incr b).val ≠ q.val := fun hv => h (Fin.ext hv)
        simp [h, this]
    simp only [qf_scan_loop4, nextOcc, occL_len, ringIncr_eq, occL_get, hbeq]
    by_cases h : ((t.get (incr b)).occ || (incr b == q && onInsert)) = true
    · simp [h]
    · simp only [h, Bool.false_eq_true, if_false]
      exact ih (incr b)

/-- `while b != quotient { skip the run; find the next occupied bucket }` — on exit `b = quotient` -/
theorem qf_walkFwd_eq (t : St N) (q : Fin N) (onInsert : Bool) (fuel : Nat) (b s : Fin N) :
    qf_scan_loop2 (occL t) (contL t) q.val onInsert fuel (b.val, s.val) =
      match walkFwd t q onInsert fuel b s with
      | none => Flow.panic
      | some s' => Flow.cont (q.val, s'.val) := by
  induction fuel generalizing b s with
  | zero => simp [qf_scan_loop2, walkFwd]
  | succ f ih =>
    by_cases hb : b = q
    · subst hb; simp [qf_scan_loop2, walkFwd]
    · have hne : b.val ≠ q.val := fun hv => hb (Fin.ext hv)
      have hbeq : (b == q) = false := by simp [hb]
      simp only [qf_scan_loop2, walkFwd, ne_eq, hne, not_false_eq_true, decide_true, if_true, hbeq, Bool.false_eq_true,
        if_false, occL_len, qf_skipRun_eq]
      cases hs : skipRun t (N + 1) s with
      | none => simp [Flow.bind]
      | some s' =>
        simp only [Flow.bind_cont, qf_nextOcc_eq]
        cases hn : nextOcc t q onInsert (N + 1) b with
        | none => simp [Flow.bind]
        | some b' =>
          simp only [Flow.bind_cont]
          exact ih b' s'

/-- the search within the run: `loop { r = remainders[s]; if r == remainder { return found }; if r > remainder
{ break }; incr(s); if !is_continuation[s] { break } }` -/
theorem qf_searchRun_eq (t : St N) (r s0 : Nat) (fuel : Nat) (b : Nat) (s : Fin N) :
    qf_scan_loop5 (occL t) (contL t) (remL t) r s0 fuel (b, s.val) =
      match searchRun t r fuel s with
      | none => Flow.panic
      | some (true, p) => Flow.ret ⟨true, p.val, some s0⟩
      | some (false, p) => Flow.cont (b, p.val) := by
  induction fuel generalizing s with
  | zero => simp [qf_scan_loop5, searchRun]
  | succ f ih =>
    simp only [qf_scan_loop5, searchRun, remL_get, occL_len]
    by_cases h1 : (t.get s).rem = r
    · simp [h1, Flow.bind]
    · by_cases h2 : (t.get s).rem > r
      · simp [h1, h2, Flow.bind]
      · simp only [h1, h2, decide_false, Bool.false_eq_true, if_false, Flow.bind_cont, ringIncr_eq, contL_get]
        by_cases h3 : (t.get (incr s)).cont
        · simp only [h3, Bool.not_true, Bool.false_eq_true, if_false, if_true]
          exact ih (incr s)
        · simp [h3]

/-- `QuotientFilter::scan` as translated = the model's `scan` -/
theorem qf_scan_eq (t : St N) (q : Fin N) (r : Nat) (onInsert : Bool) :
    qf_scan (occL t) (contL t) (shiftL t) (remL t) q.val r onInsert =
      match scan t q r onInsert with
      | none => Flow.panic
      | some sr => Flow.ret ⟨sr.present, sr.position.val, sr.startOfRun.map (·.val)⟩ := by
  simp only [qf_scan, scan, occL_get, occL_len]
  by_cases h0 : (!(t.get q).occ && !onInsert) = true
  · simp [h0]
  · simp only [h0, Bool.false_eq_true, if_false, Flow.bind_cont, qf_walkBack_eq]
    cases hb : walkBack t (N + 1) q with
    | none => simp [Flow.bind]
    | some b =>
      simp only [Flow.bind_cont, qf_walkFwd_eq]
      cases hf : walkFwd t q onInsert (N + 1) b b with
      | none => simp [Flow.bind]
      | some s =>
        simp only [Flow.bind_cont]
        by_cases hr : (t.get q).occ
        · simp only [hr, if_true, Bool.not_true, Bool.not_false, Bool.false_eq_true, if_false, Flow.bind_cont, qf_searchRun_eq]
          cases hsr : searchRun t r (N + 1) s with
          | none => simp [Flow.bind, qf_searchRun_eq, hsr]
          | some res =>
            obtain ⟨pr, p⟩ := res
            cases pr <;> simp [Flow.bind, qf_searchRun_eq, hsr]
        · simp [hr, Flow.bind]

/-! ### `insert_internal`: slot updates on the four lists -/

theorem get_set (t : St N) (p j : Fin N) (s : Slot) : (t.set p s).get j = if j = p then s else t.get j := by
  unfold St.get St.set
  by_cases h : j = p
  · subst h; simp
  · have : p.val ≠ j.val := fun hv => h (Fin.ext hv.symm)
    simp [h, Vector.getElem_set, this]

theorem listOf_set {β : Type} (f : Slot → β) (t : St N) (p : Fin N) (s : Slot) :
    (List.ofFn fun i : Fin N => f ((t.set p s).get i)) = (List.ofFn fun i : Fin N => f (t.get i)).set p.val (f s) := by
  apply List.ext_getElem?
  intro i
  by_cases hi : i < N
  · rw [List.getElem?_set]
    by_cases hp : p.val = i
    · subst hp
      simp [List.getElem?_ofFn, get_set]
    · have : (⟨i, hi⟩ : Fin N) ≠ p := fun h => hp (by rw [← h])
      simp [List.getElem?_ofFn, hi, hp, get_set, this]
  · rw [List.getElem?_set]
    have : p.val ≠ i := fun h => hi (h ▸ p.isLt)
    simp [List.getElem?_ofFn, hi, this]

theorem occL_set (t : St N) (p : Fin N) (s : Slot) : occL (t.set p s) = (occL t).set p.val s.occ := listOf_set (·.occ) t p s
theorem contL_set (t : St N) (p : Fin N) (s : Slot) : contL (t.set p s) = (contL t).set p.val s.cont := listOf_set (·.cont) t p s
theorem shiftL_set (t : St N) (p : Fin N) (s : Slot) : shiftL (t.set p s) = (shiftL t).set p.val s.shift := listOf_set (·.shift) t p s
theorem remL_set (t : St N) (p : Fin N) (s : Slot) : remL (t.set p s) = (remL t).set p.val s.rem := listOf_set (·.rem) t p s

theorem set_self_of_get {β : Type} (l : List β) (i : Nat) (v : β) (h : l[i]? = some v) : l.set i v = l := by
  apply List.ext_getElem?
  intro j
  rw [List.getElem?_set]
  by_cases hj : i = j
  · subst hj
    have : i < l.length := by
      rcases Nat.lt_or_ge i l.length with h' | h'
      · exact h'
      · rw [List.getElem?_eq_none h'] at h; exact absurd h (by simp)
    rw [if_pos this, h]
    simp
  · simp [hj]

@[simp] theorem contL_len (t : St N) : (contL t).length = N := by simp [contL]
@[simp] theorem shiftL_len (t : St N) : (shiftL t).length = N := by simp [shiftL]
@[simp] theorem remL_len (t : St N) : (remL t).length = N := by simp [remL]

/-- the swap chain `while current_used { … }` -/
theorem qf_swapLoop_eq (start : Fin N) (fuel : Nat) (t : St N) (n : Nat) (pos : Fin N) (cc : Bool) (cr : Nat) (cu : Bool) :
    ∃ cc' cr' cu' pos', qf_insert_internal_loop1 start.val fuel (occL t, contL t, shiftL t, remL t, n, cc, cr, cu, pos.val) =
      match swapLoop t start fuel pos cc cr cu with
      | none => Flow.panic
      | some t' => Flow.cont (occL t', contL t', shiftL t', remL t', n, cc', cr', cu', pos') := by
  induction fuel generalizing t pos cc cr cu with
  | zero => exact ⟨cc, cr, cu, pos.val, by simp [qf_insert_internal_loop1, swapLoop]⟩
  | succ f ih =>
    by_cases hcu : cu = true
    · subst hcu
      let nx := t.get (incr pos)
      let t' := t.set (incr pos) { nx with shift := true, cont := cc, rem := cr }
      have hocc : occL t' = occL t := by
        rw [occL_set]; exact set_self_of_get _ _ _ (occL_get t (incr pos))
      by_cases hs : incr pos = start
      · refine ⟨cc, cr, true, pos.val, ?_⟩
        have hsv : (incr pos).val = start.val := by rw [hs]
        simp [qf_insert_internal_loop1, swapLoop, ringIncr_eq, hs, Flow.bind]
      · have hsv : (incr pos).val ≠ start.val := fun hv => hs (Fin.ext hv)
        obtain ⟨cc', cr', cu', pos', h'⟩ := ih t' (incr pos) nx.cont nx.rem (nx.occ || nx.shift)
        refine ⟨cc', cr', cu', pos', ?_⟩
        have hbeq : (incr pos == start) = false := by simp [hs]
        simp only [qf_insert_internal_loop1, swapLoop, if_true, occL_len, ringIncr_eq, contL_get, remL_get, occL_get,
          shiftL_get, shiftL_len, contL_len, remL_len, (incr pos).isLt, hsv, decide_false, Bool.false_eq_true, if_false,
          Flow.bind_cont, Bool.not_true, hbeq]
        rw [← shiftL_set t (incr pos) { nx with shift := true, cont := cc, rem := cr },
          ← contL_set t (incr pos) { nx with shift := true, cont := cc, rem := cr },
          ← remL_set t (incr pos) { nx with shift := true, cont := cc, rem := cr }]
        rw [← hocc]
        exact h'
    · have hcu' : cu = false := by simpa using hcu
      subst hcu'
      exact ⟨cc, cr, false, pos.val, by simp [qf_insert_internal_loop1, swapLoop]⟩

/-- `Ok(false)` ↦ 0, `Ok(true)` ↦ 1, `Err(QuotientFilterFull)` ↦ 2 -/
def qfRes : Quotient.Res → Nat
  | .ok false => 0
  | .ok true => 1
  | .full => 2

theorem atStart_eq (sr : ScanResult N) :
    (match sr.startOfRun.map (·.val) with | some st_ => decide (st_ = sr.position.val) | none => false) = sr.atStartOfRun := by
  unfold ScanResult.atStartOfRun
  cases sr.startOfRun with
  | none => rfl
  | some s0 =>
    by_cases h : s0 = sr.position
    · simp [h]
    · have : s0.val ≠ sr.position.val := fun hv => h (Fin.ext hv)
      simp [h, this]

theorem hasRun_eq (sr : ScanResult N) : (sr.startOfRun.map (·.val)).isSome = sr.hasRun := by
  unfold ScanResult.hasRun; cases sr.startOfRun <;> rfl

/-- what follows the conditional writes: the swap chain, `is_occupied.set(quotient, true)`, `n_elements += 1` -/
theorem qf_insert_tail (t1 : St N) (start q : Fin N) (cc : Bool) (cr : Nat) (cu : Bool) (n : Nat) :
    ((qf_insert_internal_loop1 start.val (N + 1) (occL t1, contL t1, shiftL t1, remL t1, n, cc, cr, cu, start.val)).bind
        fun x => if q.val < x.fst.length then
            (Flow.ret (1, x.fst.set q.val true, x.2.fst, x.2.2.fst, x.2.2.2.fst, x.2.2.2.2.fst + 1) :
              Flow (Nat × List Bool × List Bool × List Bool × List Nat × Nat) (List Bool × List Bool × List Bool × List Nat × Nat))
          else Flow.panic) =
      match swapLoop t1 start (N + 1) start cc cr cu with
      | none => Flow.panic
      | some t2 =>
        Flow.ret (1, occL (t2.set q { t2.get q with occ := true }), contL (t2.set q { t2.get q with occ := true }),
          shiftL (t2.set q { t2.get q with occ := true }), remL (t2.set q { t2.get q with occ := true }), n + 1) := by
  obtain ⟨cc', cr', cu', pos', hl⟩ := qf_swapLoop_eq start (N + 1) t1 n start cc cr cu
  rw [hl]
  cases hsw : swapLoop t1 start (N + 1) start cc cr cu with
  | none => simp [Flow.bind]
  | some t2 =>
    have hc2 : contL (t2.set q { t2.get q with occ := true }) = contL t2 := by
      rw [contL_set]; exact set_self_of_get _ _ _ (contL_get t2 q)
    have hs2 : shiftL (t2.set q { t2.get q with occ := true }) = shiftL t2 := by
      rw [shiftL_set]; exact set_self_of_get _ _ _ (shiftL_get t2 q)
    have hr2 : remL (t2.set q { t2.get q with occ := true }) = remL t2 := by
      rw [remL_set]; exact set_self_of_get _ _ _ (remL_get t2 q)
    simp [Flow.bind, occL_set, hc2, hs2, hr2]

theorem swapLoop_n (start : Fin N) : ∀ (fuel : Nat) (t : St N) (pos : Fin N) (cc : Bool) (cr : Nat) (cu : Bool) (t' : St N),
    swapLoop t start fuel pos cc cr cu = some t' → t'.n = t.n := by
  intro fuel
  induction fuel with
  | zero => intro t pos cc cr cu t' h; simp [swapLoop] at h
  | succ f ih =>
    intro t pos cc cr cu t' h
    unfold swapLoop at h
    by_cases hcu : cu = true
    · subst hcu
      simp only [Bool.not_true, Bool.false_eq_true, if_false] at h
      by_cases hs : (incr pos == start) = true
      · simp [hs] at h
      · simp only [hs, if_false] at h
        have := ih _ _ _ _ _ _ h
        simpa [St.set] using this
    · have : cu = false := by simpa using hcu
      subst this
      simp only [Bool.not_false, if_true, Option.some.injEq] at h
      rw [h]

/-- the conditional writes have produced the lists of `t.set pos s3` -/
theorem qf_insert_leaf (t : St N) (pos q : Fin N) (r n : Nat) (cc : Bool) (cr : Nat) (cu : Bool) (s3 : Slot)
    (hocc : s3.occ = (t.get pos).occ) (hrem : s3.rem = r) (X Y : List Bool)
    (hX : X = (contL t).set pos.val s3.cont) (hY : Y = (shiftL t).set pos.val s3.shift) :
    ((qf_insert_internal_loop1 pos.val (N + 1) (occL t, X, Y, (remL t).set pos.val r, n, cc, cr, cu, pos.val)).bind
        fun x => if q.val < x.fst.length then
            (Flow.ret (1, x.fst.set q.val true, x.2.fst, x.2.2.fst, x.2.2.2.fst, x.2.2.2.2.fst + 1) :
              Flow (Nat × List Bool × List Bool × List Bool × List Nat × Nat) (List Bool × List Bool × List Bool × List Nat × Nat))
          else Flow.panic) =
      match swapLoop (t.set pos s3) pos (N + 1) pos cc cr cu with
      | none => Flow.panic
      | some t2 =>
        Flow.ret (1, occL (t2.set q { t2.get q with occ := true }), contL (t2.set q { t2.get q with occ := true }),
          shiftL (t2.set q { t2.get q with occ := true }), remL (t2.set q { t2.get q with occ := true }), n + 1) := by
  subst hX hY
  have h1 : occL t = occL (t.set pos s3) := by
    rw [occL_set, hocc]; exact (set_self_of_get _ _ _ (occL_get t pos)).symm
  rw [← qf_insert_tail, ← h1, contL_set, shiftL_set, remL_set, hrem]

/-- `QuotientFilter::insert_internal` as translated = the model's `insertInternal` -/
theorem qf_insert_internal_eq (t : St N) (q : Fin N) (r : Nat) :
    qf_insert_internal (occL t) (contL t) (shiftL t) (remL t) t.n q.val r =
      match insertInternal t q r with
      | none => Flow.panic
      | some (t', res) => Flow.ret (qfRes res, (occL t', contL t', shiftL t', remL t', t'.n)) := by
  unfold qf_insert_internal insertInternal
  rw [qf_scan_eq]
  cases hsc : scan t q r true with
  | none => rfl
  | some sr =>
    obtain ⟨pres, pos, sor⟩ := sr
    simp only
    cases pres with
    | true => simp [qfRes, Flow.bind]
    | false =>
      simp only [Bool.false_eq_true, if_false, Flow.bind_cont, occL_len]
      by_cases hn : t.n = N
      · simp [hn, qfRes, Flow.bind]
      · simp only [hn, decide_false, Bool.false_eq_true, if_false, Flow.bind_cont, contL_get, remL_get, occL_get, shiftL_get,
          remL_len, contL_len, shiftL_len, pos.isLt, if_true]
        have hne : decide (pos.val ≠ q.val) = (pos != q) := by
          by_cases h : pos = q
          · simp [h]
          · have : pos.val ≠ q.val := fun hv => h (Fin.ext hv)
            simp [h, this]
        have e1 : (occL t).set pos.val (t.get pos).occ = occL t := set_self_of_get _ _ _ (occL_get t pos)
        have e2 : (contL t).set pos.val (t.get pos).cont = contL t := set_self_of_get _ _ _ (contL_get t pos)
        have e3 : (shiftL t).set pos.val (t.get pos).shift = shiftL t := set_self_of_get _ _ _ (shiftL_get t pos)
        cases sor with
        | none =>
          by_cases hq : pos = q
          · subst hq
            simp only [ScanResult.hasRun, ScanResult.atStartOfRun, Option.map_none, Option.isSome_none, Bool.false_and,
              Bool.false_eq_true, if_false, Flow.bind_cont, ne_eq, not_true_eq_false, decide_false, bne_self_eq_false,
              Bool.or_false, occL_len]
            rw [qf_insert_leaf t pos pos r t.n _ _ _
              { occ := (t.get pos).occ, cont := (t.get pos).cont, shift := (t.get pos).shift, rem := r } rfl rfl
              (contL t) (shiftL t) e2.symm e3.symm]
            cases hsw : swapLoop (t.set pos { occ := (t.get pos).occ, cont := (t.get pos).cont, shift := (t.get pos).shift, rem := r })
              pos (N + 1) pos (t.get pos).cont (t.get pos).rem ((t.get pos).occ || (t.get pos).shift) with
            | none => rfl
            | some t2 =>
              have hn2 : t2.n = t.n := by simpa [St.set] using swapLoop_n _ _ _ _ _ _ _ _ hsw
              simp only [qfRes, St.set, hn2]
              rfl
          · have hqv : pos.val ≠ q.val := fun hv => hq (Fin.ext hv)
            have hbne : (pos != q) = true := by simp [hq]
            simp only [ScanResult.hasRun, ScanResult.atStartOfRun, Option.map_none, Option.map_some, Option.isSome_none, Option.isSome_some,
              Bool.false_and, Bool.true_and, Bool.false_eq_true, if_false, if_true, Flow.bind_cont, ne_eq, not_true_eq_false, not_false_eq_true,
              decide_false, decide_true, bne_self_eq_false, Bool.or_false, Bool.or_true, Bool.not_true, Bool.not_false, occL_len, shiftL_len,
              contL_len, pos.isLt, hqv, hbne]
            rw [qf_insert_leaf t pos q r t.n _ _ _
              { occ := (t.get pos).occ, cont := (t.get pos).cont, shift := true, rem := r } rfl rfl
              (contL t) ((shiftL t).set pos.val true) e2.symm rfl]
            cases hsw : swapLoop (t.set pos { occ := (t.get pos).occ, cont := (t.get pos).cont, shift := true, rem := r })
              pos (N + 1) pos (t.get pos).cont (t.get pos).rem ((t.get pos).occ || (t.get pos).shift) with
            | none => rfl
            | some t2 =>
              have hn2 : t2.n = t.n := by simpa [St.set] using swapLoop_n _ _ _ _ _ _ _ _ hsw
              simp only [qfRes, St.set, hn2]
              rfl
        | some s0 =>
          by_cases hs0 : s0 = pos
          · have hsv : s0.val = pos.val := by rw [hs0]
            have hsb : (s0 == pos) = true := by simp [hs0]
            by_cases hq : pos = q
            · subst hq
              simp only [ScanResult.hasRun, ScanResult.atStartOfRun, Option.map_none, Option.map_some, Option.isSome_none, Option.isSome_some,
                Bool.false_and, Bool.true_and, Bool.false_eq_true, if_false, if_true, Flow.bind_cont, ne_eq, not_true_eq_false, not_false_eq_true,
                decide_false, decide_true, bne_self_eq_false, beq_self_eq_true, Bool.or_false, Bool.or_true, Bool.not_true, Bool.not_false, occL_len, shiftL_len,
                contL_len, pos.isLt, eq_self, hsv, hsb]
              rw [qf_insert_leaf t pos pos r t.n _ _ _
                { occ := (t.get pos).occ, cont := (t.get pos).cont, shift := (t.get pos).shift, rem := r } rfl rfl
                (contL t) (shiftL t) e2.symm e3.symm]
              cases hsw : swapLoop (t.set pos { occ := (t.get pos).occ, cont := (t.get pos).cont, shift := (t.get pos).shift, rem := r })
                pos (N + 1) pos true (t.get pos).rem ((t.get pos).occ || (t.get pos).shift) with
              | none => rfl
              | some t2 =>
                have hn2 : t2.n = t.n := by simpa [St.set] using swapLoop_n _ _ _ _ _ _ _ _ hsw
                simp only [qfRes, St.set, hn2]
                rfl
            · have hqv : pos.val ≠ q.val := fun hv => hq (Fin.ext hv)
              have hbne : (pos != q) = true := by simp [hq]
              simp only [ScanResult.hasRun, ScanResult.atStartOfRun, Option.map_none, Option.map_some, Option.isSome_none, Option.isSome_some,
                Bool.false_and, Bool.true_and, Bool.false_eq_true, if_false, if_true, Flow.bind_cont, ne_eq, not_true_eq_false, not_false_eq_true,
                decide_false, decide_true, bne_self_eq_false, beq_self_eq_true, Bool.or_false, Bool.or_true, Bool.not_true, Bool.not_false, occL_len, shiftL_len,
                contL_len, pos.isLt, eq_self, hsv, hsb, hqv, hbne]
              rw [qf_insert_leaf t pos q r t.n _ _ _
                { occ := (t.get pos).occ, cont := (t.get pos).cont, shift := true, rem := r } rfl rfl
                (contL t) ((shiftL t).set pos.val true) e2.symm rfl]
              cases hsw : swapLoop (t.set pos { occ := (t.get pos).occ, cont := (t.get pos).cont, shift := true, rem := r })
                pos (N + 1) pos true (t.get pos).rem ((t.get pos).occ || (t.get pos).shift) with
              | none => rfl
              | some t2 =>
                have hn2 : t2.n = t.n := by simpa [St.set] using swapLoop_n _ _ _ _ _ _ _ _ hsw
                simp only [qfRes, St.set, hn2]
                rfl
          · have hsv : s0.val ≠ pos.val := fun hv => hs0 (Fin.ext hv)
            have hsb : (s0 == pos) = false := by simp [hs0]
            by_cases hq : pos = q
            · subst hq
              simp only [ScanResult.hasRun, ScanResult.atStartOfRun, Option.map_none, Option.map_some, Option.isSome_none, Option.isSome_some,
                Bool.false_and, Bool.true_and, Bool.false_eq_true, if_false, if_true, Flow.bind_cont, ne_eq, not_true_eq_false, not_false_eq_true,
                decide_false, decide_true, bne_self_eq_false, beq_self_eq_true, Bool.or_false, Bool.or_true, Bool.not_true, Bool.not_false, occL_len, shiftL_len,
                contL_len, pos.isLt, eq_self, hsv, hsb]
              rw [qf_insert_leaf t pos pos r t.n _ _ _
                { occ := (t.get pos).occ, cont := true, shift := (t.get pos).shift, rem := r } rfl rfl
                ((contL t).set pos.val true) (shiftL t) rfl e3.symm]
              cases hsw : swapLoop (t.set pos { occ := (t.get pos).occ, cont := true, shift := (t.get pos).shift, rem := r })
                pos (N + 1) pos (t.get pos).cont (t.get pos).rem ((t.get pos).occ || (t.get pos).shift) with
              | none => rfl
              | some t2 =>
                have hn2 : t2.n = t.n := by simpa [St.set] using swapLoop_n _ _ _ _ _ _ _ _ hsw
                simp only [qfRes, St.set, hn2]
                rfl
            · have hqv : pos.val ≠ q.val := fun hv => hq (Fin.ext hv)
              have hbne : (pos != q) = true := by simp [hq]
              simp only [ScanResult.hasRun, ScanResult.atStartOfRun, Option.map_none, Option.map_some, Option.isSome_none, Option.isSome_some,
                Bool.false_and, Bool.true_and, Bool.false_eq_true, if_false, if_true, Flow.bind_cont, ne_eq, not_true_eq_false, not_false_eq_true,
                decide_false, decide_true, bne_self_eq_false, beq_self_eq_true, Bool.or_false, Bool.or_true, Bool.not_true, Bool.not_false, occL_len, shiftL_len,
                contL_len, pos.isLt, eq_self, hsv, hsb, hqv, hbne]
              rw [qf_insert_leaf t pos q r t.n _ _ _
                { occ := (t.get pos).occ, cont := true, shift := true, rem := r } rfl rfl
                ((contL t).set pos.val true) ((shiftL t).set pos.val true) rfl rfl]
              cases hsw : swapLoop (t.set pos { occ := (t.get pos).occ, cont := true, shift := true, rem := r })
                pos (N + 1) pos (t.get pos).cont (t.get pos).rem ((t.get pos).occ || (t.get pos).shift) with
              | none => rfl
              | some t2 =>
                have hn2 : t2.n = t.n := by simpa [St.set] using swapLoop_n _ _ _ _ _ _ _ _ hsw
                simp only [qfRes, St.set, hn2]
                rfl

/-- the public `query` and `insert`, given the element's (quotient, remainder) = `calc_quotient_remainder` -/
theorem qf_query_eq (t : St N) (q : Fin N) (r : Nat) :
    qf_query (occL t) (contL t) (shiftL t) (remL t) q.val r =
      match scan t q r false with
      | none => Flow.panic
      | some sr => Flow.ret sr.present := by
  simp only [qf_query, qf_scan_eq]
  cases scan t q r false <;> rfl

theorem qf_insert_eq (t : St N) (q : Fin N) (r : Nat) :
    qf_insert (occL t) (contL t) (shiftL t) (remL t) t.n q.val r =
      match insertInternal t q r with
      | none => Flow.panic
      | some (t', res) => Flow.ret (qfRes res, (occL t', contL t', shiftL t', remL t', t'.n)) := by
  simp only [qf_insert, qf_insert_internal_eq]
  cases insertInternal t q r with
  | none => rfl
  | some p => rfl

end Pds.KernelTie
