import Pds.Proofs.KernelTie.QfOps
/-!
Tie by translation: `QuotientFilter::union` — the full backup, the walk over the other filter's slots, for every
cluster start an `insert_internal` and then the walk over the cluster's shifted slots with the queue of
pending quotients (`VecDeque`: `push_back` / `pop_front().unwrap()`), and on `Err` the restoration of the backup —
as translated from the source is the model's `Quotient.union`.
-/
set_option linter.unusedSimpArgs false
namespace Pds.KernelTie
open Pds Pds.Generated.Kernels Pds.Quotient

variable {N : Nat}

theorem qfRes_eq_two (res : Quotient.Res) : (qfRes res = 2) ↔ res = .full := by
  cases res with
  | ok b => cases b <;> simp [qfRes]
  | full => simp [qfRes]

/-- the walk over one cluster: `while (j != i) && other.is_shifted[j] { … }` -/
theorem qf_unionCluster_eq (o t0 : St N) (n0 : Nat) (i : Fin N) (rr : Nat) (fuel : Nat) (j quo : Fin N)
    (queue : List (Fin N)) (t : St N) :
    ∃ q' qu' j', qf_union_loop2 (occL o) (contL o) (shiftL o) (remL o) (occL t0) (contL t0) (shiftL t0) (remL t0) n0 i.val rr fuel
        (occL t, contL t, shiftL t, remL t, t.n, quo.val, queue.map (·.val), j.val) =
      match unionCluster o i fuel j quo queue t with
      | none => Flow.panic
      | some (_, .full) => Flow.ret (2, (occL t0, contL t0, shiftL t0, remL t0, n0))
      | some (t', .ok _) => Flow.cont (occL t', contL t', shiftL t', remL t', t'.n, q', qu', j') := by
  induction fuel generalizing j quo queue t with
  | zero => exact ⟨0, [], 0, by simp [qf_union_loop2, unionCluster]⟩
  | succ f ih =>
    have hji : decide (j.val ≠ i.val) = (j != i) := by
      by_cases h : j = i
      · simp [h]
      · have : j.val ≠ i.val := fun hv => h (Fin.ext hv)
        simp [h, this]
    by_cases hc : (j != i && (o.get j).shift) = true
    · -- inside the cluster
      have step : ∀ (q2 : Fin N) (qu2 : List (Fin N)),
          ∃ q' qu' j',
            Flow.bind (match qf_insert_internal (occL t) (contL t) (shiftL t) (remL t) t.n q2.val (o.get j).rem with
              | Flow.ret (t9_, (a, b, c, d, e)) =>
                Flow.bind
                  ((if decide (t9_ = 2) = true then
                      (Flow.ret (2, (occL t0, contL t0, shiftL t0, remL t0, n0)) :
                        Flow (Nat × List Bool × List Bool × List Bool × List Nat × Nat)
                          (List Bool × List Bool × List Bool × List Nat × Nat × Nat × List Nat × Nat))
                    else Flow.cont (a, b, c, d, e, q2.val, qu2.map (·.val), j.val)))
                  (fun x => (Flow.cont (x.1, x.2.1, x.2.2.1, x.2.2.2.1, x.2.2.2.2.1, x.2.2.2.2.2.1, x.2.2.2.2.2.2.1,
                      KOps.ringIncr x.1.length x.2.2.2.2.2.2.2) :
                        Flow (Nat × List Bool × List Bool × List Bool × List Nat × Nat)
                          (List Bool × List Bool × List Bool × List Nat × Nat × Nat × List Nat × Nat)))
              | _ => Flow.panic)
              (fun st' => qf_union_loop2 (occL o) (contL o) (shiftL o) (remL o) (occL t0) (contL t0) (shiftL t0) (remL t0) n0 i.val rr f st') =
            match (match insertInternal t q2 (o.get j).rem with
                | none => none
                | some (t', .full) => some (t', Quotient.Res.full)
                | some (t', .ok _) => unionCluster o i f (incr j) q2 qu2 t') with
            | none => Flow.panic
            | some (_, .full) => Flow.ret (2, (occL t0, contL t0, shiftL t0, remL t0, n0))
            | some (t', .ok _) => Flow.cont (occL t', contL t', shiftL t', remL t', t'.n, q', qu', j') := by
        intro q2 qu2
        rw [qf_insert_internal_eq]
        cases hii : insertInternal t q2 (o.get j).rem with
        | none => exact ⟨0, [], 0, by simp [Flow.bind]⟩
        | some p =>
          obtain ⟨t', res⟩ := p
          cases res with
          | full => exact ⟨0, [], 0, by simp [qfRes, Flow.bind]⟩
          | ok b =>
            obtain ⟨q', qu', j', h'⟩ := ih (incr j) q2 qu2 t'
            refine ⟨q', qu', j', ?_⟩
            have hne2 : qfRes (Quotient.Res.ok b) ≠ 2 := by cases b <;> simp [qfRes]
            simp only [hne2, decide_false, Bool.false_eq_true, if_false, Flow.bind_cont, occL_len, ringIncr_eq]
            exact h'
      -- the queue after `push_back`, the quotient after `pop_front`
      have hcond : (decide (j.val ≠ i.val) && (o.get j).shift) = true := by rw [hji]; exact hc
      cases hocc : (o.get j).occ <;> cases hcont : (o.get j).cont
      all_goals
        simp only [qf_union_loop2, unionCluster, shiftL_get, occL_get, contL_get, remL_get, hcond, hc, hocc, hcont, if_true,
          Bool.false_eq_true, if_false, Flow.bind_cont, Bool.not_false, Bool.not_true, List.map_append, List.map_cons, List.map_nil]
      · -- not occupied, start of a run: pop
        cases queue with
        | nil => exact ⟨0, [], 0, by simp [Flow.bind]⟩
        | cons qh qt =>
          obtain ⟨q', qu', j', hs⟩ := step qh qt
          exact ⟨q', qu', j', (by simp only [List.map_append, List.map_cons, List.map_nil, Flow.bind_cont, remL_get] at hs ⊢; exact hs)⟩
      · obtain ⟨q', qu', j', hs⟩ := step quo queue
        exact ⟨q', qu', j', hs⟩
      · cases hq : queue ++ [j] with
        | nil => exact absurd hq (by simp)
        | cons qh qt =>
          obtain ⟨q', qu', j', hs⟩ := step qh qt
          refine ⟨q', qu', j', ?_⟩
          have hm : List.map (fun x : Fin N => x.val) queue ++ [j.val] = qh.val :: List.map (fun x : Fin N => x.val) qt := by
            have := congrArg (List.map (fun x : Fin N => x.val)) hq
            simpa using this
          simp only [hm]
          exact (by simp only [List.map_append, List.map_cons, List.map_nil, Flow.bind_cont, remL_get] at hs ⊢; exact hs)
      · obtain ⟨q', qu', j', hs⟩ := step quo (queue ++ [j])
        refine ⟨q', qu', j', ?_⟩
        exact (by simp only [List.map_append, List.map_cons, List.map_nil, Flow.bind_cont, remL_get] at hs ⊢; exact hs)
    · refine ⟨quo.val, queue.map (·.val), j.val, ?_⟩
      have hc' : (decide (j.val ≠ i.val) && (o.get j).shift) = false := by rw [hji]; simpa using hc
      have hc'' : (j != i && (o.get j).shift) = false := by simpa using hc
      simp only [qf_union_loop2, unionCluster, shiftL_get, hc', hc'', Bool.false_eq_true, if_false]

/-- the walk over the other filter's slots: `for i in 0..other.is_occupied.len() { … }` -/
theorem qf_unionLoop_eq (o t0 : St N) (n0 : Nat) (l : List (Fin N)) (t : St N) :
    qf_union_loop1 (occL o) (contL o) (shiftL o) (remL o) (occL t0) (contL t0) (shiftL t0) (remL t0) n0 (l.map (·.val))
        (occL t, contL t, shiftL t, remL t, t.n) =
      match unionLoop o l t with
      | none => Flow.panic
      | some (_, .full) => Flow.ret (2, (occL t0, contL t0, shiftL t0, remL t0, n0))
      | some (t', .ok _) => Flow.cont (occL t', contL t', shiftL t', remL t', t'.n) := by
  induction l generalizing t with
  | nil => simp [qf_union_loop1, unionLoop]
  | cons i rest ih =>
    simp only [List.map_cons, qf_union_loop1, unionLoop, occL_get, shiftL_get, remL_get]
    by_cases hc : ((o.get i).occ && !(o.get i).shift) = true
    · simp only [hc, if_true]
      rw [qf_insert_internal_eq]
      cases hii : insertInternal t i (o.get i).rem with
      | none => simp [Flow.bind]
      | some p =>
        obtain ⟨t', res⟩ := p
        cases res with
        | full => simp [qfRes, Flow.bind]
        | ok b =>
          have hne2 : qfRes (Quotient.Res.ok b) ≠ 2 := by cases b <;> simp [qfRes]
          obtain ⟨q', qu', j', hcl⟩ := qf_unionCluster_eq o t0 n0 i (qfRes (Quotient.Res.ok b)) (N + 1) (incr i) i [] t'
          simp only [hne2, decide_false, Bool.false_eq_true, if_false, Flow.bind_cont, occL_len, ringIncr_eq, List.map_nil] at hcl ⊢
          rw [hcl]
          cases hcu : unionCluster o i (N + 1) (incr i) i [] t' with
          | none => simp [Flow.bind]
          | some p2 =>
            obtain ⟨t'', res2⟩ := p2
            cases res2 with
            | full => simp [Flow.bind]
            | ok b2 => simp only [Flow.bind_cont]; exact ih t''
    · have hc' : ((o.get i).occ && !(o.get i).shift) = false := by simpa using hc
      simp only [hc', Bool.false_eq_true, if_false, Flow.bind_cont]
      exact ih t

theorem finRange_map_val (n : Nat) : (List.finRange n).map (·.val) = List.range' 0 n := by
  apply List.ext_getElem
  · simp
  · intro i h1 h2
    simp

/-- **`QuotientFilter::union`** (between filters of the same geometry; the two `assert_eq!` on the bit widths pass) is
the model's `union`: `Err(Full)` = 2 with the complete backup restored, `Ok(())` = 1 with the merged table. -/
theorem qf_union_eq (qb rb : Nat) (t o : St N) :
    qf_union qb rb (occL t) (contL t) (shiftL t) (remL t) t.n qb rb (occL o) (contL o) (shiftL o) (remL o) =
      match Quotient.union t o with
      | none => Flow.panic
      | some (t', .full) => Flow.ret (2, (occL t', contL t', shiftL t', remL t', t'.n))
      | some (t', .ok _) => Flow.ret (1, (occL t', contL t', shiftL t', remL t', t'.n)) := by
  have hl := qf_unionLoop_eq o t t.n (List.finRange N) t
  rw [finRange_map_val] at hl
  simp only [qf_union, decide_true, if_true, occL_len, Nat.sub_zero, hl, Quotient.union]
  cases unionLoop o (List.finRange N) t with
  | none => rfl
  | some p =>
    obtain ⟨t', res⟩ := p
    cases res <;> rfl

/-- a bit-width mismatch is the `assert_eq!` panic -/
theorem qf_union_mismatch (qb rb qb' rb' : Nat) (h : qb ≠ qb' ∨ rb ≠ rb') (a b c : List Bool) (d : List Nat) (n : Nat)
    (a' b' c' : List Bool) (d' : List Nat) :
    qf_union qb rb a b c d n qb' rb' a' b' c' d' = Flow.panic := by
  unfold qf_union
  rcases h with h | h
  · simp [h]
  · by_cases h1 : qb = qb' <;> simp [h, h1]

end Pds.KernelTie
