import Pds.Proofs.KernelTie.Basic
import Pds.Generated.Kernels.TdGuard
/-!
Tie by translation: the public `TDigest::insert_weighted` — `assert!(x.is_finite())`, `assert!((w >= 0.) && w.is_finite())`,
the early return for a zero weight, then the call of the inner digest (translated as the value `true`) — has exactly the
branches of the model's `insertWeighted` (`if w < 0 then none else if 0 < w then … else some s`), for finite arguments;
a non-finite argument is the assertion panic (the driver glue rejects it before the model is asked).
-/
namespace Pds.KernelTie
open Pds Pds.Generated.Kernels
variable {α : Type} [Field α] [LinearOrder α] [IsStrictOrderedRing α] [KOps α] [LawfulKOps α]

theorem td_insert_guard_eq (x w : α) (hx : KOps.isFinite x = true) (hw : KOps.isFinite w = true) :
    td_insert_guard x w = if w < 0 then Flow.panic else if 0 < w then Flow.ret true else Flow.ret false := by
  have h0 : (KOps.ofNat 0 : α) = 0 := by rw [LawfulKOps.ofNat_eq]; simp
  unfold td_insert_guard
  simp only [hx, hw, h0, if_true, Bool.and_true]
  rcases lt_trichotomy w 0 with h | h | h
  · have : ¬ (0 : α) ≤ w := not_le.mpr h
    simp [h, this]
  · subst h; simp [Flow.bind]
  · have h1 : (0 : α) ≤ w := le_of_lt h
    have h2 : ¬ w < 0 := not_lt.mpr h1
    have h3 : w ≠ 0 := ne_of_gt h
    simp [h, h1, h2, h3, Flow.bind]

theorem td_insert_guard_not_finite (x w : α) (h : KOps.isFinite x = false ∨ KOps.isFinite w = false) :
    td_insert_guard x w = Flow.panic := by
  unfold td_insert_guard
  rcases h with h | h
  · simp [h]
  · by_cases hx : KOps.isFinite x = true <;> simp [hx, h]

end Pds.KernelTie
