import Pds.Generated.Kernels.Clear
import Pds.Proofs.KernelTie.ReservoirAdd
import Pds.Model.Cuckoo
import Pds.Model.Hll
import Pds.Model.Cms
import Pds.Model.TDigest
import Pds.Model.Bloom
import Pds.Proofs.KernelTie.QfViews
/-!
Tie by translation: `clear` and `is_empty` of the cuckoo filter, the reservoir sampler, HyperLogLog, the
count-min sketch and the t-digest (`is_empty`) as translated from the source are the model's.
-/
namespace Pds.KernelTie
open Pds Pds.Generated.Kernels

theorem cuckoo_clear_eq {R : Type} (s : Cuckoo.St R) :
    cuckoo_clear s.table.toList s.n = Flow.cont ((Cuckoo.clear s).table.toList, (Cuckoo.clear s).n) := by
  simp [cuckoo_clear, Cuckoo.clear]

theorem decide_eq_beq (a b : Nat) : decide (a = b) = (a == b) := by
  by_cases h : a = b <;> simp [h]

theorem cuckoo_is_empty_eq (n : Nat) : cuckoo_is_empty n = (n == 0) := by
  simp only [cuckoo_is_empty, decide_eq_beq]

theorem reservoir_is_empty_eq {R : Type} (s : Reservoir.St R) : reservoir_is_empty s.i = Reservoir.isEmpty s := by
  simp only [reservoir_is_empty, Reservoir.isEmpty, decide_eq_beq]

theorem hll_clear_eq (s : Hll.St) : hll_clear s.regs.toList = Flow.cont (Hll.clear s).regs.toList := by
  simp [hll_clear, Hll.clear]

theorem td_is_empty_eq {α : Type} (s : TDigest.St α) : td_is_empty s.centroids s.backlog = TDigest.isEmpty s := rfl

/-- `QuotientFilter::clear` (the three `FixedBitSet::clear`, the refilled remainder vector, `n_elements = 0`) is the
model's `clear`: the empty table of the same size -/
theorem qf_clear_eq {N : Nat} (t : Quotient.St N) :
    qf_clear (occL t) (contL t) (shiftL t) (remL t) t.n =
      Flow.cont (occL (Quotient.clear t), contL (Quotient.clear t), shiftL (Quotient.clear t), remL (Quotient.clear t),
        (Quotient.clear t).n) := by
  have hg : ∀ i : Fin N, (Quotient.clear t).get i = {} := by
    intro i; simp [Quotient.clear, Quotient.empty, Quotient.St.get]
  simp only [qf_clear, occL, contL, shiftL, remL, hg, List.length_ofFn]
  have hrep : ∀ {β : Type} (c : β), List.replicate N c = List.ofFn (fun _ : Fin N => c) := by
    intro β c
    apply List.ext_getElem <;> simp
  simp [Quotient.clear, Quotient.empty, hrep]

theorem bloom_clear_eq (s : Bloom.St) : bloom_clear s.bits.toList = Flow.cont (Bloom.clear s).bits.toList := by
  simp [bloom_clear, Bloom.clear]

theorem hll_is_empty_eq (s : Hll.St) : hll_is_empty s.regs.toList = Hll.isEmpty s := by
  have h : (fun x : Nat => decide (x = 0)) = (fun x => x == 0) := by funext x; simp only [decide_eq_beq]
  unfold hll_is_empty Hll.isEmpty
  rw [h, Array.all_toList]

theorem qf_is_empty_eq (n : Nat) : qf_is_empty n = (n == 0) := by simp only [qf_is_empty, decide_eq_beq]
theorem qf_len_eq (n : Nat) : qf_len n = n := rfl

end Pds.KernelTie
