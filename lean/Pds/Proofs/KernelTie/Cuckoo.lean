import Pds.Proofs.KernelTie.Basic
import Pds.Generated.Kernels.Cuckoo
import Pds.Model.Cuckoo
set_option linter.unusedSectionVars false
set_option linter.unusedVariables false
namespace Pds.KernelTie
open Pds Pds.Generated.Kernels 

variable {α : Type} [Field α] [LinearOrder α] [IsStrictOrderedRing α] [KOps α] [LawfulKOps α]
attribute [local instance] scaleOps transc

theorem cuckoo_fingerprint_eq (hash : List Nat → Nat) (lf x : Nat) :
    cuckoo_fingerprint lf (hash [0, x]) = Cuckoo.fingerprint hash lf x := by
  unfold cuckoo_fingerprint Cuckoo.fingerprint
  by_cases h : lf = 64 <;> simp [h, Nat.shiftLeft_eq]

/-- the constructor asserts that `n_buckets` is a power of two; then the mask is the remainder -/
theorem cuckoo_bucket_hash_eq (hash : List Nat → Nat) (j x : Nat) :
    cuckoo_bucket_hash (2 ^ j) (hash [1, x]) = Cuckoo.bucketOf hash (2 ^ j) x := by
  simp [cuckoo_bucket_hash, Cuckoo.bucketOf, Nat.and_two_pow_sub_one_eq_mod]

end Pds.KernelTie
