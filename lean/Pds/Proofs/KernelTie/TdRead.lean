import Pds.Proofs.KernelTie.TdCore
import Pds.Generated.Kernels.TdRead
/-!
Tie by translation, flow mode: `TDigestInner::count`, `cdf` and `quantile` (with their `for` loops, early
returns, `debug_assert!` and slice indexing) as translated from the source compute the model's
`totalCount`, `cdfInner` and `quantileInner` — over every linearly ordered field, for every list of
centroids and every `min`/`max`.
-/
set_option linter.unusedSectionVars false
set_option linter.unusedVariables false
namespace Pds.KernelTie
open Pds Pds.Generated.Kernels TDigest

variable {α : Type} [Field α] [LinearOrder α] [IsStrictOrderedRing α] [KOps α] [LawfulKOps α]

theorem lit_half : (KOps.lit 5 1 : α) = half := by simp only [lit_eq, half]; norm_num

theorem td_count_eq (cs : List (Centroid α)) : td_count cs = totalCount cs := by
  simp [td_count, totalCount]

/-- the loop of `cdf` -/
theorem td_cdf_loop_eq (mn mx x total : α) (cs : List (Centroid α)) (cum lm lc : α) :
    ∃ cum', td_cdf_loop1 mn mx x total cs (cum, lm, lc) =
      match cdfLoop mn mx x total cs cum lm lc with
      | (some r, _, _) => Flow.ret r
      | (none, lm', lc') => Flow.cont (cum', lm', lc') := by
  induction cs generalizing cum lm lc with
  | nil => exact ⟨cum, by simp [td_cdf_loop1, cdfLoop]⟩
  | cons c rest ih =>
    by_cases h : x < clampedMean mn mx c
    · refine ⟨cum, ?_⟩
      simp [td_cdf_loop1, cdfLoop, clamped_mean_eq, interpolate_eq, lit_half, h, Flow.bind]
    · obtain ⟨cum', h'⟩ := ih (cum + c.count) (clampedMean mn mx c) (cum + half * c.count)
      refine ⟨cum', ?_⟩
      simp only [td_cdf_loop1, cdfLoop, clamped_mean_eq, lit_half, h, decide_false, Flow.bind, if_false]
      simpa using h'

theorem td_cdf_eq (s : St α) (mn mx x : α) (hmin : s.min = some mn) (hmax : s.max = some mx) :
    td_cdf s.centroids mn mx x = match cdfInner s x with | some r => Flow.ret r | none => Flow.panic := by
  unfold td_cdf cdfInner
  cases hc : s.centroids with
  | nil => simp [hc]
  | cons c0 rest =>
    simp only [hmin, hmax, List.isEmpty_cons, Bool.false_eq_true, if_false, Flow.bind_cont]
    by_cases h0 : x < mn
    · simp [h0]
    · simp only [h0, decide_false, Bool.false_eq_true, if_false, Flow.bind_cont, td_count_eq, ofNat_eq, Nat.cast_zero]
      obtain ⟨cum', h'⟩ := td_cdf_loop_eq mn mx x (totalCount (c0 :: rest)) (c0 :: rest) 0 mn 0
      rw [h']
      rcases hl : cdfLoop mn mx x (totalCount (c0 :: rest)) (c0 :: rest) 0 mn 0 with ⟨r, lm', lc'⟩
      cases r with
      | some r => simp
      | none =>
        by_cases h1 : x < mx
        · simp [h1, interpolate_eq]
        · simp [h1]

/-- the loop of `quantile`: the translated code looks the previous centroid up by index in the whole slice
(`self.centroids[i - 1]` after `debug_assert!(i > 0)`), the model carries it along -/
theorem td_quantile_loop_eq (mn mx limit : α) (done cs : List (Centroid α)) (cum : α) :
    td_quantile_loop1 (done ++ cs) mn mx limit done.length cs cum =
      match quantileLoop mn mx limit cs done.getLast? cum with
      | (some (some v), _) => Flow.ret v
      | (some none, _) => Flow.panic
      | (none, cum') => Flow.cont cum' := by
  induction cs generalizing done cum with
  | nil => simp [td_quantile_loop1, quantileLoop]
  | cons c rest ih =>
    by_cases h : limit ≤ cum + c.count * half
    · rcases List.eq_nil_or_concat done with hd | ⟨d, p, hd⟩
      · subst hd
        simp [td_quantile_loop1, quantileLoop, lit_half, h, Flow.bind]
      · subst hd
        have hidx : (d ++ [p] ++ c :: rest)[(d ++ [p]).length - 1]? = some p := by
          simp [List.getElem?_append_left, List.getElem?_append_right]
        simp only [td_quantile_loop1, quantileLoop, lit_half, h, decide_true, if_true, Flow.bind]
        simp [hidx, clamped_mean_eq, interpolate_eq]
    · have := ih (done ++ [c]) (cum + c.count)
      simp only [List.append_assoc, List.singleton_append, List.length_append, List.length_singleton,
        List.getLast?_append, List.getLast?_singleton, Option.some_or] at this
      simp only [td_quantile_loop1, quantileLoop, lit_half, h, decide_false, Flow.bind, if_false, Bool.false_eq_true]
      simpa using this

theorem td_quantile_eq (s : St α) (mn mx q : α) (hmin : s.min = some mn) (hmax : s.max = some mx) :
    td_quantile s.centroids mn mx q =
      match quantileInner s q with
      | .nan => Flow.ret KOps.nan
      | .val v => Flow.ret v
      | .panic => Flow.panic := by
  unfold td_quantile quantileInner
  cases hc : s.centroids with
  | nil => simp [hc]
  | cons c0 rest =>
    simp only [hmin, hmax, List.isEmpty_cons, Bool.false_eq_true, if_false, Flow.bind_cont, td_count_eq,
      List.getElem?_cons_zero, lit_half]
    by_cases h0 : totalCount (c0 :: rest) * q ≤ c0.count * half
    · simp [h0, interpolate_eq, clamped_mean_eq]
    · simp only [h0, decide_false, Bool.false_eq_true, if_false, Flow.bind_cont, ofNat_eq, Nat.cast_zero]
      have hl := td_quantile_loop_eq mn mx (totalCount (c0 :: rest) * q) [] (c0 :: rest) 0
      simp only [List.nil_append, List.length_nil, List.getLast?_nil] at hl
      rw [hl]
      rcases hq : quantileLoop mn mx (totalCount (c0 :: rest) * q) (c0 :: rest) none 0 with ⟨r, cum'⟩
      cases r with
      | some r => cases r <;> simp
      | none =>
        have hlast : (c0 :: rest)[(c0 :: rest).length - 1]? = (c0 :: rest).getLast? := by
          rw [List.getLast?_eq_getElem?]
        simp only [Flow.bind_cont, hlast]
        cases hg : (c0 :: rest).getLast? with
        | none => simp
        | some cl => simp [interpolate_eq, clamped_mean_eq]

end Pds.KernelTie
