import Pds.Generated.Kernels.BloomOps
import Pds.Model.Bloom
/-!
Tie by translation, flow mode: the loops of `BloomFilter::insert` and `BloomFilter::query` over the probe
positions, as translated from the source, compute the model's `putAll` / `queryPos` (`FixedBitSet` =
`Array Bool`, compared through `toList`), for every position list (= every hasher).
-/
namespace Pds.KernelTie
open Pds Pds.Generated.Kernels Pds.Bloom

theorem bloom_insert_loop_eq (ps : List Nat) (bits : Array Bool) (was : Bool) :
    bloom_insert_loop1 ps (bits.toList, was) =
      match putAll bits ps was with
      | none => Flow.panic
      | some (bits', was') => Flow.cont (bits'.toList, was') := by
  induction ps generalizing bits was with
  | nil => simp [bloom_insert_loop1, putAll]
  | cons p ps ih =>
    by_cases h : p < bits.size
    · have := ih (bits.set p true) (was && bits[p])
      simp only [bloom_insert_loop1, putAll, h, dif_pos, KOps.bitPut, Array.getElem?_toList, Array.getElem?_eq_getElem h,
        Flow.bind_cont]
      simpa using this
    · simp [bloom_insert_loop1, putAll, h, KOps.bitPut, Array.getElem?_eq_none (Nat.le_of_not_lt h), Flow.bind]

/-- `insert` on the bits, given the element's probe positions: the answer `!was_present` and the new bits -/
theorem bloom_insert_eq (ps : List Nat) (bits : Array Bool) :
    bloom_insert bits.toList ps =
      match putAll bits ps true with
      | none => Flow.panic
      | some (bits', was) => Flow.ret (!was, bits'.toList) := by
  simp only [bloom_insert, bloom_insert_loop_eq]
  cases putAll bits ps true with
  | none => rfl
  | some r => rfl

theorem bloom_query_loop_eq (ps : List Nat) (bits : Array Bool) :
    bloom_query_loop1 bits.toList ps () =
      match queryPos bits ps with
      | none => Flow.panic
      | some true => Flow.cont ()
      | some false => Flow.ret false := by
  induction ps with
  | nil => simp [bloom_query_loop1, queryPos]
  | cons p ps ih =>
    simp only [bloom_query_loop1, queryPos, Array.getElem?_toList]
    cases hb : bits[p]? with
    | none => simp [Flow.bind]
    | some b => cases b <;> simp [Flow.bind, ih]

theorem bloom_query_eq (ps : List Nat) (bits : Array Bool) :
    bloom_query bits.toList ps =
      match queryPos bits ps with
      | none => Flow.panic
      | some b => Flow.ret b := by
  simp only [bloom_query, bloom_query_loop_eq]
  cases queryPos bits ps with
  | none => rfl
  | some b => cases b <;> rfl

/-- `BloomFilter::union` (`assert_eq!` on `k` and on the number of bits, `&self.bs | &other.bs`) is the model's `union` -/
theorem bloom_union_eq (s o : Bloom.St) :
    bloom_union s.k s.bits.toList o.k o.bits.toList =
      match Bloom.union s o with
      | none => Flow.panic
      | some s' => Flow.cont s'.bits.toList := by
  unfold bloom_union Bloom.union Bloom.St.m
  by_cases hk : s.k = o.k <;> by_cases hm : s.bits.size = o.bits.size <;> simp [hk, hm]

end Pds.KernelTie
