import Pds.Proofs.KernelTie.ReservoirAdd
import Pds.Generated.Kernels.ReservoirExtend
/-! Tie by translation: `Extend::extend` of the reservoir sampler is the fold of `add`. -/
namespace Pds.KernelTie
open Pds Pds.Generated.Kernels Pds.Reservoir

/-- `Extend::extend` (`for elem in iter { self.add(elem) }`) as translated is the left fold of the model's `add` -/
theorem reservoir_extend_eq {R : Type} (I : RngI R) (s : St R) (xs : List Nat) (hk : s.k * 4 < 2 ^ 64) :
    reservoir_extend R I s.k s.rng s.res.toList s.i s.skipUntil xs =
      match xs.foldlM (Reservoir.add I) s with
      | none => Flow.panic
      | some s' => Flow.cont (s'.rng, s'.res.toList, s'.i, s'.skipUntil) := by
  unfold reservoir_extend
  induction xs generalizing s with
  | nil => simp [reservoir_extend_loop1]
  | cons x xs ih =>
    simp only [reservoir_extend_loop1, List.foldlM_cons, reservoir_add_eq I s x hk]
    cases h : Reservoir.add I s x with
    | none => simp [Flow.bind]
    | some s' =>
      have hk' : s'.k = s.k := reservoir_add_k I s s' x h
      have := ih s' (by rw [hk']; exact hk)
      rw [hk'] at this
      simp only [Flow.bind_cont, Option.bind_eq_bind, Option.bind_some]
      exact this

end Pds.KernelTie
