import Pds.Proofs.KernelTie.Basic
import Pds.Generated.Kernels.HllAdd
import Pds.Model.Hll
set_option linter.unusedSectionVars false
set_option linter.unusedVariables false
namespace Pds.KernelTie
open Pds Pds.Generated.Kernels 

variable {α : Type} [Field α] [LinearOrder α] [IsStrictOrderedRing α] [KOps α] [LawfulKOps α]
attribute [local instance] scaleOps transc

theorem hll_add_hashed_eq (b h : Nat) :
    hll_add_hashed_jp b h = (h % 2 ^ b, Hll.rank b h) := by
  simp only [hll_add_hashed_jp, Hll.rank, KOps.clz64, Hll.clz64, Nat.shiftRight_eq_div_pow, Nat.shiftLeft_eq]
  congr 1
  have := Nat.div_add_mod h (2 ^ b)
  rw [Nat.mul_comm] at this
  omega

/-- the whole `add_hashed` (index, rank, the register read and the `max` write) is the model's `addHashed` -/
theorem hll_add_hashed_full_eq (s : Hll.St) (h : Nat) :
    hll_add_hashed s.b s.regs.toList h =
      match Hll.addHashed s h with
      | none => Flow.panic
      | some s' => Flow.cont s'.regs.toList := by
  have hjp := hll_add_hashed_eq s.b h
  simp only [hll_add_hashed_jp, Prod.mk.injEq] at hjp
  obtain ⟨hj, hp⟩ := hjp
  unfold hll_add_hashed Hll.addHashed
  simp only [hj, hp, Array.getElem?_toList, Array.length_toList]
  by_cases hlt : h % 2 ^ s.b < s.regs.size
  · simp [hlt, Array.getElem?_eq_getElem hlt]
  · simp [hlt, Array.getElem?_eq_none (Nat.le_of_not_lt hlt)]

end Pds.KernelTie
