import Pds.Proofs.KernelTie.Basic
import Pds.Generated.Kernels.HllAdd
import Pds.Model.Hll
set_option linter.unusedSectionVars false
set_option linter.unusedVariables false
namespace Pds.KernelTie
open Pds Pds.Generated.Kernels 

variable {α : Type} [Field α] [LinearOrder α] [IsStrictOrderedRing α] [KOps α] [LawfulKOps α]
attribute [local instance] scaleOps transc

theorem hll_add_hashed_eq (b h : Nat) :
    hll_add_hashed_jp b h = (h % 2 ^ b, Hll.rank b h) := by
  simp only [hll_add_hashed_jp, Hll.rank, KOps.clz64, Hll.clz64, Nat.shiftRight_eq_div_pow, Nat.shiftLeft_eq]
  congr 1
  have := Nat.div_add_mod h (2 ^ b)
  rw [Nat.mul_comm] at this
  omega

end Pds.KernelTie
