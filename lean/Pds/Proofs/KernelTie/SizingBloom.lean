import Pds.Proofs.KernelTie.Basic
import Pds.Generated.Kernels.SizingBloom
set_option linter.unusedSectionVars false
set_option linter.unusedVariables false
namespace Pds.KernelTie
open Pds Pds.Generated.Kernels Sizing

variable {α : Type} [Field α] [LinearOrder α] [IsStrictOrderedRing α] [KOps α] [LawfulKOps α]
attribute [local instance] scaleOps transc

theorem bloom_with_properties_eq (n : Nat) (p : α) :
    bloom_with_properties n p = bloomParams n p := by
  unfold bloom_with_properties bloomParams
  by_cases hn : 0 < n <;> by_cases h0 : (0 : α) < p <;> by_cases h1 : p < 1 <;>
    simp [hn, h0, h1, failure, bind, pure]

theorem bloom_len_eq (m k x : Nat) : bloom_len α m k x = bloomLen (α := α) m k x := by
  simp [bloom_len, bloomLen]

end Pds.KernelTie
