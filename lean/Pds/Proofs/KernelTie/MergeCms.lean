import Pds.Generated.Kernels.MergeCms
import Pds.Model.Cms
/-! Tie by translation: `CountMinSketch::merge` (both `assert_eq!`, cells zipped with `checked_add(..).unwrap()`) is the model's `merge`. -/
namespace Pds.KernelTie
open Pds Pds.Generated.Kernels

theorem zipWithM_checkedAdd (cmax : Nat) (xs ys : List Nat) :
    KOps.zipWithM (fun a b => KOps.checkedAddMax cmax a b) xs ys = Cms.mergeCells cmax xs ys := by
  induction xs generalizing ys with
  | nil => simp [KOps.zipWithM, Cms.mergeCells]
  | cons a xs ih =>
    cases ys with
    | nil => simp [KOps.zipWithM, Cms.mergeCells]
    | cons b ys =>
      have ih' := ih ys
      simp only [KOps.checkedAddMax] at ih'
      simp only [KOps.zipWithM, Cms.mergeCells, KOps.checkedAddMax]
      by_cases h : a + b ≤ cmax
      · simp only [h, if_true]; rw [ih']
      · simp [h]

theorem cms_merge_eq (s o : Cms.St) :
    cms_merge s.w s.d s.cmax s.table.toList o.w o.d o.table.toList =
      match Cms.merge s o with
      | none => Flow.panic
      | some s' => Flow.cont s'.table.toList := by
  unfold cms_merge Cms.merge
  by_cases hd : s.d = o.d
  · by_cases hw : s.w = o.w
    · simp only [hd, hw, decide_true, if_true, and_self, zipWithM_checkedAdd]
      cases Cms.mergeCells s.cmax s.table.toList o.table.toList <;> simp
    · simp [hd, hw]
  · simp [hd]

end Pds.KernelTie
