import Pds.Proofs.KernelTie.Basic
import Pds.Generated.Kernels.Alloc
import Pds.Model.Alloc
set_option linter.unusedSectionVars false
set_option linter.unusedVariables false
namespace Pds.KernelTie
open Pds Pds.Generated.Kernels 

variable {α : Type} [Field α] [LinearOrder α] [IsStrictOrderedRing α] [KOps α] [LawfulKOps α]
attribute [local instance] scaleOps transc

theorem all_zero_intvector_blocks_eq (e len : Nat) :
    all_zero_intvector_blocks e len 8 = if e * len < 2 ^ 64 then some (Alloc.nBlocks e len) else none := by
  unfold all_zero_intvector_blocks Alloc.nBlocks KOps.checkedMul
  by_cases h : e * len < 2 ^ 64
  · have h' : e * len < 18446744073709551616 := h
    simp [h', bind, pure, Option.bind]
  · have h' : ¬ e * len < 18446744073709551616 := h
    simp [h', bind, Option.bind]

end Pds.KernelTie
