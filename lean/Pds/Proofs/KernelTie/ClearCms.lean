import Pds.Generated.Kernels.ClearCms
import Pds.Model.Cms
/-! Tie by translation: `CountMinSketch::clear`. -/
namespace Pds.KernelTie
open Pds Pds.Generated.Kernels

/-- `w.checked_mul(d).unwrap()`: the model has the unchecked product, hence `h` -/
theorem cms_clear_eq (s : Cms.St) (h : s.w * s.d < 2 ^ 64) :
    cms_clear s.w s.d s.table.toList = Flow.cont (Cms.clear s).table.toList := by
  simp [cms_clear, Cms.clear, KOps.checkedMul, h]

theorem decide_eq_beq' (a b : Nat) : decide (a = b) = (a == b) := by
  by_cases h : a = b <;> simp [h]

theorem cms_is_empty_eq (s : Cms.St) : cms_is_empty s.table.toList = Cms.isEmpty s := by
  have h : (fun x : Nat => decide (x = 0)) = (fun x => x == 0) := by funext x; exact decide_eq_beq' x 0
  unfold cms_is_empty Cms.isEmpty
  rw [h, Array.all_toList]

end Pds.KernelTie
