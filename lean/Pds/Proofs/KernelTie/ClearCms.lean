import Pds.Generated.Kernels.ClearCms
import Pds.Model.Cms
/-! Tie by translation: `CountMinSketch::clear`. -/
namespace Pds.KernelTie
open Pds Pds.Generated.Kernels

/-- `w.checked_mul(d).unwrap()`: the model has the unchecked product, hence `h` -/
theorem cms_clear_eq (s : Cms.St) (h : s.w * s.d < 2 ^ 64) :
    cms_clear s.w s.d s.table.toList = Flow.cont (Cms.clear s).table.toList := by
  simp [cms_clear, Cms.clear, KOps.checkedMul, h]

end Pds.KernelTie
