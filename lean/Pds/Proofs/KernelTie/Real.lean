import Pds.Proofs.KernelTie.Basic
import Pds.Proofs.SizingReal
import Pds.Proofs.TDigestScaleReal
import Mathlib.Analysis.SpecialFunctions.Log.Base
import Mathlib.Analysis.SpecialFunctions.Sqrt
import Mathlib.Analysis.SpecialFunctions.Trigonometric.Inverse
/-!
The translated kernels at the carrier `ℝ`: `KOps ℝ` is Mathlib's `Real.log`, `Real.exp`, `Real.sin`,
`Real.arcsin`, `Real.sqrt`, `⌈·⌉`, `⌊·⌋`, `⌊·⌋₊` — and the model's operation classes derived from it
*are* the instances the real-number theorems of C03/C04/C05/C07/C08 were proved with, so those theorems
apply to the translated functions.
-/
namespace Pds.KernelTie

noncomputable instance realKOps : KOps ℝ where
  pi := Real.pi
  e := Real.exp 1
  nan := 0
  sin := Real.sin
  asin := Real.arcsin
  log := Real.log
  log2 := Real.logb 2
  exp := Real.exp
  sqrt := Real.sqrt
  ceil x := (⌈x⌉ : ℝ)
  floor x := (⌊x⌋ : ℝ)
  fabs x := |x|
  isInf _ := false
  isNan _ := false
  isFinite _ := true
  ofNat n := (n : ℝ)
  toNat x := ⌊x⌋₊

instance : LawfulKOps ℝ := ⟨fun _ => rfl⟩

theorem real_e : (KOps.e : ℝ) = KOps.exp 1 := rfl

/-- the saturating cast sends negatives to 0 -/
theorem real_toNat_neg (x : ℝ) (h : x < 0) : KOps.toNat x = KOps.toNat (0 : ℝ) := by
  show ⌊x⌋₊ = ⌊(0 : ℝ)⌋₊
  rw [Nat.floor_of_nonpos h.le, Nat.floor_zero]

/-- the `ScaleOps ℝ` derived from `KOps ℝ` is the instance the C04 theorems over ℝ use -/
theorem scaleOps_real : (scaleOps : TDigest.ScaleOps ℝ) = TDigest.realScaleOps := rfl

/-- the `Transc ℝ` derived from `KOps ℝ` is the instance the C07/C08 theorems over ℝ use -/
theorem transc_real : (transc : Sizing.Transc ℝ) = Sizing.instTranscReal := by
  unfold transc Sizing.instTranscReal
  congr 1
  funext x
  show ⌊((⌈x⌉ : ℤ) : ℝ)⌋₊ = ⌈x⌉₊
  rw [← Int.ceil_toNat, ← Int.floor_toNat, Int.floor_intCast]

end Pds.KernelTie
