import Pds.Proofs.KernelTie.Basic
import Pds.Generated.Kernels.SizingLossy
set_option linter.unusedSectionVars false
set_option linter.unusedVariables false
namespace Pds.KernelTie
open Pds Pds.Generated.Kernels Sizing

variable {α : Type} [Field α] [LinearOrder α] [IsStrictOrderedRing α] [KOps α] [LawfulKOps α]
attribute [local instance] scaleOps transc

theorem lossy_with_epsilon_eq (eps : α) : lossy_with_epsilon eps = lossyWidth eps := by
  unfold lossy_with_epsilon lossyWidth
  by_cases h0 : (0 : α) < eps <;> by_cases h1 : eps < 1 <;> simp [h0, h1, failure, bind, pure]

/-- `.max(0.) as usize`: the model's `ceilNat` is the saturating cast, which sends negatives to 0 (`hneg`) -/
theorem lossy_query_bound_eq (eps threshold : α) (n : Nat)
    (hneg : ∀ x : α, x < 0 → KOps.toNat x = KOps.toNat (0 : α)) :
    lossy_query_bound eps n threshold = lossyBound threshold eps n := by
  simp only [lossy_query_bound, lossyBound, tr_ceilNat, ofNat_eq, fmax_eq, Nat.cast_zero]
  split
  · rename_i h; exact (hneg _ h).symm
  · rfl

end Pds.KernelTie
