import Pds.Proofs.KernelTie.Real
import Pds.Generated.Kernels.Reservoir
import Pds.Proofs.ReservoirReal
namespace Pds.KernelTie
open Pds Pds.Generated.Kernels

/-- the translated `draw_gap` over ℝ: `⌊ln(1 − v) / ln(1 − k/(seen+1))⌋` for the uniform draw `v ∈ [0,1)` -/
theorem reservoir_draw_gap_real (k seen : Nat) (v : ℝ) :
    reservoir_draw_gap k seen v
      = ⌊Real.log (1 - v) / Real.log (1 - (k : ℝ) / ((seen + 1 : ℕ) : ℝ))⌋.toNat := by
  show ⌊((⌊_⌋ : ℤ) : ℝ)⌋₊ = _
  rw [← Int.floor_toNat, Int.floor_intCast]
  simp [KOps.ofNat, KOps.log]

end Pds.KernelTie
