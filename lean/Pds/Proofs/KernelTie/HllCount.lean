import Pds.Generated.Kernels.HllCount
import Pds.Model.HllCount
/-!
Tie by translation: the decision skeleton of `HyperLogLog::count` — `z = 1 / Σ`, `e = am·m·m·z`, the bias correction
`if e <= 5m`, the choice between linear counting and the corrected estimate on the number of zero registers, the
comparison with the threshold and the two `as usize` casts — and `linear_counting`, as translated from the source,
compute the model's `countWith` (at `Float`, the carrier the model runs at), given the parts that stay hand-modelled:
the sum over the `2^-x` table, `am()`, `estimate_bias(e)`, the zero count and the threshold lookup.
-/
namespace Pds.KernelTie
open Pds Pds.Generated Pds.Generated.Kernels Pds.HllCount

/-- the number of zero registers (`bytecount::count(&self.registers, 0)`) -/
def zeros (s : Hll.St) : Nat := s.regs.foldl (fun c r => if r == 0 then c + 1 else c) 0

theorem ite_some_some {β : Type} (c : Prop) [Decidable c] (a b : β) :
    (if c then some a else some b) = some (if c then a else b) := by split <;> rfl

theorem hll_count_float (cmp : Float → Float → Option Cmp) (s : Hll.St) (ps : List Float) (thr : Nat)
    (hps : s.regs.toList.mapM (fun x => pow2F[x]?) = some ps)
    (hthr : thresholds[s.b - thresholdOffset]? = some thr) :
    countWith cmp s =
      (let m := Float.ofNat s.regs.size
       let e := am s.regs.size * m * m * (1 / ps.foldl (· + ·) 0)
       (if e ≤ 5 * m then estimateBias cmp s.b e else some 0).bind fun bv =>
         (hll_count (α := Float) s.regs.size (am s.regs.size) (ps.foldl (· + ·) 0) bv (zeros s) thr).ret?) := by
  unfold countWith
  simp only [hps, hthr]
  have hz : Array.foldl (fun c r => if (r == 0) = true then c + 1 else c) 0 s.regs = zeros s := rfl
  simp only [hz]
  by_cases h : am s.regs.size * Float.ofNat s.regs.size * Float.ofNat s.regs.size * (1 / ps.foldl (· + ·) 0) ≤
      5 * Float.ofNat s.regs.size
  · simp only [h, if_true]
    cases estimateBias cmp s.b (am s.regs.size * Float.ofNat s.regs.size * Float.ofNat s.regs.size *
        (1 / ps.foldl (· + ·) 0)) with
    | none => rfl
    | some bv =>
      simp only [Option.map_some, Option.bind_some]
      have h' : (am s.regs.size * (KOps.ofNat s.regs.size : Float) * (KOps.ofNat s.regs.size : Float) *
          ((KOps.ofNat 1 : Float) / ps.foldl (· + ·) 0)) ≤ (KOps.ofNat 5 : Float) * (KOps.ofNat s.regs.size : Float) := h
      by_cases hv : zeros s = 0
      all_goals
        simp only [hll_count, hll_linear_counting, hv, h', ne_eq, not_true_eq_false, not_false_eq_true, decide_true, decide_false,
          Bool.false_eq_true, if_true, if_false, decide_eq_true_eq, Flow.ite_bind, Flow.bind_ret,
          Flow.bind_cont, Flow.ite_ret?, Flow.ret?_ret, Flow.ret?_cont]
        rfl
  · simp only [h, if_false, Option.map_some, Option.bind_some]
    have h' : ¬ (am s.regs.size * (KOps.ofNat s.regs.size : Float) * (KOps.ofNat s.regs.size : Float) *
        ((KOps.ofNat 1 : Float) / ps.foldl (· + ·) 0)) ≤ (KOps.ofNat 5 : Float) * (KOps.ofNat s.regs.size : Float) := h
    by_cases hv : zeros s = 0
    all_goals
      simp only [hll_count, hll_linear_counting, hv, h', ne_eq, not_true_eq_false, not_false_eq_true, decide_true, decide_false,
        Bool.false_eq_true, if_true, if_false, decide_eq_true_eq, Flow.ite_bind,
        Flow.bind_ret, Flow.bind_cont, Flow.ite_ret?, Flow.ret?_ret, Flow.ret?_cont]
      rfl

end Pds.KernelTie
