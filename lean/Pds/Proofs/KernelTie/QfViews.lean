import Pds.Model.Quotient
/-!
The quotient filter's three bit sets and its remainder vector as the four lists the translated functions work on,
read off the model's `Vector Slot N`.
-/
namespace Pds.KernelTie
open Pds Pds.Quotient

variable {N : Nat}

def occL (t : St N) : List Bool := List.ofFn fun i : Fin N => (t.get i).occ
def contL (t : St N) : List Bool := List.ofFn fun i : Fin N => (t.get i).cont
def shiftL (t : St N) : List Bool := List.ofFn fun i : Fin N => (t.get i).shift
def remL (t : St N) : List Nat := List.ofFn fun i : Fin N => (t.get i).rem

@[simp] theorem occL_len (t : St N) : (occL t).length = N := by simp [occL]
@[simp] theorem occL_get (t : St N) (p : Fin N) : (occL t)[p.val]? = some (t.get p).occ := by
  simp [occL, List.getElem?_ofFn, p.isLt]
@[simp] theorem contL_get (t : St N) (p : Fin N) : (contL t)[p.val]? = some (t.get p).cont := by
  simp [contL, List.getElem?_ofFn, p.isLt]
@[simp] theorem shiftL_get (t : St N) (p : Fin N) : (shiftL t)[p.val]? = some (t.get p).shift := by
  simp [shiftL, List.getElem?_ofFn, p.isLt]
@[simp] theorem remL_get (t : St N) (p : Fin N) : (remL t)[p.val]? = some (t.get p).rem := by
  simp [remL, List.getElem?_ofFn, p.isLt]

end Pds.KernelTie
