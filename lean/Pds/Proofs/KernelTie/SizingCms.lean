import Pds.Proofs.KernelTie.Basic
import Pds.Generated.Kernels.SizingCms
set_option linter.unusedSectionVars false
set_option linter.unusedVariables false
namespace Pds.KernelTie
open Pds Pds.Generated.Kernels Sizing

variable {α : Type} [Field α] [LinearOrder α] [IsStrictOrderedRing α] [KOps α] [LawfulKOps α]
attribute [local instance] scaleOps transc

/-- `f64::consts::E` is `exp 1` in the model (`Transc.exp 1`); that identification is the hypothesis `he` -/
theorem cms_with_point_query_properties_eq (eps delta : α) (he : (KOps.e : α) = KOps.exp 1) :
    cms_with_point_query_properties eps delta = cmsParams eps delta := by
  unfold cms_with_point_query_properties cmsParams
  by_cases h0 : (0 : α) < eps <;> by_cases h1 : (0 : α) < delta <;> by_cases h2 : delta < 1 <;>
    simp [h0, h1, h2, he, failure, bind, pure]

end Pds.KernelTie
