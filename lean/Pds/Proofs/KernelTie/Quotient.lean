import Pds.Proofs.KernelTie.Basic
import Pds.Generated.Kernels.Quotient
import Pds.Model.Quotient
set_option linter.unusedSectionVars false
set_option linter.unusedVariables false
namespace Pds.KernelTie
open Pds Pds.Generated.Kernels 

variable {α : Type} [Field α] [LinearOrder α] [IsStrictOrderedRing α] [KOps α] [LawfulKOps α]
attribute [local instance] scaleOps transc

theorem qf_calc_quotient_remainder_eq (q r fp : Nat) :
    qf_calc_quotient_remainder q r fp = Quotient.calcQR q r fp := rfl

end Pds.KernelTie
