import Pds.Generated.Kernels.MergeHll
import Pds.Model.Hll
/-! Tie by translation: `HyperLogLog::merge` (`assert_eq!(b)`, registers zipped with `cmp::max`) is the model's `merge`. -/
namespace Pds.KernelTie
open Pds Pds.Generated.Kernels

theorem hll_merge_eq (s o : Hll.St) :
    hll_merge s.b s.regs.toList o.b o.regs.toList =
      match Hll.merge s o with
      | none => Flow.panic
      | some s' => Flow.cont s'.regs.toList := by
  unfold hll_merge Hll.merge
  by_cases h : s.b = o.b
  · simp [h]
  · simp [h]

end Pds.KernelTie
