import Pds.Generated.Kernels.Ctor
import Pds.Model.Hll
import Pds.Model.Quotient
/-!
Tie by translation: the constructor guards. `HyperLogLog::with_registers_and_hash` (both assertions) accepts exactly
what the model's `withRegisters` accepts, and `QuotientFilter::with_params_and_hash` (three assertions, `len = 1 << q`)
accepts exactly the parameter pairs of the model's `paramsOk`, with a table of `2 ^ q` slots.
-/
namespace Pds.KernelTie
open Pds Pds.Generated.Kernels

theorem hll_with_registers_eq (b : Nat) (regs : Array Nat) :
    hll_with_registers b regs.toList =
      match Hll.withRegisters b regs with
      | none => Flow.panic
      | some s => Flow.ret s.regs.toList := by
  unfold hll_with_registers Hll.withRegisters
  by_cases h1 : 4 ≤ b <;> by_cases h2 : b ≤ 18 <;> by_cases h3 : regs.size = 2 ^ b <;>
    simp [h1, h2, h3, Nat.shiftLeft_eq, eq_comm]

theorem qf_with_params_eq (q r : Nat) :
    qf_with_params q r = if Quotient.paramsOk q r then Flow.ret (2 ^ q) else Flow.panic := by
  unfold qf_with_params Quotient.paramsOk
  by_cases h1 : 0 < r <;> by_cases h2 : r ≤ 64 <;> by_cases h3 : 0 < q <;> by_cases h4 : r + q ≤ 64 <;>
    simp [h1, h2, h3, h4, Nat.shiftLeft_eq]

end Pds.KernelTie
