import Pds.Generated.Kernels.CtorCuckoo
import Pds.Model.Cuckoo
/-! Tie by translation: the guard of `CuckooFilter::with_params_and_hash`. -/
namespace Pds.KernelTie
open Pds Pds.Generated.Kernels

/-- `CuckooFilter::with_params_and_hash` (three assertions, `checked_mul(...).expect("Table size too large")`): the model's
`new` accepts exactly the parameters the translated guard accepts and for which the packed table can be allocated
(`all_zero_intvector`, translated in `k_alloc`: `l_fingerprint · len < 2^64`); the table has `n_buckets · bucketsize` slots -/
theorem cuckoo_with_params_eq {R : Type} (rng : R) (bs nb lf : Nat) :
    (Cuckoo.new rng bs nb lf).isSome ↔ (cuckoo_with_params bs nb lf = Flow.ret (nb * bs) ∧ lf * (nb * bs) < 2 ^ 64) := by
  unfold cuckoo_with_params Cuckoo.new KOps.checkedMul
  have hp : KOps.isPow2 nb = Cuckoo.isPow2 nb := rfl
  rw [hp]
  by_cases h1 : bs ≥ 2 <;> by_cases h2 : Cuckoo.isPow2 nb = true <;> by_cases h3 : nb ≥ 2 <;> by_cases h4 : lf > 1 <;>
    by_cases h5 : lf ≤ 64 <;> by_cases h6 : nb * bs < 2 ^ 64 <;> by_cases h7 : lf * (nb * bs) < 2 ^ 64 <;>
    simp [h1, h2, h3, h4, h5, h6, h7]

end Pds.KernelTie
