import Pds.Proofs.KernelTie.Basic
import Pds.Generated.Kernels.TdCore
set_option linter.unusedSectionVars false
set_option linter.unusedVariables false
namespace Pds.KernelTie
open Pds Pds.Generated.Kernels TDigest

variable {α : Type} [Field α] [LinearOrder α] [IsStrictOrderedRing α] [KOps α] [LawfulKOps α]
attribute [local instance] scaleOps transc

theorem centroid_fuse (a b : Centroid α) :
    Centroid_fuse a.sum a.count b.sum b.count = ((a.fuse b).sum, (a.fuse b).count) := rfl

theorem centroid_mean (c : Centroid α) : Centroid_mean c.sum c.count = c.mean := rfl

theorem interpolate_eq (a b t : α) : Pds.Generated.Kernels.interpolate a b t = TDigest.interpolate a b t := by
  simp only [Pds.Generated.Kernels.interpolate, TDigest.interpolate, ofNat_eq, fmin_eq, fmax_eq]
  by_cases h : t < 0
  · simp [h, not_le.mpr h]
  · simp [h, not_lt.mp h]

theorem clamped_mean_eq (mn mx : α) (c : Centroid α) :
    clamped_mean mn mx c.sum c.count = clampedMean mn mx c := by
  simp only [clamped_mean, clampedMean, centroid_mean, fmin_eq, fmax_eq]
  by_cases h : c.mean < mn
  · simp [h, not_le.mpr h]
  · simp [h, not_lt.mp h]

end Pds.KernelTie
