import Pds.Generated.Kernels.CuckooOps
import Pds.Model.Cuckoo
/-!
Tie by translation, flow mode: the bucket scans of the cuckoo filter (`write_to_bucket`, `has_in_bucket`,
`remove_from_bucket`: a `for` loop over the slots of a bucket with an early return) as translated from the
source compute the model's `writeToBucket` / `hasInBucket` / `removeFromBucket` (which are written with
`find`).  The packed table is a list of fingerprints on both sides (`Array` ↔ `List` through `toList`); the
undo log is kept oldest-first by the code and newest-first by the model, hence `reverse`.
-/
namespace Pds.KernelTie
open Pds Pds.Generated.Kernels Pds.Cuckoo

theorem cuckoo_write_loop_eq (t : Array Nat) (f : Nat) (len off : Nat) (lg : List (Nat × Nat)) :
    cuckoo_write_to_bucket_loop1 f (List.range' off len) (t.toList, lg) =
      match find t 0 off len with
      | .found x => Flow.ret (true, ((t.setIfInBounds x f).toList, lg ++ [(x, 0)]))
      | .absent => Flow.cont (t.toList, lg)
      | .oob => Flow.panic := by
  induction len generalizing off with
  | zero => simp [cuckoo_write_to_bucket_loop1, find]
  | succ n ih =>
    rw [List.range'_succ]
    simp only [cuckoo_write_to_bucket_loop1, find, Array.getElem?_toList]
    cases h : t[off]? with
    | none => simp [Flow.bind]
    | some y =>
      have hlt : off < t.size := by
        rcases Nat.lt_or_ge off t.size with h' | h'
        · exact h'
        · rw [Array.getElem?_eq_none h'] at h
          exact absurd h (by simp)
      by_cases hy : y = 0
      · simp [hy, hlt, Flow.bind, Array.setIfInBounds, Array.toList_set]
      · simp [hy, Flow.bind, ih]

theorem cuckoo_write_to_bucket_eq (t : Array Nat) (bs i f : Nat) (lg : List (Nat × Nat)) :
    cuckoo_write_to_bucket bs t.toList i f lg =
      match writeToBucket t bs i f lg.reverse with
      | none => Flow.panic
      | some none => Flow.ret (false, (t.toList, lg))
      | some (some (t', lg')) => Flow.ret (true, (t'.toList, lg'.reverse)) := by
  simp only [cuckoo_write_to_bucket, writeToBucket, Nat.add_sub_cancel_left, cuckoo_write_loop_eq]
  cases find t 0 (i * bs) bs <;> simp [Flow.bind]

theorem cuckoo_has_loop_eq (t : Array Nat) (f : Nat) (len off : Nat) :
    cuckoo_has_in_bucket_loop1 t.toList f (List.range' off len) () =
      match find t f off len with
      | .found _ => Flow.ret true
      | .absent => Flow.cont ()
      | .oob => Flow.panic := by
  induction len generalizing off with
  | zero => simp [cuckoo_has_in_bucket_loop1, find]
  | succ n ih =>
    rw [List.range'_succ]
    simp only [cuckoo_has_in_bucket_loop1, find, Array.getElem?_toList]
    cases h : t[off]? with
    | none => simp [Flow.bind]
    | some y =>
      by_cases hy : y = f
      · simp [hy, Flow.bind]
      · simp [hy, Flow.bind, ih]

theorem cuckoo_has_in_bucket_eq (t : Array Nat) (bs i f : Nat) :
    cuckoo_has_in_bucket bs t.toList i f =
      match hasInBucket t bs i f with
      | none => Flow.panic
      | some b => Flow.ret b := by
  simp only [cuckoo_has_in_bucket, hasInBucket, Nat.add_sub_cancel_left, cuckoo_has_loop_eq]
  cases find t f (i * bs) bs <;> simp [Flow.bind]

theorem cuckoo_remove_loop_eq (t : Array Nat) (f : Nat) (len off : Nat) :
    cuckoo_remove_from_bucket_loop1 f (List.range' off len) t.toList =
      match find t f off len with
      | .found x => Flow.ret (true, (t.setIfInBounds x 0).toList)
      | .absent => Flow.cont t.toList
      | .oob => Flow.panic := by
  induction len generalizing off with
  | zero => simp [cuckoo_remove_from_bucket_loop1, find]
  | succ n ih =>
    rw [List.range'_succ]
    simp only [cuckoo_remove_from_bucket_loop1, find, Array.getElem?_toList]
    cases h : t[off]? with
    | none => simp [Flow.bind]
    | some y =>
      have hlt : off < t.size := by
        rcases Nat.lt_or_ge off t.size with h' | h'
        · exact h'
        · rw [Array.getElem?_eq_none h'] at h
          exact absurd h (by simp)
      by_cases hy : y = f
      · simp [hy, hlt, Flow.bind, Array.setIfInBounds, Array.toList_set]
      · simp [hy, Flow.bind, ih]

theorem cuckoo_remove_from_bucket_eq (t : Array Nat) (bs i f : Nat) :
    cuckoo_remove_from_bucket bs t.toList i f =
      match removeFromBucket t bs i f with
      | none => Flow.panic
      | some none => Flow.ret (false, t.toList)
      | some (some t') => Flow.ret (true, t'.toList) := by
  simp only [cuckoo_remove_from_bucket, removeFromBucket, Nat.add_sub_cancel_left, cuckoo_remove_loop_eq]
  cases find t f (i * bs) bs <;> simp [Flow.bind]

theorem cuckoo_delete_eq (t : Array Nat) (bs n f i1 i2 : Nat) :
    cuckoo_delete bs t.toList n f i1 i2 =
      match removeFromBucket t bs i1 f with
      | none => Flow.panic
      | some (some t') => Flow.ret (true, (t'.toList, n - 1))
      | some none =>
        match removeFromBucket t bs i2 f with
        | none => Flow.panic
        | some (some t') => Flow.ret (true, (t'.toList, n - 1))
        | some none => Flow.ret (false, (t.toList, n)) := by
  simp only [cuckoo_delete, cuckoo_remove_from_bucket_eq]
  cases removeFromBucket t bs i1 f with
  | none => rfl
  | some r1 =>
    cases r1 with
    | some t' => rfl
    | none =>
      simp only [Flow.bind, Bool.false_eq_true, if_false, cuckoo_remove_from_bucket_eq]
      cases removeFromBucket t bs i2 f with
      | none => rfl
      | some r2 => cases r2 <;> rfl

theorem cuckoo_query_eq (t : Array Nat) (bs f i1 i2 : Nat) :
    cuckoo_query bs t.toList f i1 i2 =
      match hasInBucket t bs i1 f with
      | none => Flow.panic
      | some true => Flow.ret true
      | some false =>
        match hasInBucket t bs i2 f with
        | none => Flow.panic
        | some b => Flow.ret b := by
  simp only [cuckoo_query, cuckoo_has_in_bucket_eq]
  cases hasInBucket t bs i1 f with
  | none => rfl
  | some b1 =>
    cases b1 with
    | true => rfl
    | false =>
      simp only [Flow.bind, Bool.false_eq_true, if_false]
      cases hasInBucket t bs i2 f with
      | none => rfl
      | some b2 => cases b2 <;> rfl

/-- `Ok(true)` ↦ `true`, `Err(CuckooFilterFull)` ↦ `false` -/
def resB : Res → Bool
  | .ok _ => true
  | .full => false

/-- the eviction loop (`for _ in 0..MAX_NUM_KICKS`): the translated loop ignores the loop variable, so any
list of the right length does -/
theorem cuckoo_kick_loop_eq {R : Type} (I : RngI R) (hash : List Nat → Nat) (bs nb : Nat) (l : List Nat)
    (t : Array Nat) (n f i : Nat) (rng : R) (lg : List (Nat × Nat)) :
    ∃ f' i', cuckoo_insert_internal_loop1 R I (bucketOf hash nb) bs l (t.toList, n, rng, f, lg, i) =
      match kickLoop I hash bs nb l.length t n f i rng lg.reverse with
      | none => Flow.panic
      | some st =>
        match st.res with
        | .full => Flow.cont (st.table.toList, st.n, st.rng, f', st.log.reverse, i')
        | .ok _ => Flow.ret (true, (st.table.toList, st.n, st.rng, st.log.reverse)) := by
  induction l generalizing t n f i rng lg with
  | nil => exact ⟨f, i, by simp [cuckoo_insert_internal_loop1, kickLoop]⟩
  | cons a l ih =>
    rcases hb : I.below bs rng with ⟨e, rng1⟩
    simp only [cuckoo_insert_internal_loop1, kickLoop, List.length_cons, hb, Array.getElem?_toList]
    cases hx : t[i * bs + e]? with
    | none => exact ⟨f, i, by simp [Flow.bind]⟩
    | some tmp =>
      have hlt : i * bs + e < t.size := by
        rcases Nat.lt_or_ge (i * bs + e) t.size with h' | h'
        · exact h'
        · rw [Array.getElem?_eq_none h'] at hx; exact absurd hx (by simp)
      have hset : (t.toList.set (i * bs + e) f) = (t.setIfInBounds (i * bs + e) f).toList := by
        simp [Array.setIfInBounds, hlt, Array.toList_set]
      have hw := cuckoo_write_to_bucket_eq (t.setIfInBounds (i * bs + e) f) bs (i ^^^ bucketOf hash nb tmp) tmp (lg ++ [(i * bs + e, tmp)])
      simp only [List.reverse_append, List.reverse_cons, List.reverse_nil, List.nil_append, List.singleton_append] at hw
      simp only [Array.length_toList, hlt, if_true, hset, hw]
      cases hwb : writeToBucket (t.setIfInBounds (i * bs + e) f) bs (i ^^^ bucketOf hash nb tmp) tmp ((i * bs + e, tmp) :: lg.reverse) with
      | none => exact ⟨f, i, by simp [Flow.bind]⟩
      | some r =>
        cases r with
        | some tl => exact ⟨f, i, by simp [Flow.bind]⟩
        | none =>
          obtain ⟨f', i', h'⟩ := ih (t.setIfInBounds (i * bs + e) f) n tmp (i ^^^ bucketOf hash nb tmp) rng1 (lg ++ [(i * bs + e, tmp)])
          refine ⟨f', i', ?_⟩
          simp only [Flow.bind, Bool.false_eq_true, if_false]
          simpa using h'

theorem cuckoo_insert_internal_eq {R : Type} (I : RngI R) (hash : List Nat → Nat) (bs nb kicks : Nat)
    (t : Array Nat) (n : Nat) (rng : R) (lg : List (Nat × Nat)) (f i1 i2 : Nat) :
    cuckoo_insert_internal R I (bucketOf hash nb) bs t.toList n rng f i1 i2 lg kicks =
      match insertInternal I hash bs nb kicks t n rng lg.reverse f i1 i2 with
      | none => Flow.panic
      | some st => Flow.ret (resB st.res, (st.table.toList, st.n, st.rng, st.log.reverse)) := by
  simp only [cuckoo_insert_internal, insertInternal, cuckoo_write_to_bucket_eq]
  cases writeToBucket t bs i1 f lg.reverse with
  | none => rfl
  | some r1 =>
    cases r1 with
    | some tl => rfl
    | none =>
      simp only [Flow.bind, Bool.false_eq_true, if_false, cuckoo_write_to_bucket_eq]
      cases writeToBucket t bs i2 f lg.reverse with
      | none => rfl
      | some r2 =>
        cases r2 with
        | some tl => rfl
        | none =>
          simp only [Flow.bind, Bool.false_eq_true, if_false, Nat.sub_zero]
          rcases hc : I.bool rng with ⟨c, rng1⟩
          simp only [hc]
          obtain ⟨f', i', h'⟩ := cuckoo_kick_loop_eq I hash bs nb (List.range' 0 kicks) t n f (if c then i1 else i2) rng1 lg
          simp only [List.length_range'] at h'
          simp only [h']
          cases kickLoop I hash bs nb kicks t n f (if c then i1 else i2) rng1 lg.reverse with
          | none => rfl
          | some st =>
            cases hr : st.res with
            | full => simp [resB, hr]
            | ok b => simp [resB, hr]

/-- `restore_state`: `IntVector::set` panics out of bounds, the model's `setIfInBounds` does not; on logs whose
positions are slots of the table (every logged position was read from the table first) they agree -/
theorem cuckoo_restore_loop_eq (l : List (Nat × Nat)) (t : Array Nat) (h : ∀ p ∈ l, p.1 < t.size) :
    cuckoo_restore_state_loop1 l t.toList = Flow.cont (restore t l).toList := by
  induction l generalizing t with
  | nil => simp [cuckoo_restore_state_loop1, restore]
  | cons p l ih =>
    obtain ⟨pos, data⟩ := p
    have hp : pos < t.size := h (pos, data) (by simp)
    have hl : ∀ q ∈ l, q.1 < (t.setIfInBounds pos data).size := by
      intro q hq; rw [Array.size_setIfInBounds]; exact h q (by simp [hq])
    have := ih (t.setIfInBounds pos data) hl
    simp only [cuckoo_restore_state_loop1, restore, Array.length_toList, hp, if_true, Flow.bind_cont]
    simpa [Array.setIfInBounds, hp, Array.toList_set] using this

theorem cuckoo_restore_state_eq (lg : List (Nat × Nat)) (t : Array Nat) (h : ∀ p ∈ lg, p.1 < t.size) :
    cuckoo_restore_state t.toList lg = Flow.cont (restore t lg.reverse).toList := by
  simp only [cuckoo_restore_state]
  exact cuckoo_restore_loop_eq lg.reverse t (by intro p hp; exact h p (by simpa using hp))

/-- the public `insert`: `insert_internal` on an empty log, and `restore_state` when it failed.  `hlog`: the
positions `insert_internal` logs are slots of the table (they are: each was read from it) -/
theorem cuckoo_insert_eq {R : Type} (I : RngI R) (hash : List Nat → Nat) (kicks : Nat) (s : St R) (x : Nat)
    (hlog : ∀ st, insertInternal I hash s.bs s.nb kicks s.table s.n s.rng [] (start hash s x).1 (start hash s x).2.1 (start hash s x).2.2 = some st →
      ∀ p ∈ st.log, p.1 < st.table.size) :
    cuckoo_insert R I (bucketOf hash s.nb) s.bs s.table.toList s.n s.rng (start hash s x).1 (start hash s x).2.1 (start hash s x).2.2 kicks =
      match Cuckoo.insert I hash kicks s x with
      | none => Flow.panic
      | some (s', r) => Flow.ret (resB r, (s'.table.toList, s'.n, s'.rng)) := by
  have hi := cuckoo_insert_internal_eq I hash s.bs s.nb kicks s.table s.n s.rng [] (start hash s x).1 (start hash s x).2.1 (start hash s x).2.2
  simp only [List.reverse_nil] at hi
  simp only [cuckoo_insert, Cuckoo.insert, hi]
  cases hst : insertInternal I hash s.bs s.nb kicks s.table s.n s.rng [] (start hash s x).1 (start hash s x).2.1 (start hash s x).2.2 with
  | none => rfl
  | some st =>
    cases hr : st.res with
    | ok b => simp [resB, hr, Flow.bind]
    | full =>
      have hr' := cuckoo_restore_state_eq st.log.reverse st.table (by
        intro p hp; exact hlog st hst p (by simpa using hp))
      simp only [List.reverse_reverse] at hr'
      simp [resB, hr, Flow.bind, hr']

end Pds.KernelTie
