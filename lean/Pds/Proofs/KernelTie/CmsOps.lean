import Pds.Generated.Kernels.CmsOps
import Pds.Model.Cms
/-!
Tie by translation, flow mode: the row loop of `CountMinSketch::add_n` (cell index `i * w + pos`, running
minimum, `checked_add(..).unwrap()` on every cell and on the result) as translated from the source computes
the model's `addRows` / `addCols`, for every column list (= every hasher) and counter maximum.
-/
namespace Pds.KernelTie
open Pds Pds.Generated.Kernels Pds.Cms

theorem cms_add_n_loop_eq (w cmax n : Nat) (cols : List Nat) (i : Nat) (t : Array Nat) (res : Nat) :
    cms_add_n_loop1 w cmax n i cols (t.toList, res) =
      match addRows w cmax n i cols t res with
      | none => Flow.panic
      | some (t', res') => Flow.cont (t'.toList, res') := by
  induction cols generalizing i t res with
  | nil => simp [cms_add_n_loop1, addRows]
  | cons pos ps ih =>
    by_cases h : i * w + pos < t.size
    · by_cases h2 : t[i * w + pos] + n ≤ cmax
      · have := ih (i + 1) (t.set (i * w + pos) (t[i * w + pos] + n)) (if i = 0 then t[i * w + pos] else min res t[i * w + pos])
        simp only [cms_add_n_loop1, addRows, h, dif_pos, h2, if_true, Array.getElem?_toList, Array.getElem?_eq_getElem h,
          KOps.checkedAddMax, Array.length_toList, Flow.bind_cont]
        simpa using this
      · simp [cms_add_n_loop1, addRows, h, h2, KOps.checkedAddMax, Flow.bind]
    · simp [cms_add_n_loop1, addRows, h, Array.getElem?_eq_none (Nat.le_of_not_lt h), Flow.bind]

/-- `add_n` on the table, given the element's columns: the returned estimate and the new table -/
theorem cms_add_n_eq (s : St) (cols : List Nat) (n : Nat) :
    cms_add_n s.w s.cmax s.table.toList n cols =
      match addCols s cols n with
      | none => Flow.panic
      | some (s', r) => Flow.ret (r, s'.table.toList) := by
  simp only [cms_add_n, addCols, cms_add_n_loop_eq]
  cases addRows s.w s.cmax n 0 cols s.table 0 with
  | none => rfl
  | some r =>
    obtain ⟨t', res⟩ := r
    by_cases h : res + n ≤ s.cmax <;> simp [h, KOps.checkedAddMax, Flow.bind]

end Pds.KernelTie
