import Pds.Generated.Kernels.ReservoirAdd
import Pds.Model.Reservoir
/-!
Tie by translation, flow mode: `ReservoirSampling::add` and `clear` as translated from the source
(`Pds/Generated/Kernels/ReservoirAdd.lean`: state-passing over `Flow`) compute the model's
`Reservoir.add` / `Reservoir.clear`, for every RNG interface and every state (`Vec` = `Array`, compared
through `toList`).  `4 * k` saturates at 2^64 − 1 in the code; the model has `4k`, hence `hk`.
-/
namespace Pds.KernelTie
open Pds Pds.Generated.Kernels Pds.Reservoir

theorem reservoir_add_eq {R : Type} (I : RngI R) (s : St R) (x : Nat) (hk : s.k * 4 < 2 ^ 64) :
    reservoir_add R I s.k s.rng s.res.toList s.i s.skipUntil x =
      match Reservoir.add I s x with
      | none => Flow.panic
      | some s' => Flow.cont (s'.rng, s'.res.toList, s'.i, s'.skipUntil) := by
  have hpf : Pds.Generated.reservoirPhaseFactor = 4 := rfl
  have hsat : KOps.satMul s.k 4 = s.k * 4 := by simp [KOps.satMul, hk]
  unfold reservoir_add Reservoir.add phaseEnd
  simp only [hsat, hpf]
  by_cases h1 : s.i < s.k
  · simp [h1]
  · by_cases h2 : s.i < s.k * 4
    · by_cases h3 : s.i + 1 = s.k * 4
      · simp only [h1, h2, h3, decide_true, decide_false, if_true, if_false, Flow.bind_cont, ite_true, ite_false]
        cases hg : I.gap s.k (s.k * 4) s.rng with
        | mk g rng1 =>
          cases hb : I.below (s.k * 4) rng1 with
          | mk j rng2 =>
            simp only [hg, hb]
            by_cases h4 : j < s.k
            · by_cases h5 : j < s.res.size <;> simp [h3, h4, h5, hg, hb, Flow.bind]
            · simp [h3, h4, hg, hb, Flow.bind]
      · simp only [h1, h2, h3, decide_true, decide_false, if_true, if_false, Flow.bind_cont, ite_true, ite_false]
        cases hb : I.below (s.i + 1) s.rng with
        | mk j rng2 =>
          by_cases h4 : j < s.k
          · by_cases h5 : j < s.res.size <;> simp [h3, h4, h5, hb, Flow.bind]
          · simp [h3, h4, hb, Flow.bind]
    · by_cases h3 : s.i ≥ s.skipUntil
      · simp only [h1, h2, h3, decide_true, decide_false, if_true, if_false, ite_true, ite_false]
        cases hg : I.gap s.k (s.i + 1) s.rng with
        | mk g rng1 =>
          cases hb : I.below s.k rng1 with
          | mk j rng2 =>
            by_cases h5 : j < s.res.size <;> simp [h5, hg, hb, Flow.bind]
      · simp [h1, h2, h3, Flow.bind]

theorem reservoir_clear_eq {R : Type} (s : St R) :
    reservoir_clear R s.rng s.res.toList s.i s.skipUntil =
      Flow.cont ((Reservoir.clear s).rng, (Reservoir.clear s).res.toList, (Reservoir.clear s).i, (Reservoir.clear s).skipUntil) := by
  simp [reservoir_clear, Reservoir.clear]

end Pds.KernelTie

namespace Pds.KernelTie
open Pds Pds.Generated.Kernels Pds.Reservoir

/-- `add` never changes `k` -/
theorem reservoir_add_k {R : Type} (I : RngI R) (s s' : St R) (x : Nat) (h : Reservoir.add I s x = some s') : s'.k = s.k := by
  unfold Reservoir.add at h
  by_cases h1 : s.i < s.k
  · simp only [h1, if_true] at h; cases h; rfl
  · simp only [h1, if_false] at h
    by_cases h2 : s.i < phaseEnd s.k
    · simp only [h2, if_true] at h
      repeat' (split at h)
      all_goals (first | (cases h; rfl) | (cases h))
    · simp only [h2, if_false] at h
      by_cases h3 : s.i ≥ s.skipUntil
      · simp only [h3, if_true] at h
        repeat' (split at h)
        all_goals (first | (cases h; rfl) | (cases h))
      · simp only [h3, if_false] at h; cases h; rfl

end Pds.KernelTie
