import Pds.Model.HllCount
/-!
Index safety of `HyperLogLog::count()` (C03, part A) and the structure of the k-nearest-neighbour
walk (part B), for *every* outcome of the float comparisons.

Cursor encoding used throughout: the left cursor `l : Option Nat` is read as the number of array
positions still available on the left (`encL`: `some i ↦ i + 1`, `none ↦ 0`), the right cursor as a
position (`encR len`: `some i ↦ i`, `none ↦ len`).  A walk step either returns `encL l - 1` and
decrements `encL`, or returns `encR r` and increments `encR`.
-/
set_option maxRecDepth 8000
namespace Pds.HllCount
open Pds.Generated

/-! ### shapes of the generated tables -/

theorem rawBits_size : rawBits.size = 15 := by decide +kernel
theorem biasBits_size : biasBits.size = 15 := by decide +kernel
theorem thresholds_size : thresholds.size = 15 := by decide +kernel
theorem pow2minxBits_size : pow2minxBits.size = 256 := by decide +kernel

theorem rawBits_row_sizes :
    rawBits.map (·.size) = #[79, 159, 200, 200, 200, 201, 200, 201, 201, 200, 201, 201, 200, 201, 200] := by
  decide +kernel

theorem biasBits_row_sizes :
    biasBits.map (·.size) = #[79, 159, 200, 200, 200, 201, 200, 201, 201, 200, 201, 201, 200, 201, 200] := by
  decide +kernel

theorem rawDec_row_sizes :
    rawDec.map (·.size) = #[79, 159, 200, 200, 200, 201, 200, 201, 201, 200, 201, 201, 200, 201, 200] := by
  decide +kernel

theorem biasDec_row_sizes :
    biasDec.map (·.size) = #[79, 159, 200, 200, 200, 201, 200, 201, 201, 200, 201, 201, 200, 201, 200] := by
  decide +kernel

theorem table_shapes : ∀ p, p < 15 →
    (rawBits.getD p #[]).size = (biasBits.getD p #[]).size ∧ hllK ≤ (rawBits.getD p #[]).size := by
  decide +kernel

theorem pow2F_size : pow2F.size = 256 := by
  unfold pow2F; rw [Array.size_map]; exact pow2minxBits_size

theorem rawF_size : rawF.size = 15 := by
  unfold rawF; rw [Array.size_map]; exact rawBits_size

theorem biasF_size : biasF.size = 15 := by
  unfold biasF; rw [Array.size_map]; exact biasBits_size

/-- For each precision the raw and bias rows exist, have equal length, and at least `K = 6` entries. -/
theorem rows_exist {p : Nat} (hp : p < 15) :
    ∃ lookup bias, rawF[p]? = some lookup ∧ biasF[p]? = some bias ∧
      lookup.size = bias.size ∧ hllK ≤ lookup.size := by
  have h1 : p < rawBits.size := by rw [rawBits_size]; exact hp
  have h2 : p < biasBits.size := by rw [biasBits_size]; exact hp
  obtain ⟨hs, hk⟩ := table_shapes p hp
  have e1 : rawBits.getD p #[] = rawBits[p]'h1 := by simp [Array.getD, h1]
  have e2 : biasBits.getD p #[] = biasBits[p]'h2 := by simp [Array.getD, h2]
  rw [e1, e2] at hs
  rw [e1] at hk
  refine ⟨(rawBits[p]'h1).map Float.ofBits, (biasBits[p]'h2).map Float.ofBits, ?_, ?_, ?_, ?_⟩
  · unfold rawF; rw [Array.getElem?_map, Array.getElem?_eq_getElem h1]; rfl
  · unfold biasF; rw [Array.getElem?_map, Array.getElem?_eq_getElem h2]; rfl
  · rw [Array.size_map, Array.size_map]; exact hs
  · rw [Array.size_map]; exact hk

/-! ### binary search -/

theorem bsLoop_some {cmp : Float → Float → Option Cmp} (hc : ∀ v e, (cmp v e).isSome)
    (a : Array Float) (e : Float) :
    ∀ fuel size base, 0 < size → base + size ≤ a.size →
      ∃ r, bsLoop cmp a e fuel size base = some r ∧ base ≤ r ∧ r < base + size := by
  intro fuel
  induction fuel with
  | zero => intro size base hs hb; exact ⟨base, rfl, Nat.le_refl _, by omega⟩
  | succ n ih =>
    intro size base hs hb
    unfold bsLoop
    split
    · rename_i h1
      have hmid : base + size / 2 < a.size := by omega
      simp only [Array.getElem?_eq_getElem hmid]
      cases hcv : cmp a[base + size / 2] e with
      | none => have := hc a[base + size / 2] e; simp [hcv] at this
      | some c =>
        simp only
        split
        · obtain ⟨r, hr, h2, h3⟩ := ih (size - size / 2) base (by omega) (by omega)
          exact ⟨r, hr, h2, by omega⟩
        · obtain ⟨r, hr, h2, h3⟩ := ih (size - size / 2) (base + size / 2) (by omega) (by omega)
          exact ⟨r, hr, by omega, by omega⟩
    · exact ⟨base, rfl, Nat.le_refl _, by omega⟩

/-! ### cursors -/

def encL : Option Nat → Nat
  | none => 0
  | some i => i + 1

def encR (len : Nat) : Option Nat → Nat
  | none => len
  | some i => i

/-- Both cursors, when present, point into the array. -/
def InRange (len : Nat) (l r : Option Nat) : Prop :=
  (∀ i, l = some i → i < len) ∧ (∀ i, r = some i → i < len)

/-- The possible results of `neighbor_search_startpoints`: either an exact hit `(some i, some i)`, or
the two cursors are adjacent around the insertion point (`encL l = encR r`). -/
theorem startpoints_some {cmp : Float → Float → Option Cmp} (hc : ∀ v e, (cmp v e).isSome)
    (a : Array Float) (e : Float) :
    ∃ l r, startpoints cmp a e = some (l, r) ∧ (0 < a.size → InRange a.size l r) ∧
      ((∃ i, i < a.size ∧ l = some i ∧ r = some i) ∨ (encL l = encR a.size r ∧ encL l ≤ a.size)) := by
  unfold startpoints
  split
  · rename_i h0
    exact ⟨none, some 0, rfl, by omega, Or.inr (by simp [encL, encR])⟩
  · rename_i h0
    obtain ⟨base, hb, _, hlt⟩ := bsLoop_some hc a e a.size a.size 0 (by omega) (by omega)
    have hbase : base < a.size := by omega
    simp only [hb, Array.getElem?_eq_getElem hbase]
    cases hcv : cmp a[base] e with
    | none => have := hc a[base] e; simp [hcv] at this
    | some c =>
      cases c with
      | eq =>
        refine ⟨some base, some base, rfl, fun _ => ⟨?_, ?_⟩, Or.inl ⟨base, hbase, rfl, rfl⟩⟩ <;>
          (intro i hi; cases hi; exact hbase)
      | lt =>
        simp only
        have : (Cmp.lt == Cmp.lt) = true := by decide
        simp only [this, if_true]
        split
        · omega
        · split
          · rename_i h2
            refine ⟨some (base + 1 - 1), none, rfl, fun _ => ⟨?_, ?_⟩, Or.inr ?_⟩
            · intro i hi; cases hi; omega
            · intro i hi; cases hi
            · simp [encL, encR]; omega
          · rename_i h2
            refine ⟨some (base + 1 - 1), some (base + 1), rfl, fun _ => ⟨?_, ?_⟩, Or.inr ?_⟩
            · intro i hi; cases hi; omega
            · intro i hi; cases hi; omega
            · simp [encL, encR]; omega
      | gt =>
        simp only
        have : (Cmp.gt == Cmp.lt) = false := by decide
        simp only [this, Bool.false_eq_true, if_false, Nat.add_zero]
        split
        · rename_i h1
          refine ⟨none, some 0, rfl, fun _ => ⟨?_, ?_⟩, Or.inr ?_⟩
          · intro i hi; cases hi
          · intro i hi; cases hi; omega
          · simp [encL, encR]
        · split
          · omega
          · rename_i h1 h2
            refine ⟨some (base - 1), some base, rfl, fun _ => ⟨?_, ?_⟩, Or.inr ?_⟩
            · intro i hi; cases hi; omega
            · intro i hi; cases hi; omega
            · simp [encL, encR]; omega

/-! ### the walk -/

/-- One walk step from in-range cursors with something remaining: it succeeds and is either a
*left* step (returns `encL l - 1`, decrements `encL`, keeps `r`) or a *right* step (returns
`encR r`, increments `encR`, keeps `l`); cursors stay in range. -/
theorem knnStep_some (a : Array Float) (e : Float) (l r : Option Nat) (hr : InRange a.size l r)
    (hrem : 0 < encL l + (a.size - encR a.size r)) :
    ∃ i l' r', knnStep a e l r = some (i, l', r') ∧ InRange a.size l' r' ∧ i < a.size ∧
      ((0 < encL l ∧ i = encL l - 1 ∧ encL l' = encL l - 1 ∧ r' = r) ∨
       (encR a.size r < a.size ∧ i = encR a.size r ∧ encR a.size r' = encR a.size r + 1 ∧ l' = l)) := by
  obtain ⟨hl, hr⟩ := hr
  have goLeft : ∀ il, l = some il →
      InRange a.size (if il > 0 then some (il - 1) else none) r ∧ il < a.size ∧
      ((0 < encL l ∧ il = encL l - 1 ∧ encL (if il > 0 then some (il - 1) else none) = encL l - 1 ∧ r = r) ∨
       (encR a.size r < a.size ∧ il = encR a.size r ∧ encR a.size r = encR a.size r + 1 ∧
         (if il > 0 then some (il - 1) else none) = l)) := by
    intro il h; subst h
    have := hl il rfl
    refine ⟨⟨?_, hr⟩, this, Or.inl ⟨by simp [encL], by simp [encL], ?_, rfl⟩⟩
    · intro i hi; split at hi <;> cases hi; omega
    · split <;> simp [encL] <;> omega
  have goRight : ∀ ir, r = some ir →
      InRange a.size l (if ir < a.size - 1 then some (ir + 1) else none) ∧ ir < a.size ∧
      ((0 < encL l ∧ ir = encL l - 1 ∧ encL l = encL l - 1 ∧
          (if ir < a.size - 1 then some (ir + 1) else none) = r) ∨
       (encR a.size r < a.size ∧ ir = encR a.size r ∧
         encR a.size (if ir < a.size - 1 then some (ir + 1) else none) = encR a.size r + 1 ∧ l = l)) := by
    intro ir h; subst h
    have := hr ir rfl
    refine ⟨⟨hl, ?_⟩, this, Or.inr ⟨by simpa [encR] using this, by simp [encR], ?_, rfl⟩⟩
    · intro i hi; split at hi <;> cases hi; omega
    · split <;> simp [encR] <;> omega
  unfold knnStep
  cases l with
  | none =>
    cases r with
    | none => simp [encL, encR] at hrem
    | some ir => exact ⟨_, _, _, rfl, goRight ir rfl⟩
  | some il =>
    cases r with
    | none => exact ⟨_, _, _, rfl, goLeft il rfl⟩
    | some ir =>
      have h1 := hl il rfl
      have h2 := hr ir rfl
      simp only [Array.getElem?_eq_getElem h1, Array.getElem?_eq_getElem h2]
      split
      · exact ⟨_, _, _, rfl, goRight ir rfl⟩
      · exact ⟨_, _, _, rfl, goLeft il rfl⟩

/-- `k` walk steps from in-range cursors with at least `k` positions remaining succeed; `j` of them
are left steps, the returned indices are exactly the `j` positions below `encL l` and the `k - j`
positions from `encR r` on; all are `< len`; and they are pairwise distinct when the cursors do not
overlap (`encL l ≤ encR r`). -/
theorem knn_some (a : Array Float) (e : Float) :
    ∀ k l r, InRange a.size l r → k ≤ encL l + (a.size - encR a.size r) →
      ∃ idxs j, knn a e k l r = some idxs ∧ idxs.length = k ∧ j ≤ k ∧ j ≤ encL l ∧
        encR a.size r + (k - j) ≤ a.size ∧
        (∀ x, x ∈ idxs ↔ (encL l - j ≤ x ∧ x < encL l) ∨ (encR a.size r ≤ x ∧ x < encR a.size r + (k - j))) ∧
        (encL l ≤ encR a.size r → idxs.Nodup) := by
  intro k
  induction k with
  | zero =>
    intro l r _ _
    exact ⟨[], 0, rfl, rfl, Nat.le_refl _, Nat.zero_le _, by
      have : encR a.size r ≤ a.size := by
        cases r with
        | none => simp [encR]
        | some i => have := (‹InRange a.size l (some i)›).2 i rfl; simp [encR]; omega
      omega, by intro x; simp, fun _ => List.nodup_nil⟩
  | succ k ih =>
    intro l r hr hk
    obtain ⟨i, l', r', hstep, hr', hi, hcase⟩ := knnStep_some a e l r hr (by omega)
    unfold knn
    simp only [hstep]
    rcases hcase with ⟨h0, hiL, hL', rfl⟩ | ⟨h0, hiR, hR', rfl⟩
    · obtain ⟨idxs, j, hknn, hlen, hjk, hjl, hjr, hmem, hnd⟩ := ih l' r' hr' (by omega)
      refine ⟨i :: idxs, j + 1, by simp [hknn], by simp [hlen], by omega, by omega, by omega, ?_, ?_⟩
      · intro x
        rw [List.mem_cons, hmem]
        have : k + 1 - (j + 1) = k - j := by omega
        rw [this]; omega
      · intro hle
        refine List.nodup_cons.2 ⟨?_, hnd (by omega)⟩
        rw [hmem]; omega
    · obtain ⟨idxs, j, hknn, hlen, hjk, hjl, hjr, hmem, hnd⟩ := ih l' r' hr' (by omega)
      refine ⟨i :: idxs, j, by simp [hknn], by simp [hlen], by omega, by omega, by omega, ?_, ?_⟩
      · intro x
        rw [List.mem_cons, hmem]
        omega
      · intro hle
        refine List.nodup_cons.2 ⟨?_, hnd (by omega)⟩
        rw [hmem]; omega

end Pds.HllCount
