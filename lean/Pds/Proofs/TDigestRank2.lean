import Pds.Proofs.TDigestRank

/-!
Two complements to `TDigestRank.lean`.

* **Every reachable state, any number of passes**: `quantile` and `cdf` are rank-accurate *with respect
  to the centroid summary itself* — the weight of centroids whose mean is below the estimate differs
  from `S·q` by at most `3/2` of the heaviest centroid.  (A well-formed centroid list is the one-pass
  fusion of itself, so this is `OnePass.quantile_rank` with `inp := s.centroids`.)  What no theorem can
  give for several passes is how well the centroid means summarise the *data*: the t-digest has no
  worst-case guarantee there (adversarial insertion orders exist), so the data-level statement is
  proved for one pass only (`TDigestRank.lean`).
* **K1 over ℝ**: the explicit one-pass bound with `W = π/δ`.
-/

namespace Pds.TDigest
open Pds.PL
variable {α : Type} [Field α] [LinearOrder α] [IsStrictOrderedRing α]

omit [LinearOrder α] [IsStrictOrderedRing α] in
/-- a non-empty list is the (trivial) fusion of itself: every group is a singleton -/
theorem Fused.refl : ∀ (l : List (Centroid α)), l ≠ [] → Fused l l
  | [], h => absurd rfl h
  | [c], _ => Fused.last c
  | a :: b :: rest, _ => Fused.push (Fused.refl (b :: rest) (by simp))

omit [IsStrictOrderedRing α] in
/-- a well-formed, non-empty merged state is the one-pass fusion of its own centroid list -/
theorem WF.onePass_self {s : St α} (h : WF s) (hne : s.centroids ≠ []) :
    ∃ mn mx, OnePass s s.centroids mn mx := by
  obtain ⟨mn, mx, hmin, hmax, hr⟩ := h.bounds hne
  exact ⟨mn, mx, h.backlog_nil, Fused.refl _ hne, h.pos, h.sorted, hmin, hmax, hr⟩

/-- `quantile` against the centroid summary, for every well-formed state -/
theorem WF.quantile_rank_centroids {s : St α} (h : WF s) (hne : s.centroids ≠ []) {wmax : α}
    (hw : ∀ c ∈ s.centroids, c.count ≤ wmax) {q : α} (hq0 : 0 ≤ q) (hq1 : q ≤ 1) :
    ∃ v, quantileInner s q = .val v ∧
      wLT s.centroids v ≤ sumCount s.centroids * q + 3 / 2 * wmax ∧
      sumCount s.centroids * q ≤ wLE s.centroids v + 3 / 2 * wmax := by
  obtain ⟨mn, mx, hop⟩ := h.onePass_self hne
  exact hop.quantile_rank hw hq0 hq1

/-- `cdf` against the centroid summary, for every well-formed state -/
theorem WF.cdf_rank_centroids {s : St α} (h : WF s) (hne : s.centroids ≠ []) {wmax : α}
    (hw : ∀ c ∈ s.centroids, c.count ≤ wmax) (x : α) :
    ∃ r, cdfInner s x = some r ∧
      wLT s.centroids x - 3 / 2 * wmax ≤ sumCount s.centroids * r ∧
      sumCount s.centroids * r ≤ wLE s.centroids x + 3 / 2 * wmax := by
  obtain ⟨mn, mx, hop⟩ := h.onePass_self hne
  exact hop.cdf_rank hw x

/-- after *any* history (any weights, any number of passes, any scale function) the public `quantile`
is rank-accurate with respect to the centroids it reads -/
theorem quantile_rank_centroids_of_run (sf : ScaleFn α) {mb : Nat} {ops : List (Op α)} {s : St α}
    (h : run sf (new mb) ops = some s) (hne : (merge sf s).centroids ≠ []) {wmax : α}
    (hw : ∀ c ∈ (merge sf s).centroids, c.count ≤ wmax) {q : α} (hq0 : 0 ≤ q) (hq1 : q ≤ 1) :
    ∃ v, (quantile sf s q).2 = .val v ∧
      wLT (merge sf s).centroids v ≤ sumCount (merge sf s).centroids * q + 3 / 2 * wmax ∧
      sumCount (merge sf s).centroids * q ≤ wLE (merge sf s).centroids v + 3 / 2 * wmax := by
  have hq : (quantile sf s q).2 = quantileInner (merge sf s) q := by
    unfold quantile; rw [if_pos ⟨hq0, hq1⟩]
  rw [hq]
  exact (wf_reachable sf h).quantile_rank_centroids hne hw hq0 hq1

/-- the same for `cdf` -/
theorem cdf_rank_centroids_of_run (sf : ScaleFn α) {mb : Nat} {ops : List (Op α)} {s : St α}
    (h : run sf (new mb) ops = some s) (hne : (merge sf s).centroids ≠ []) {wmax : α}
    (hw : ∀ c ∈ (merge sf s).centroids, c.count ≤ wmax) (x : α) :
    ∃ r, (cdf sf s x).2 = some r ∧
      wLT (merge sf s).centroids x - 3 / 2 * wmax ≤ sumCount (merge sf s).centroids * r ∧
      sumCount (merge sf s).centroids * r ≤ wLE (merge sf s).centroids x + 3 / 2 * wmax :=
  (wf_reachable sf h).cdf_rank_centroids hne hw x

/-! ### K1 over ℝ, one pass over unit weights: `W = π/δ` -/

theorem k1_unit_wmax {δ : ℝ} (hδ : 0 < δ) {mb : Nat} {xs : List ℝ} {s : St ℝ}
    (h : run (k1 δ) (new mb) (unitInserts xs) = some s) (hne : xs ≠ []) (hmb : xs.length ≤ mb) :
    ∀ c ∈ (merge (k1 δ) s).centroids, c.count ≤ max 1 (Real.pi / δ * (xs.length : ℝ)) := by
  have hop := onePassUnit_of_run (k1 δ) h hne hmb
  obtain ⟨hc, hb, _⟩ := run_unitInserts_new (k1 δ) h hmb
  intro c hcm
  rcases merge_width (k1 δ) s hop.pos (fun q h0 h1 => lim_width_k1 hδ _ h0 h1.le) c hcm
    with hin | hle
  · rw [hc, hb, List.nil_append, List.mem_reverse] at hin
    obtain ⟨x, _, rfl⟩ := List.mem_map.1 hin
    exact le_max_left _ _
  · rw [hop.total] at hle
    have hn : (0 : ℝ) < (xs.length : ℝ) := by exact_mod_cast List.length_pos_iff.2 hne
    rw [div_le_iff₀ hn] at hle
    exact le_trans hle (le_max_right _ _)

/-- `K1`, `quantile`, one pass over `n` unit-weight values: rank error at most `3/2·max 1 (πn/δ)` -/
theorem quantile_rank_K1 {δ : ℝ} (hδ : 0 < δ) {mb : Nat} {xs : List ℝ} {s : St ℝ}
    (h : run (k1 δ) (new mb) (unitInserts xs) = some s) (hne : xs ≠ []) (hmb : xs.length ≤ mb)
    {q : ℝ} (hq0 : 0 ≤ q) (hq1 : q ≤ 1) :
    ∃ v, (quantile (k1 δ) s q).2 = .val v ∧
      (countLT xs v : ℝ) ≤ (xs.length : ℝ) * q + 3 / 2 * max 1 (Real.pi / δ * (xs.length : ℝ)) ∧
      (xs.length : ℝ) * q ≤ (countLE xs v : ℝ) + 3 / 2 * max 1 (Real.pi / δ * (xs.length : ℝ)) :=
  quantile_rank_of_run (k1 δ) h hne hmb (k1_unit_wmax hδ h hne hmb) hq0 hq1

/-- `K1`, `cdf` -/
theorem cdf_rank_K1 {δ : ℝ} (hδ : 0 < δ) {mb : Nat} {xs : List ℝ} {s : St ℝ}
    (h : run (k1 δ) (new mb) (unitInserts xs) = some s) (hne : xs ≠ []) (hmb : xs.length ≤ mb) (x : ℝ) :
    ∃ r, (cdf (k1 δ) s x).2 = some r ∧
      (countLT xs x : ℝ) - 3 / 2 * max 1 (Real.pi / δ * (xs.length : ℝ)) ≤ (xs.length : ℝ) * r ∧
      (xs.length : ℝ) * r ≤ (countLE xs x : ℝ) + 3 / 2 * max 1 (Real.pi / δ * (xs.length : ℝ)) :=
  cdf_rank_of_run (k1 δ) h hne hmb (k1_unit_wmax hδ h hne hmb) x

end Pds.TDigest
