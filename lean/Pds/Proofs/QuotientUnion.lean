import Pds.Proofs.QuotientRefine
/-!
`union`, part 1: the walk over one cluster of the other filter, relative to the cluster start `z`.
The FIFO queue holds the occupied quotients that still wait for their run.
-/
namespace Pds.Quotient
variable {N : Nat}

/-- one iteration body of the cluster walk, after the queue handling -/
def uStep (o : St N) (i : Fin N) (fuel : Nat) (j : Fin N) (t : St N) (quotient : Fin N)
    (queue : List (Fin N)) : Option (St N × Res) :=
  match insertInternal t quotient (o.get j).rem with
  | none => none
  | some (t', .full) => some (t', .full)
  | some (t', .ok _) => unionCluster o i fuel (incr j) quotient queue t'

theorem unionCluster_succ (o : St N) (i : Fin N) (fuel : Nat) (j quotient : Fin N)
    (queue : List (Fin N)) (t : St N) :
    unionCluster o i (fuel + 1) j quotient queue t =
      if j != i && (o.get j).shift then
        if !(o.get j).cont then
          match (if (o.get j).occ then queue ++ [j] else queue) with
          | [] => none
          | qh :: qt => uStep o i fuel j t qh qt
        else uStep o i fuel j t quotient (if (o.get j).occ then queue ++ [j] else queue)
      else some (t, .ok true) := rfl

/-- `l` lists, in increasing order, the occupied slots in `(lo, hi]` -/
def QOk (o : St N) (z : Fin N) (lo hi : Nat) (l : List Nat) : Prop :=
  l.Pairwise (· < ·) ∧ ∀ a, a ∈ l ↔ (lo < a ∧ a ≤ hi ∧ (o.at z a).occ = true)

theorem QOk.push {o : St N} {z : Fin N} {lo hi : Nat} {l : List Nat} (h : QOk o z lo hi l)
    (hlo : lo ≤ hi) :
    QOk o z lo (hi + 1) (if (o.at z (hi + 1)).occ then l ++ [hi + 1] else l) := by
  obtain ⟨h1, h2⟩ := h
  cases ho : (o.at z (hi + 1)).occ
  · simp only [Bool.false_eq_true, if_false]
    refine ⟨h1, fun a => ?_⟩
    rw [h2]
    constructor
    · rintro ⟨a1, a2, a3⟩; exact ⟨a1, by omega, a3⟩
    · rintro ⟨a1, a2, a3⟩
      refine ⟨a1, ?_, a3⟩
      by_cases e : a = hi + 1
      · rw [e, ho] at a3; cases a3
      · omega
  · simp only [if_true]
    constructor
    · rw [List.pairwise_append]
      refine ⟨h1, List.pairwise_singleton _ _, ?_⟩
      intro a ha b hb
      have := (h2 a).mp ha
      simp only [List.mem_singleton] at hb
      omega
    · intro a
      rw [List.mem_append, h2, List.mem_singleton]
      constructor
      · rintro (⟨a1, a2, a3⟩ | rfl)
        · exact ⟨a1, by omega, a3⟩
        · exact ⟨by omega, Nat.le_refl _, ho⟩
      · rintro ⟨a1, a2, a3⟩
        by_cases e : a = hi + 1
        · exact Or.inr e
        · exact Or.inl ⟨a1, by omega, a3⟩

/-- popping: the front is the first occupied slot after `lo` -/
theorem QOk.pop {o : St N} {z : Fin N} {lo hi a1 : Nat} {l : List Nat} (h : QOk o z lo hi l)
    (hmem : a1 ∈ l) (hfirst : ∀ a, lo < a → a < a1 → (o.at z a).occ = false) :
    ∃ l', l = a1 :: l' ∧ QOk o z a1 hi l' := by
  obtain ⟨h1, h2⟩ := h
  rcases l with _ | ⟨b, l'⟩
  · cases hmem
  · rw [List.pairwise_cons] at h1
    have hb := (h2 b).mp (by simp)
    have hba : b = a1 := by
      rcases List.mem_cons.mp hmem with e | e
      · exact e.symm
      · have := h1.1 a1 e
        have := hfirst b hb.1 this
        rw [hb.2.2] at this; cases this
    subst hba
    refine ⟨l', rfl, h1.2, fun a => ?_⟩
    constructor
    · intro ha
      have := (h2 a).mp (List.mem_cons_of_mem _ ha)
      exact ⟨h1.1 a ha, this.2.1, this.2.2⟩
    · rintro ⟨a1', a2, a3⟩
      have := (h2 a).mpr ⟨by omega, a2, a3⟩
      rcases List.mem_cons.mp this with e | e
      · omega
      · exact e

end Pds.Quotient
