/-
Cuckoo filter proofs, part 2: bucket primitives, the undo log, the eviction loop and
`insert_internal`.
-/
import Pds.Proofs.CuckooBasic

namespace Pds.Cuckoo

/-- every slot of bucket `i` is occupied -/
def Full (t : Array Nat) (bs i : Nat) : Prop := ∀ e, e < bs → gt t (i * bs + e) ≠ 0

/-! ## The undo log -/

theorem restore_set_undo {t : Array Nat} {x : Nat} (hx : x < t.size) (v : Nat) (log : Log) :
    restore (t.setIfInBounds x v) ((x, gt t x) :: log) = restore t log := by
  simp only [restore]; rw [set_set_gt hx]

/-! ## Bucket primitives -/

/-- in-bucket position of a slot found by `find` -/
theorem bucket_pos {i bs x : Nat} (h1 : i * bs ≤ x) (h2 : x < i * bs + bs) :
    ∃ e, e < bs ∧ x = i * bs + e := ⟨x - i * bs, by omega, by omega⟩

theorem writeToBucket_spec {bs nb : Nat} {t : Array Nat} (hv : TValid bs nb t) {i : Nat} (hi : i < nb)
    (f : Nat) (log : Log) :
    (writeToBucket t bs i f log = some none ∧ Full t bs i) ∨
    (∃ e, e < bs ∧ gt t (i * bs + e) = 0 ∧
      writeToBucket t bs i f log =
        some (some (t.setIfInBounds (i * bs + e) f, (i * bs + e, 0) :: log))) := by
  unfold writeToBucket
  cases hf : find t 0 (i * bs) bs with
  | found x =>
    right
    obtain ⟨a, b, _, d, _⟩ := find_found hf
    obtain ⟨e, he, rfl⟩ := bucket_pos a b
    exact ⟨e, he, d, rfl⟩
  | absent =>
    left
    refine ⟨rfl, ?_⟩
    intro e he
    exact find_absent hf _ (by omega) (by omega)
  | oob => exact absurd hf (find_not_oob (hv.bucket_le hi))

/-- what a successful free-slot write does -/
theorem write_effect (hash : List Nat → Nat) {bs nb : Nat} {t : Array Nat} (hv : TValid bs nb t)
    {i e : Nat} (hi : i < nb) (he : e < bs) (h0 : gt t (i * bs + e) = 0) (f : Nat) (log : Log) :
    TValid bs nb (t.setIfInBounds (i * bs + e) f) ∧
    absT hash bs nb (t.setIfInBounds (i * bs + e) f) = absT hash bs nb t + slotV hash nb f i ∧
    restore (t.setIfInBounds (i * bs + e) f) ((i * bs + e, 0) :: log) = restore t log := by
  have hx : i * bs + e < t.size := by rw [hv.size]; exact slot_lt hi he
  refine ⟨hv.set _ _, ?_, ?_⟩
  · have := absT_set hash bs nb hx f
    rw [h0, slotV_zero, slot_div he, add_zero] at this
    exact this
  · have := restore_set_undo hx f log
    rw [h0] at this
    exact this

theorem hasInBucket_spec {bs nb : Nat} {t : Array Nat} (hv : TValid bs nb t) {i : Nat} (hi : i < nb)
    (f : Nat) :
    (hasInBucket t bs i f = some false ∧ ∀ e, e < bs → gt t (i * bs + e) ≠ f) ∨
    (hasInBucket t bs i f = some true ∧ ∃ e, e < bs ∧ gt t (i * bs + e) = f) := by
  unfold hasInBucket
  cases hf : find t f (i * bs) bs with
  | found x =>
    right
    obtain ⟨a, b, _, d, _⟩ := find_found hf
    obtain ⟨e, he, rfl⟩ := bucket_pos a b
    exact ⟨rfl, e, he, d⟩
  | absent =>
    left
    exact ⟨rfl, fun e he => find_absent hf _ (by omega) (by omega)⟩
  | oob => exact absurd hf (find_not_oob (hv.bucket_le hi))

theorem removeFromBucket_spec {bs nb : Nat} {t : Array Nat} (hv : TValid bs nb t) {i : Nat}
    (hi : i < nb) (f : Nat) :
    (removeFromBucket t bs i f = some none ∧ ∀ e, e < bs → gt t (i * bs + e) ≠ f) ∨
    (∃ e, e < bs ∧ gt t (i * bs + e) = f ∧
      removeFromBucket t bs i f = some (some (t.setIfInBounds (i * bs + e) 0))) := by
  unfold removeFromBucket
  cases hf : find t f (i * bs) bs with
  | found x =>
    right
    obtain ⟨a, b, _, d, _⟩ := find_found hf
    obtain ⟨e, he, rfl⟩ := bucket_pos a b
    exact ⟨e, he, d, rfl⟩
  | absent =>
    left
    exact ⟨rfl, fun e he => find_absent hf _ (by omega) (by omega)⟩
  | oob => exact absurd hf (find_not_oob (hv.bucket_le hi))

/-- what a successful removal does -/
theorem remove_effect (hash : List Nat → Nat) {bs nb : Nat} {t : Array Nat} (hv : TValid bs nb t)
    {i e f : Nat} (hi : i < nb) (he : e < bs) (hf : f ≠ 0) (h0 : gt t (i * bs + e) = f) :
    TValid bs nb (t.setIfInBounds (i * bs + e) 0) ∧
    absT hash bs nb (t.setIfInBounds (i * bs + e) 0) + {cls hash nb f i} = absT hash bs nb t := by
  have hx : i * bs + e < t.size := by rw [hv.size]; exact slot_lt hi he
  refine ⟨hv.set _ _, ?_⟩
  have := absT_set hash bs nb hx 0
  rw [h0, slotV_zero, slot_div he, add_zero, slotV_ne _ _ hf] at this
  exact this

/-! ## The eviction loop -/

/-- What `insert_internal` / the kick loop guarantee about their outcome `st`, started on table `t`
with count `n` and log `log`, for a fingerprint of class `c`. -/
structure StepOK {R : Type} (hash : List Nat → Nat) (bs nb : Nat) (t : Array Nat) (n : Nat)
    (log : Log) (c : Cls) (st : Step R) : Prop where
  valid : TValid bs nb st.table
  undo : restore st.table st.log = restore t log
  ok : ∀ b, st.res = .ok b →
    b = true ∧ absT hash bs nb st.table = absT hash bs nb t + {c} ∧ st.n = n + 1
  full : st.res = .full → st.n = n

/-- RNG contract: `gen_range(0..n)` answers below `n`. -/
def RngOK {R : Type} (I : RngI R) : Prop := ∀ n r, 0 < n → (I.below n r).1 < n

theorem kickLoop_spec {R : Type} (I : RngI R) (hI : RngOK I) (hash : List Nat → Nat) {bs nb : Nat} :
    ∀ (kicks : Nat) {t : Array Nat} (n : Nat) {f i : Nat} (rng : R) (log : Log),
      TValid bs nb t → f ≠ 0 → i < nb → Full t bs i →
      ∃ st, kickLoop I hash bs nb kicks t n f i rng log = some st ∧
        StepOK hash bs nb t n log (cls hash nb f i) st := by
  intro kicks
  induction kicks with
  | zero =>
    intro t n f i rng log hv _ _ _
    exact ⟨_, rfl, ⟨hv, rfl, (by intro b h; cases h), fun _ => rfl⟩⟩
  | succ kicks ih =>
    intro t n f i rng log hv hf hi hfull
    rcases hb : I.below bs rng with ⟨e, rng'⟩
    have he : e < bs := by have := hI bs rng hv.bs_pos; rw [hb] at this; exact this
    have hx : i * bs + e < t.size := by rw [hv.size]; exact slot_lt hi he
    have htmp : gt t (i * bs + e) ≠ 0 := hfull e he
    -- the swap
    have hv1 : TValid bs nb (t.setIfInBounds (i * bs + e) f) := hv.set _ _
    have habs1 := absT_set hash bs nb hx f
    rw [slot_div he, slotV_ne _ _ htmp, slotV_ne _ _ hf] at habs1
    have hundo1 := restore_set_undo hx f log
    have hi' : i ^^^ bucketOf hash nb (gt t (i * bs + e)) < nb :=
      hv.xor_lt hi (bucketOf_lt hash hv.nb_pos _)
    have hcls := cls_alt hash nb (gt t (i * bs + e)) i
    unfold kickLoop
    simp only [hb, getElem?_eq_gt hx]
    generalize gt t (i * bs + e) = tmp at *
    generalize i ^^^ bucketOf hash nb tmp = i' at *
    generalize t.setIfInBounds (i * bs + e) f = t1 at *
    rcases writeToBucket_spec hv1 hi' tmp ((i * bs + e, tmp) :: log) with ⟨hw, hfull'⟩ | ⟨e', he', h0, hw⟩
    · rw [hw]
      simp only
      obtain ⟨st, hst, hok⟩ := ih n rng' ((i * bs + e, tmp) :: log) hv1 htmp hi' hfull'
      refine ⟨st, hst, ⟨hok.valid, by rw [hok.undo, hundo1], ?_, hok.full⟩⟩
      intro b hb'
      obtain ⟨h1, h2, h3⟩ := hok.ok b hb'
      refine ⟨h1, ?_, h3⟩
      rw [h2, hcls, habs1]
    · rw [hw]
      simp only
      obtain ⟨w1, w2, w3⟩ := write_effect hash hv1 hi' he' h0 tmp ((i * bs + e, tmp) :: log)
      refine ⟨_, rfl, ⟨w1, by rw [w3, hundo1], ?_, by intro h; cases h⟩⟩
      intro b hb'
      simp only [Res.ok.injEq] at hb'
      refine ⟨hb'.symm, ?_, rfl⟩
      simp only
      rw [w2, slotV_ne _ _ htmp, hcls, habs1]

/-! ## `insert_internal` -/

theorem insertInternal_spec {R : Type} (I : RngI R) (hI : RngOK I) (hash : List Nat → Nat)
    {bs nb : Nat} (kicks : Nat) {t : Array Nat} (n : Nat) (rng : R) (log : Log) {f i1 i2 : Nat}
    (hv : TValid bs nb t) (hf : f ≠ 0) (hi1 : i1 < nb) (hi2 : i2 < nb)
    (hc : cls hash nb f i2 = cls hash nb f i1) :
    ∃ st, insertInternal I hash bs nb kicks t n rng log f i1 i2 = some st ∧
      StepOK hash bs nb t n log (cls hash nb f i1) st := by
  unfold insertInternal
  rcases writeToBucket_spec hv hi1 f log with ⟨hw, hfull1⟩ | ⟨e, he, h0, hw⟩
  · rw [hw]
    simp only
    rcases writeToBucket_spec hv hi2 f log with ⟨hw2, hfull2⟩ | ⟨e, he, h0, hw2⟩
    · rw [hw2]
      simp only
      rcases hb : I.bool rng with ⟨c, rng'⟩
      cases c with
      | true =>
        simp only [hb, if_true]
        exact kickLoop_spec I hI hash kicks n rng' log hv hf hi1 hfull1
      | false =>
        simp only [hb, Bool.false_eq_true, if_false]
        rw [← hc]
        exact kickLoop_spec I hI hash kicks n rng' log hv hf hi2 hfull2
    · rw [hw2]
      simp only
      obtain ⟨w1, w2, w3⟩ := write_effect hash hv hi2 he h0 f log
      refine ⟨_, rfl, ⟨w1, w3, ?_, by intro h; cases h⟩⟩
      intro b hb'
      simp only [Res.ok.injEq] at hb'
      refine ⟨hb'.symm, ?_, rfl⟩
      simp only
      rw [w2, slotV_ne _ _ hf, hc]
  · rw [hw]
    simp only
    obtain ⟨w1, w2, w3⟩ := write_effect hash hv hi1 he h0 f log
    refine ⟨_, rfl, ⟨w1, w3, ?_, by intro h; cases h⟩⟩
    intro b hb'
    simp only [Res.ok.injEq] at hb'
    refine ⟨hb'.symm, ?_, rfl⟩
    simp only
    rw [w2, slotV_ne _ _ hf]

/-- a free slot in the primary bucket makes `insert_internal` succeed at once -/
theorem insertInternal_of_free {R : Type} (I : RngI R) (hash : List Nat → Nat)
    {bs nb : Nat} (kicks : Nat) {t : Array Nat} (n : Nat) (rng : R) (log : Log) {f i1 : Nat} (i2 : Nat)
    (hv : TValid bs nb t) (hi1 : i1 < nb) (hfree : ¬ Full t bs i1) :
    ∃ st, insertInternal I hash bs nb kicks t n rng log f i1 i2 = some st ∧ st.res = .ok true := by
  unfold insertInternal
  rcases writeToBucket_spec hv hi1 f log with ⟨_, hfull1⟩ | ⟨e, he, h0, hw⟩
  · exact absurd hfull1 hfree
  · rw [hw]; exact ⟨_, rfl, rfl⟩

/-- a full bucket forces at least `bs` members -/
theorem card_ge_of_full (hash : List Nat → Nat) {bs nb : Nat} {t : Array Nat} (hv : TValid bs nb t)
    {i : Nat} (hi : i < nb) (hfull : Full t bs i) : bs ≤ (absT hash bs nb t).card := by
  unfold absT
  apply card_sumTo_ge (a := i * bs) (hv.bucket_le hi)
  intro p h1 h2
  obtain ⟨e, he, rfl⟩ := bucket_pos h1 h2
  simp [slot, slotV_ne _ _ (hfull e he)]

end Pds.Cuckoo
