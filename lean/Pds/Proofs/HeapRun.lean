/-
The `CMSHeap` model along a stream: the run, the combined invariant (heap indexes + sketch table),
and the consequences used by the property file C10.
-/
import Pds.Proofs.HeapInv
import Pds.Proofs.HeapCms
namespace Pds.Proofs.Heap
open Pds.CmsHeap
open Pds.Proofs.HeapCms (PosOk cell)

/-- one `add` of `x` (columns `pos x`); `none` = an earlier or the present call panicked -/
def step (pos : Nat → List Nat) (os : Option St) (x : Nat) : Option St :=
  os.bind (fun s => add s x (pos x))

/-- `CMSHeap::new(k, CountMinSketch::with_params(w, d))` followed by `add`ing the stream `xs` -/
def run (pos : Nat → List Nat) (k w d cmax : Nat) (xs : List Nat) : Option St :=
  xs.foldl (step pos) ((Cms.new w d cmax).bind (CmsHeap.new k))

theorem run_snoc (pos : Nat → List Nat) (k w d cmax : Nat) (xs : List Nat) (x : Nat) :
    run pos k w d cmax (xs ++ [x]) = (run pos k w d cmax xs).bind (fun s => add s x (pos x)) := by
  simp [run, List.foldl_append, step]

/-- `E` bounds the overestimate of the count-min sketch along the stream: whenever `x` is added after
the prefix `pre`, some row's cell of `x` (the number of stream elements sharing `x`'s column in that
row) exceeds the true count of `x` by at most `E`.  The estimate is the minimum of these cells. -/
def OverBy (pos : Nat → List Nat) (d : Nat) (xs : List Nat) (E : Nat) : Prop :=
  ∀ pre x, pre ++ [x] <+: xs →
    ∃ i, i < d ∧ cell pos i ((pos x).getD i 0) (pre ++ [x]) ≤ (pre ++ [x]).count x + E

theorem overBy_prefix {pos : Nat → List Nat} {d E : Nat} {xs ys : List Nat} (h : OverBy pos d ys E)
    (hp : xs <+: ys) : OverBy pos d xs E :=
  fun pre x hpre => h pre x (hpre.trans hp)

theorem overBy_of_le_length {pos : Nat → List Nat} {d E : Nat} {xs : List Nat} (hd : 1 ≤ d)
    (hE : xs.length ≤ E) : OverBy pos d xs E := by
  intro pre x hpre
  refine ⟨0, hd, ?_⟩
  have h1 := HeapCms.cell_le_length pos 0 ((pos x).getD 0 0) (pre ++ [x])
  have h2 := hpre.length_le
  omega

/-- a row that separates the stream's elements makes the sketch exact -/
theorem overBy_zero_of_inj {pos : Nat → List Nat} {w d : Nat} {xs : List Nat} (hpos : PosOk pos w d)
    (i : Nat) (hi : i < d)
    (hinj : ∀ x ∈ xs, ∀ y ∈ xs, (pos y)[i]? = (pos x)[i]? → y = x) : OverBy pos d xs 0 := by
  intro pre x hpre
  refine ⟨i, hi, ?_⟩
  have hx : x ∈ xs := List.IsPrefix.mem (by simp) hpre
  rw [HeapCms.cell_eq_count_of_inj pos i x (pre ++ [x]) (by rw [(hpos x).1]; exact hi)]
  · omega
  · intro y hy; exact hinj x hx y (List.IsPrefix.mem hy hpre)

/-- the standing assumptions: valid column function, `k, w, d ≥ 1` -/
structure Setup (pos : Nat → List Nat) (k w d : Nat) : Prop where
  hpos : PosOk pos w d
  hk : 1 ≤ k
  hw : 1 ≤ w
  hd : 1 ≤ d

/-- combined invariant -/
structure GInv (pos : Nat → List Nat) (k w d cmax E : Nat) (xs : List Nat) (s : St) : Prop where
  k_eq : s.k = k
  heap : HInv k E xs s.obj2count s.tree
  cms : HeapCms.Inv pos w d cmax xs s.cms

theorem run_nil {pos : Nat → List Nat} {k w d : Nat} (hs : Setup pos k w d) (cmax E : Nat) :
    ∃ s, run pos k w d cmax [] = some s ∧ GInv pos k w d cmax E [] s := by
  obtain ⟨c, hc⟩ := HeapCms.new_ok d cmax hs.hw
  have hk : k > 0 := hs.hk
  refine ⟨⟨k, c, [], []⟩, ?_, rfl, hinv_nil k E, HeapCms.inv_new hc⟩
  simp [run, hc, CmsHeap.new, hk]

/-- the result of one `add` from a state satisfying the invariant -/
structure StepOut (pos : Nat → List Nat) (k w d cmax E : Nat) (xs : List Nat) (x : Nat) (s s' : St) : Prop where
  inv : GInv pos k w d cmax E (xs ++ [x]) s'
  mono : s.obj2count.length ≤ s'.obj2count.length
  keep : s.obj2count.length = k → ∀ b, (∀ p ∈ s.obj2count, b ≤ p.2) → ∀ p ∈ s'.obj2count, b ≤ p.2

theorem ginv_step {pos : Nat → List Nat} {k w d cmax E : Nat} {xs : List Nat} {s : St}
    (hs : Setup pos k w d) (h : GInv pos k w d cmax E xs s) (hlen : xs.length < cmax) (x : Nat)
    (hE : ∃ i, i < d ∧ cell pos i ((pos x).getD i 0) (xs ++ [x]) ≤ (xs ++ [x]).count x + E) :
    ∃ s', add s x (pos x) = some s' ∧ StepOut pos k w d cmax E xs x s s' := by
  obtain ⟨c, est, hc, hcinv, hle, _, hge⟩ := HeapCms.addCols_spec hs.hpos hs.hd h.cms hlen x
  obtain ⟨i, hi, hcell⟩ := hE
  have hhi : est ≤ (xs ++ [x]).count x + E := Nat.le_trans (hle i hi) hcell
  obtain ⟨s', hs', hk', hcms', hinv', hmono, hkeep⟩ :=
    heapStep_spec hs.hk h.k_eq h.heap c est x hge hhi
  refine ⟨s', ?_, ⟨hk', hinv', hcms' ▸ hcinv⟩, hmono, hkeep⟩
  rw [add_eq, hc]; exact hs'

/-- no panic and the invariant at every prefix -/
theorem run_inv {pos : Nat → List Nat} {k w d cmax E : Nat} (hs : Setup pos k w d) (xs : List Nat)
    (hlen : xs.length ≤ cmax) (hE : OverBy pos d xs E) :
    ∃ s, run pos k w d cmax xs = some s ∧ GInv pos k w d cmax E xs s := by
  induction xs using snoc_induction with
  | nil => exact run_nil hs cmax E
  | snoc xs x ih =>
    have hl : xs.length < cmax := by simp at hlen; omega
    obtain ⟨s, hr, hinv⟩ := ih (by omega) (overBy_prefix hE (List.prefix_append _ _))
    obtain ⟨s', ha, ho⟩ := ginv_step hs hinv hl x (hE xs x (List.prefix_refl _))
    exact ⟨s', by rw [run_snoc, hr]; exact ha, ho.inv⟩

theorem run_inv' {pos : Nat → List Nat} {k w d cmax E : Nat} (hs : Setup pos k w d) {xs : List Nat}
    (hlen : xs.length ≤ cmax) (hE : OverBy pos d xs E) {s : St}
    (hr : run pos k w d cmax xs = some s) : GInv pos k w d cmax E xs s := by
  obtain ⟨s', hr', h⟩ := run_inv (cmax := cmax) hs xs hlen hE
  rw [hr] at hr'; cases hr'; exact h

/-- the values returned by the sketch along the run: minimum over the rows of the cell of `x`, and at
least the true count -/
theorem estimate_spec {pos : Nat → List Nat} {k w d cmax : Nat} (hs : Setup pos k w d) {xs : List Nat}
    {x : Nat} (hlen : xs.length < cmax) {s : St} (hr : run pos k w d cmax xs = some s) :
    ∃ c est, Cms.addCols s.cms (pos x) 1 = some (c, est) ∧
      (xs ++ [x]).count x ≤ est ∧
      (∀ i, i < d → est ≤ cell pos i ((pos x).getD i 0) (xs ++ [x])) ∧
      (∃ i, i < d ∧ est = cell pos i ((pos x).getD i 0) (xs ++ [x])) := by
  have h := run_inv' (E := xs.length) hs (by omega) (overBy_of_le_length hs.hd (Nat.le_refl _)) hr
  obtain ⟨c, est, hc, _, hle, hex, hge⟩ := HeapCms.addCols_spec hs.hpos hs.hd h.cms hlen x
  exact ⟨c, est, hc, hge, hle, hex⟩

/-- `E` may be taken as any bound on (returned value − true count) along the run -/
theorem overBy_of_returned {pos : Nat → List Nat} {k w d cmax E : Nat} (hs : Setup pos k w d)
    {xs : List Nat} (hlen : xs.length ≤ cmax)
    (hret : ∀ pre x, pre ++ [x] <+: xs → ∀ s c est, run pos k w d cmax pre = some s →
      Cms.addCols s.cms (pos x) 1 = some (c, est) → est ≤ (pre ++ [x]).count x + E) :
    OverBy pos d xs E := by
  intro pre x hpre
  have hl : pre.length < cmax := by
    have := hpre.length_le; simp at this; omega
  obtain ⟨s, hr, _⟩ := run_inv (cmax := cmax) (E := pre.length) hs pre (by omega)
    (overBy_of_le_length hs.hd (Nat.le_refl _))
  obtain ⟨c, est, hc, _, _, ⟨i, hi, heq⟩⟩ := estimate_spec hs hl hr (x := x)
  exact ⟨i, hi, heq ▸ hret pre x hpre s c est hr hc⟩

/-- once the heap is full it stays full, and every lower bound on the held counts is kept -/
theorem full_keep {pos : Nat → List Nat} {k w d cmax : Nat} (hs : Setup pos k w d) (xs ys : List Nat)
    (hlen : (xs ++ ys).length ≤ cmax) {s s' : St}
    (hr : run pos k w d cmax xs = some s) (hr' : run pos k w d cmax (xs ++ ys) = some s')
    (hfull : s.obj2count.length = k) :
    s'.obj2count.length = k ∧ ∀ b, (∀ p ∈ s.obj2count, b ≤ p.2) → ∀ p ∈ s'.obj2count, b ≤ p.2 := by
  induction ys using snoc_induction generalizing s' with
  | nil =>
    rw [List.append_nil, hr] at hr'; cases hr'
    exact ⟨hfull, fun _ hb => hb⟩
  | snoc ys y ih =>
    have hlen' : (xs ++ ys).length < cmax := by
      simp only [List.length_append, List.length_cons, List.length_nil] at hlen ⊢; omega
    obtain ⟨s1, hr1, hinv1⟩ := run_inv (cmax := cmax) (E := (xs ++ ys).length + 1) hs (xs ++ ys)
      (by omega) (overBy_of_le_length hs.hd (by omega))
    obtain ⟨hf1, hk1⟩ := ih (by omega) hr1
    obtain ⟨s2, ha, ho⟩ := ginv_step hs hinv1 hlen' y
      (overBy_of_le_length (xs := xs ++ ys ++ [y]) hs.hd (by simp; omega) (xs ++ ys) y (List.prefix_refl _))
    have : run pos k w d cmax (xs ++ (ys ++ [y])) = some s2 := by
      rw [← List.append_assoc, run_snoc, hr1]; exact ha
    rw [hr'] at this; cases this
    have hsz := ho.inv.heap.size_le
    have hm := ho.mono
    refine ⟨by omega, fun b hb => ho.keep hf1 b (hk1 b hb)⟩

/-! ### reading the invariant -/

theorem mem_iter_iff {k E : Nat} {xs : List Nat} {s : St} (h : HInv k E xs s.obj2count s.tree) (y : Nat) :
    y ∈ iter s ↔ y ∈ keys s.obj2count := by
  simp only [iter, keys, List.mem_map]
  constructor
  · rintro ⟨p, hp, rfl⟩
    exact ⟨(p.2, p.1), (h.same p.1 p.2).1 hp, rfl⟩
  · rintro ⟨p, hp, rfl⟩
    exact ⟨(p.2, p.1), (h.same p.2 p.1).2 hp, rfl⟩

theorem iter_nodup {k E : Nat} {xs : List Nat} {s : St} (h : HInv k E xs s.obj2count s.tree) :
    (iter s).Nodup := by
  unfold iter
  rw [List.Nodup, List.pairwise_map]
  apply List.Pairwise.imp_of_mem _ h.sorted
  intro a b ha hb hlt heq
  have ha' := (h.same a.1 a.2).1 ha
  have hb' := (h.same b.1 b.2).1 hb
  rw [heq] at ha'
  have h1 : a.1 = b.1 := functional h.nodup ha' hb'
  have : a = b := Prod.ext h1 heq
  subst this
  exact lt_irrefl a hlt

theorem iter_length {k E : Nat} {xs : List Nat} {s : St} (h : HInv k E xs s.obj2count s.tree) :
    (iter s).length = s.obj2count.length := by
  rw [length_eq_keys]
  apply List.Perm.length_eq
  rw [List.perm_ext_iff_of_nodup (iter_nodup h) h.nodup]
  exact mem_iter_iff h

/-- `iter` yields `min k (#distinct)` elements; `l` is any duplicate-free enumeration of the stream's elements -/
theorem iter_length_min {k E : Nat} {xs : List Nat} {s : St} (h : HInv k E xs s.obj2count s.tree)
    (l : List Nat) (hnd : l.Nodup) (hl : ∀ x, x ∈ l ↔ x ∈ xs) :
    (iter s).length = min k l.length := by
  rw [iter_length h]
  have hsub : ∀ a ∈ keys s.obj2count, a ∈ l := by
    intro a ha
    obtain ⟨p, hp, rfl⟩ := List.mem_map.1 ha
    exact (hl _).2 (h.seen p hp)
  by_cases hlt : s.obj2count.length < k
  · have hperm : (keys s.obj2count).Perm l := by
      rw [List.perm_ext_iff_of_nodup h.nodup hnd]
      intro a
      exact ⟨hsub a, fun ha => h.notfull hlt a ((hl a).1 ha)⟩
    have := hperm.length_eq
    rw [← length_eq_keys] at this
    omega
  · have h1 := h.size_le
    have h2 := nodup_subset_length_le h.nodup hsub
    rw [← length_eq_keys] at h2
    omega

/-- an element that was seen but is not held: the heap is full and every held element is, up to
`E`, at least as frequent -/
theorem missing {k E : Nat} {xs : List Nat} {s : St} (h : HInv k E xs s.obj2count s.tree) {x : Nat}
    (hx : x ∈ xs) (hnot : x ∉ iter s) :
    (iter s).length = k ∧ ∀ y ∈ iter s, xs.count x ≤ xs.count y + E := by
  have hxk : x ∉ keys s.obj2count := fun hh => hnot ((mem_iter_iff h x).2 hh)
  constructor
  · rw [iter_length h]
    have := h.size_le
    apply Decidable.byContradiction
    intro hne
    exact hxk (h.notfull (by omega) x hx)
  · intro y hy
    obtain ⟨p, hp, rfl⟩ := List.mem_map.1 ((mem_iter_iff h y).1 hy)
    have h1 := h.absent x hxk p hp
    have h2 := h.upper p hp
    omega

/-- the minimum (first tree entry) of a full heap does not decrease -/
theorem full_min_le {pos : Nat → List Nat} {k w d cmax : Nat} (hs : Setup pos k w d) (xs ys : List Nat)
    (hlen : (xs ++ ys).length ≤ cmax) {s s' : St}
    (hr : run pos k w d cmax xs = some s) (hr' : run pos k w d cmax (xs ++ ys) = some s')
    (hfull : s.obj2count.length = k) {mn mn' : Nat × Nat}
    (hmn : s.tree.head? = some mn) (hmn' : s'.tree.head? = some mn') : mn.1 ≤ mn'.1 := by
  have hlen0 : xs.length ≤ cmax := by simp at hlen; omega
  have h := (run_inv' (E := xs.length) hs hlen0 (overBy_of_le_length hs.hd (Nat.le_refl _)) hr).heap
  have h' := (run_inv' (E := (xs ++ ys).length) hs hlen
    (overBy_of_le_length hs.hd (Nat.le_refl _)) hr').heap
  have hb : ∀ p ∈ s.obj2count, mn.1 ≤ p.2 := by
    cases ht : s.tree with
    | nil => rw [ht] at hmn; simp at hmn
    | cons a t0 =>
      rw [ht] at hmn h
      have : a = mn := by simpa using hmn
      subst this
      exact (min_le_all h).2
  have hmem : mn' ∈ s'.tree := by
    cases ht : s'.tree with
    | nil => rw [ht] at hmn'; simp at hmn'
    | cons a t0 =>
      rw [ht] at hmn'
      have : a = mn' := by simpa using hmn'
      subst this; simp
  exact (full_keep hs xs ys hlen hr hr' hfull).2 mn.1 hb (mn'.2, mn'.1) ((h'.same mn'.1 mn'.2).1 hmem)

/-- if the sketch is exact, the held counts are exact and no element outside the heap is more
frequent than one inside -/
theorem exact_of_overBy_zero {k : Nat} {xs : List Nat} {s : St} (h : HInv k 0 xs s.obj2count s.tree) :
    (∀ p ∈ s.obj2count, p.2 = xs.count p.1) ∧
    (∀ x, x ∉ iter s → ∀ y ∈ iter s, xs.count x ≤ xs.count y) := by
  constructor
  · intro p hp
    have h1 := h.lower p hp
    have h2 := h.upper p hp
    omega
  · intro x hx y hy
    by_cases hxs : x ∈ xs
    · have := (missing h hxs hx).2 y hy; omega
    · rw [List.count_eq_zero_of_not_mem hxs]; exact Nat.zero_le _

end Pds.Proofs.Heap
