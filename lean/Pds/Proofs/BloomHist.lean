import Pds.Proofs.Bloom
/-! Histories of a Bloom filter; no false negatives; union = concatenation of streams. -/
namespace Pds.Bloom

/-- One operation.  The argument of `union` is an arbitrary other filter (whatever it contains);
the step panics (`none`) unless its shape `(k, m)` agrees. -/
inductive Op where
  | insert (x : Nat)
  | union (o : St)
  | clear
  deriving DecidableEq

def step (hash : List Nat → Nat) (s : St) : Op → Option St
  | .insert x => (insert hash s x).map (·.1)
  | .union o => union s o
  | .clear => some (clear s)

def runFrom (hash : List Nat → Nat) (h : List Op) (s : St) : Option St := h.foldlM (step hash) s

/-- run a history on a fresh filter with `m` bits and `k` hash functions -/
def run (hash : List Nat → Nat) (m k : Nat) (h : List Op) : Option St := (new m k).bind (runFrom hash h)

theorem new_some {m : Nat} (hm : 0 < m) (k : Nat) : new m k = some ⟨k, Array.replicate m false⟩ := by
  simp [new, HashIter.builderOk_of_pos hm]

theorem runFrom_nil (hash : List Nat → Nat) (s : St) : runFrom hash [] s = some s := rfl
theorem runFrom_cons (hash : List Nat → Nat) (op : Op) (h : List Op) (s : St) :
    runFrom hash (op :: h) s = (step hash s op).bind (runFrom hash h) := by
  simp only [runFrom, List.foldlM_cons]; rfl
theorem runFrom_append (hash : List Nat → Nat) (a b : List Op) (s : St) :
    runFrom hash (a ++ b) s = (runFrom hash a s).bind (runFrom hash b) := by
  simp only [runFrom, List.foldlM_append]; rfl

/-- every step preserves the shape -/
theorem step_shape {hash : List Nat → Nat} {s s' : St} {op : Op} (h : step hash s op = some s') :
    s'.k = s.k ∧ s'.m = s.m := by
  cases op with
  | insert x =>
    simp only [step, Option.map_eq_some_iff] at h
    obtain ⟨⟨s1, r⟩, h, rfl⟩ := h
    unfold insert at h
    split at h
    · cases h
    · split at h
      · cases h
      · rename_i ps _ bits was hp
        cases h
        -- size preserved by putAll
        have : ∀ (ps : List Nat) (b : Array Bool) (w : Bool) b' w', putAll b ps w = some (b', w') → b'.size = b.size := by
          intro ps
          induction ps with
          | nil => intro b w b' w' h; cases h; rfl
          | cons p ps ih =>
            intro b w b' w' h
            rw [putAll] at h
            split at h
            · rw [ih _ _ _ _ h, Array.size_set]
            · cases h
        exact ⟨rfl, this _ _ _ _ _ hp⟩
  | union o => have := union_spec h; exact ⟨this.1, this.2.1⟩
  | clear => cases h; exact ⟨rfl, (clear_spec s).2.1⟩

theorem runFrom_shape {hash : List Nat → Nat} : ∀ (h : List Op) (s s' : St),
    runFrom hash h s = some s' → s'.k = s.k ∧ s'.m = s.m := by
  intro h
  induction h with
  | nil => intro s s' e; cases e; exact ⟨rfl, rfl⟩
  | cons op h ih =>
    intro s s' e
    rw [runFrom_cons] at e
    cases hs : step hash s op with
    | none => rw [hs] at e; cases e
    | some s1 =>
      rw [hs] at e
      have h1 := step_shape hs
      have h2 := ih s1 s' e
      exact ⟨h2.1.trans h1.1, h2.2.trans h1.2⟩

theorem run_shape {hash : List Nat → Nat} {m k : Nat} (hm : 0 < m) {h : List Op} {s : St}
    (hr : run hash m k h = some s) : s.k = k ∧ s.m = m := by
  rw [run, new_some hm] at hr
  have := runFrom_shape h _ s hr
  simpa [St.m] using this

/-- bits are monotone under `insert` and `union` -/
theorem step_mono {hash : List Nat → Nat} {s s' : St} {op : Op} (hm : 0 < s.m) (hop : op ≠ .clear)
    (h : step hash s op = some s') : ∀ j, bit s.bits j = true → bit s'.bits j = true := by
  intro j hj
  cases op with
  | insert x =>
    obtain ⟨s1, r, e, _, _, hb, _⟩ := insert_spec hash hm x
    simp only [step, e, Option.map_some, Option.some.injEq] at h
    subst h
    exact (hb j).mpr (Or.inl hj)
  | union o => rw [(union_spec h).2.2 j, hj]; rfl
  | clear => exact absurd rfl hop

theorem runFrom_mono {hash : List Nat → Nat} : ∀ (h : List Op) (s s' : St), 0 < s.m →
    (∀ op ∈ h, op ≠ .clear) → runFrom hash h s = some s' →
    ∀ j, bit s.bits j = true → bit s'.bits j = true := by
  intro h
  induction h with
  | nil => intro s s' _ _ e; cases e; exact fun _ hj => hj
  | cons op h ih =>
    intro s s' hm hnc e j hj
    rw [runFrom_cons] at e
    cases hs : step hash s op with
    | none => rw [hs] at e; cases e
    | some s1 =>
      rw [hs] at e
      have hm1 : 0 < s1.m := by rw [(step_shape hs).2]; exact hm
      exact ih s1 s' hm1 (fun op' h' => hnc op' (List.mem_cons_of_mem _ h')) e j
        (step_mono hm (hnc op List.mem_cons_self) hs j hj)

/-- No false negatives: an `insert x` that is not followed by a `clear` is reported. -/
theorem no_false_negative {hash : List Nat → Nat} {m k : Nat} (hm : 0 < m) {pre post : List Op}
    {x : Nat} {s : St} (hpost : ∀ op ∈ post, op ≠ .clear)
    (hr : run hash m k (pre ++ .insert x :: post) = some s) : query hash s x = some true := by
  rw [run, new_some hm, Option.bind_some, runFrom_append] at hr
  cases h1 : runFrom hash pre ⟨k, Array.replicate m false⟩ with
  | none => rw [h1] at hr; cases hr
  | some s1 =>
    rw [h1, Option.bind_some, runFrom_cons] at hr
    have hs1 := runFrom_shape pre _ s1 h1
    have hm1 : 0 < s1.m := by rw [hs1.2]; simpa [St.m] using hm
    obtain ⟨s2, r, e, hk2, hm2, hb, _⟩ := insert_spec hash hm1 x
    simp only [step, e, Option.map_some, Option.bind_some] at hr
    have hs := runFrom_shape post s2 s hr
    have hms : 0 < s.m := by rw [hs.2, hm2]; exact hm1
    rw [query_eq_true_iff hash hms, hs.1, hs.2, hk2, hm2]
    intro p hp
    exact runFrom_mono post s2 s (by rw [hm2]; exact hm1) hpost hr p ((hb p).mpr (Or.inr hp))

/-- `insert` and `query` never panic on a filter with at least one bit. -/
theorem insert_query_total (hash : List Nat → Nat) {s : St} (hm : 0 < s.m) (x : Nat) :
    (insert hash s x).isSome ∧ (query hash s x).isSome := by
  obtain ⟨s', r, e, _⟩ := insert_spec hash hm x
  obtain ⟨r', e', _⟩ := query_spec hash hm x
  simp [e, e']

theorem union_contains_both {hash : List Nat → Nat} {s o u : St} (hm : 0 < s.m) (h : union s o = some u)
    {x : Nat} (hx : query hash s x = some true ∨ query hash o x = some true) :
    query hash u x = some true := by
  obtain ⟨⟨hk, hmo⟩, _⟩ := union_eq_some_iff.mp h
  obtain ⟨uk, um, ub⟩ := union_spec h
  have hmo' : 0 < o.m := hmo ▸ hm
  rw [query_eq_true_iff hash (by rw [um]; exact hm), uk, um]
  intro p hp
  rw [ub p]
  rcases hx with hx | hx
  · rw [(query_eq_true_iff hash hm x).mp hx p hp]; rfl
  · rw [query_eq_true_iff hash hmo' x, ← hk, ← hmo] at hx
    rw [hx p hp]; simp

end Pds.Bloom
