import Pds.Model.Reservoir
/-! Helper lemmas for reservoir sampling (C18): step equations of `add`, the sample invariant. -/
namespace Pds.Reservoir

variable {R : Type}

/-- The only assumption on the RNG: `gen_range(0..n)` answers below `n`. -/
def Lawful (I : RngI R) : Prop := ∀ n r, 0 < n → (I.below n r).1 < n

/-- feed a list of items -/
def feed (I : RngI R) (s : St R) (xs : List Nat) : Option (St R) := xs.foldlM (add I) s

/-- fresh sampler fed with the position ids `0, …, n-1` -/
def run (I : RngI R) (k : Nat) (rng : R) (n : Nat) : Option (St R) :=
  (new k rng).bind fun s => feed I s (List.range n)

theorem feed_nil (I : RngI R) (s : St R) : feed I s [] = some s := rfl

theorem feed_cons (I : RngI R) (s : St R) (x : Nat) (xs : List Nat) :
    feed I s (x :: xs) = (add I s x).bind fun s' => feed I s' xs := by
  simp [feed, List.foldlM_cons]

theorem feed_append (I : RngI R) (s : St R) (xs ys : List Nat) :
    feed I s (xs ++ ys) = (feed I s xs).bind fun s' => feed I s' ys := by
  simp [feed, List.foldlM_append]

theorem feed_snoc (I : RngI R) (s : St R) (xs : List Nat) (x : Nat) :
    feed I s (xs ++ [x]) = (feed I s xs).bind fun s' => add I s' x := by
  rw [feed_append]
  congr 1
  funext s'
  simp [feed]

theorem run_zero (I : RngI R) (k : Nat) (rng : R) : run I k rng 0 = new k rng := by
  unfold run
  cases new k rng <;> simp [feed]

theorem run_succ (I : RngI R) (k : Nat) (rng : R) (n : Nat) :
    run I k rng (n + 1) = (run I k rng n).bind fun s => add I s n := by
  unfold run
  rw [List.range_succ]
  cases new k rng with
  | none => rfl
  | some s => simp only [Option.bind_some, feed_snoc]

theorem phaseEnd_eq (k : Nat) : phaseEnd k = 4 * k := by
  simp [phaseEnd, Pds.Generated.reservoirPhaseFactor, Nat.mul_comm]

/-! ### step equations -/

theorem add_fill (I : RngI R) (s : St R) (x : Nat) (h : s.i < s.k) :
    add I s x = some { s with res := s.res.push x, i := s.i + 1 } := by
  simp [add, h]

/-- RNG state seen by the slot draw in the plain phase (the last plain item draws a gap first). -/
def plainRng (I : RngI R) (s : St R) : R :=
  if s.i + 1 = phaseEnd s.k then (I.gap s.k (phaseEnd s.k) s.rng).2 else s.rng

def plainSkip (I : RngI R) (s : St R) : Nat :=
  if s.i + 1 = phaseEnd s.k then phaseEnd s.k + (I.gap s.k (phaseEnd s.k) s.rng).1 else s.skipUntil

theorem add_plain (I : RngI R) (s : St R) (x : Nat) (h1 : s.k ≤ s.i) (h2 : s.i < phaseEnd s.k) :
    add I s x =
      if (I.below (s.i + 1) (plainRng I s)).1 < s.k then
        if (I.below (s.i + 1) (plainRng I s)).1 < s.res.size then
          some ⟨s.k, s.res.setIfInBounds (I.below (s.i + 1) (plainRng I s)).1 x, s.i + 1,
            plainSkip I s, (I.below (s.i + 1) (plainRng I s)).2⟩
        else none
      else some ⟨s.k, s.res, s.i + 1, plainSkip I s, (I.below (s.i + 1) (plainRng I s)).2⟩ := by
  have h1' : ¬ s.i < s.k := by omega
  unfold add plainRng plainSkip
  simp only [h1', h2, if_false, if_true]
  by_cases h3 : s.i + 1 = phaseEnd s.k <;> simp only [h3, if_true, if_false]

/-- the state is in the skipping phase and its next item will be accepted -/
def Accepts (s : St R) : Prop := phaseEnd s.k ≤ s.i ∧ s.skipUntil ≤ s.i

theorem add_accept (I : RngI R) (s : St R) (x : Nat) (h1 : s.k ≤ s.i) (h : Accepts s) :
    add I s x =
      if (I.below s.k (I.gap s.k (s.i + 1) s.rng).2).1 < s.res.size then
        some ⟨s.k, s.res.setIfInBounds (I.below s.k (I.gap s.k (s.i + 1) s.rng).2).1 x, s.i + 1,
          s.i + 1 + (I.gap s.k (s.i + 1) s.rng).1, (I.below s.k (I.gap s.k (s.i + 1) s.rng).2).2⟩
      else none := by
  have h1' : ¬ s.i < s.k := by omega
  have h2' : ¬ s.i < phaseEnd s.k := by have := h.1; omega
  have h3 : s.i ≥ s.skipUntil := h.2
  unfold add
  simp only [h1', h2', h3, if_false, if_true]

theorem add_skip (I : RngI R) (s : St R) (x : Nat) (h1 : s.k ≤ s.i) (h2 : phaseEnd s.k ≤ s.i)
    (h3 : s.i < s.skipUntil) : add I s x = some { s with i := s.i + 1 } := by
  have h1' : ¬ s.i < s.k := by omega
  have h2' : ¬ s.i < phaseEnd s.k := by omega
  have h3' : ¬ s.i ≥ s.skipUntil := by omega
  unfold add
  simp only [h1', h2', h3', if_false]

/-! ### the invariant -/

/-- After `n` position ids: the reservoir holds `min n k` distinct positions `< n`
(and exactly `0 … n-1` in order while `n ≤ k`). -/
structure Inv (k n : Nat) (s : St R) : Prop where
  hk : 0 < k
  k_eq : s.k = k
  i_eq : s.i = n
  size : s.res.size = min n k
  lt : ∀ a (h : a < s.res.size), s.res[a] < n
  inj : ∀ a b (ha : a < s.res.size) (hb : b < s.res.size), s.res[a] = s.res[b] → a = b
  pre : n ≤ k → s.res = Array.range n

theorem new_eq {k : Nat} (hk : 0 < k) (rng : R) : new k rng = some ⟨k, #[], 0, 0, rng⟩ := by
  simp [new, hk]

theorem inv_new {k : Nat} (hk : 0 < k) (rng : R) : Inv k 0 (⟨k, #[], 0, 0, rng⟩ : St R) where
  hk := hk
  k_eq := rfl
  i_eq := rfl
  size := by simp
  lt := by intro a h; simp at h
  inj := by intro a b ha; simp at ha
  pre := by intro _; simp

/-- overwriting slot `j` with the fresh position `n` preserves the sample invariant's array part -/
theorem set_fresh {res : Array Nat} {n j : Nat}
    (lt : ∀ a (h : a < res.size), res[a] < n)
    (inj : ∀ a b (ha : a < res.size) (hb : b < res.size), res[a] = res[b] → a = b) :
    (∀ a (h : a < (res.setIfInBounds j n).size), (res.setIfInBounds j n)[a] < n + 1) ∧
    (∀ a b (ha : a < (res.setIfInBounds j n).size) (hb : b < (res.setIfInBounds j n).size),
      (res.setIfInBounds j n)[a] = (res.setIfInBounds j n)[b] → a = b) := by
  constructor
  · intro a h
    have h' : a < res.size := by simpa using h
    rw [Array.getElem_setIfInBounds h']
    split
    · omega
    · have := lt a h'; omega
  · intro a b ha hb
    have ha' : a < res.size := by simpa using ha
    have hb' : b < res.size := by simpa using hb
    rw [Array.getElem_setIfInBounds ha', Array.getElem_setIfInBounds hb']
    have la := lt a ha'
    have lb := lt b hb'
    split <;> split <;> intro e
    · omega
    · omega
    · omega
    · exact inj a b ha' hb' e

theorem add_inv {I : RngI R} (hI : Lawful I) {k n : Nat} {s : St R} (h : Inv k n s) :
    ∃ s', add I s n = some s' ∧ Inv k (n + 1) s' := by
  obtain ⟨hk, k_eq, i_eq, size, lt, inj, pre⟩ := h
  by_cases c1 : s.i < s.k
  · -- fill phase
    refine ⟨_, add_fill I s n c1, ?_⟩
    have hnk : n < k := by omega
    have hres : s.res = Array.range n := pre (by omega)
    refine ⟨hk, k_eq, by simp [i_eq], ?_, ?_, ?_, ?_⟩
    · simp [size]; omega
    · intro a h
      simp only [Array.size_push] at h
      simp only [Array.getElem_push]
      split
      · have := lt a (by assumption); omega
      · omega
    · intro a b ha hb
      simp only [Array.size_push] at ha hb
      simp only [Array.getElem_push]
      split <;> split <;> intro e
      · exact inj a b (by assumption) (by assumption) e
      · have := lt a (by assumption); omega
      · have := lt b (by assumption); omega
      · omega
    · intro _
      show s.res.push n = Array.range (n + 1)
      rw [hres, Array.range_succ]; rfl
  · have hkn : k ≤ n := by omega
    have hsz : s.res.size = k := by rw [size]; omega
    by_cases c2 : s.i < phaseEnd s.k
    · -- plain phase
      have hj := hI (s.i + 1) (plainRng I s) (by omega)
      rw [add_plain I s n (by omega) c2]
      split
      · rename_i hjk
        rw [if_pos (by omega)]
        refine ⟨_, rfl, ?_⟩
        obtain ⟨l', i'⟩ := set_fresh (j := (I.below (s.i + 1) (plainRng I s)).1) lt inj
        exact ⟨hk, k_eq, by simp [i_eq], by simp [hsz]; omega, l', i', by intro _; omega⟩
      · refine ⟨_, rfl, ?_⟩
        refine ⟨hk, k_eq, by simp [i_eq], by simp [hsz]; omega, ?_, inj, by intro _; omega⟩
        intro a h
        have := lt a h
        show s.res[a] < n + 1
        omega
    · by_cases c3 : s.skipUntil ≤ s.i
      · -- accepted item of the skipping phase
        have hj := hI s.k (I.gap s.k (s.i + 1) s.rng).2 (by omega)
        rw [add_accept I s n (by omega) ⟨by omega, c3⟩, if_pos (by omega)]
        refine ⟨_, rfl, ?_⟩
        obtain ⟨l', i'⟩ := set_fresh (j := (I.below s.k (I.gap s.k (s.i + 1) s.rng).2).1) lt inj
        have hpe := phaseEnd_eq s.k
        exact ⟨hk, k_eq, by simp [i_eq], by simp [hsz]; omega, l', i', by intro _; omega⟩
      · -- skipped item
        refine ⟨_, add_skip I s n (by omega) (by omega) (by omega), ?_⟩
        have hpe := phaseEnd_eq s.k
        refine ⟨hk, k_eq, by simp [i_eq], by simp [hsz]; omega, ?_, inj, by intro _; omega⟩
        intro a h
        have := lt a h
        show s.res[a] < n + 1
        omega

theorem run_inv {I : RngI R} (hI : Lawful I) {k : Nat} (hk : 0 < k) (rng : R) (n : Nat) :
    ∃ s, run I k rng n = some s ∧ Inv k n s := by
  induction n with
  | zero => exact ⟨_, by rw [run_zero, new_eq hk], inv_new hk rng⟩
  | succ n ih =>
    obtain ⟨s, e, h⟩ := ih
    obtain ⟨s', e', h'⟩ := add_inv hI h
    exact ⟨s', by rw [run_succ, e]; exact e', h'⟩

/-! ### consequences of the invariant in list language -/

theorem Inv.mem_lt {k n : Nat} {s : St R} (h : Inv k n s) {x : Nat} (hx : x ∈ s.res) : x < n := by
  obtain ⟨a, ha, rfl⟩ := Array.mem_iff_getElem.mp hx
  exact h.lt a ha

theorem Inv.nodup {k n : Nat} {s : St R} (h : Inv k n s) : s.res.toList.Nodup := by
  rw [List.nodup_iff_pairwise_ne, List.pairwise_iff_getElem]
  intro a b ha hb hab e
  have := h.inj a b (by simpa using ha) (by simpa using hb) (by simpa using e)
  omega

/-! ### `clear` -/

theorem clear_eq_new {k n : Nat} {s : St R} (h : Inv k n s) : some (clear s) = new k s.rng := by
  rw [new_eq h.hk, clear, h.k_eq]

/-! ### relabelling, totality of a single step, skipping -/

/-- relabel the reservoir contents -/
def mapSt (f : Nat → Nat) (s : St R) : St R := { s with res := s.res.map f }

theorem add_map (I : RngI R) (f : Nat → Nat) (s : St R) (x : Nat) :
    add I (mapSt f s) (f x) = (add I s x).map (mapSt f) := by
  unfold add mapSt
  simp only [Array.size_map]
  repeat' split
  all_goals simp_all

theorem feed_map (I : RngI R) (f : Nat → Nat) (xs : List Nat) (s : St R) :
    feed I (mapSt f s) (xs.map f) = (feed I s xs).map (mapSt f) := by
  induction xs generalizing s with
  | nil => rfl
  | cons x xs ih =>
    rw [List.map_cons, feed_cons, feed_cons, add_map]
    cases add I s x with
    | none => rfl
    | some s' => simp [ih]

theorem add_isSome {I : RngI R} (hI : Lawful I) (s : St R) (x : Nat) (hk : 0 < s.k)
    (hsz : s.res.size = min s.i s.k) : (add I s x).isSome := by
  by_cases c1 : s.i < s.k
  · rw [add_fill I s x c1]; rfl
  · have hsz' : s.res.size = s.k := by omega
    by_cases c2 : s.i < phaseEnd s.k
    · have hj := hI (s.i + 1) (plainRng I s) (by omega)
      rw [add_plain I s x (by omega) c2]
      split
      · rw [if_pos (by omega)]; rfl
      · rfl
    · by_cases c3 : s.skipUntil ≤ s.i
      · have hj := hI s.k (I.gap s.k (s.i + 1) s.rng).2 (by omega)
        rw [add_accept I s x (by omega) ⟨by omega, c3⟩, if_pos (by omega)]; rfl
      · rw [add_skip I s x (by omega) (by omega) (by omega)]; rfl

theorem feed_skip (I : RngI R) (xs : List Nat) (s : St R) (h1 : s.k ≤ s.i)
    (h2 : phaseEnd s.k ≤ s.i) (h3 : s.i + xs.length ≤ s.skipUntil) :
    feed I s xs = some { s with i := s.i + xs.length } := by
  induction xs generalizing s with
  | nil => rfl
  | cons x xs ih =>
    simp only [List.length_cons] at h3
    rw [feed_cons, add_skip I s x h1 h2 (by omega)]
    simp only [Option.bind_some]
    rw [ih]
    · simp only [List.length_cons]; congr 2; omega
    · show s.k ≤ s.i + 1; omega
    · show phaseEnd s.k ≤ s.i + 1; omega
    · show s.i + 1 + xs.length ≤ s.skipUntil; omega

theorem feed_stream {I : RngI R} (hI : Lawful I) {k : Nat} (hk : 0 < k) (rng : R)
    (xs : List Nat) :
    ∃ sp, run I k rng xs.length = some sp ∧ Inv k xs.length sp ∧
      feed I ⟨k, #[], 0, 0, rng⟩ xs = some (mapSt (fun p => xs.getD p 0) sp) := by
  obtain ⟨sp, e, v⟩ := run_inv hI hk rng xs.length
  refine ⟨sp, e, v, ?_⟩
  rw [run, new_eq hk, Option.bind_some] at e
  have hx : (List.range xs.length).map (fun p => xs.getD p 0) = xs := by
    apply List.ext_getElem
    · simp
    · intro i h1 h2; simp [List.getElem?_eq_getElem h2]
  have := feed_map I (fun p => xs.getD p 0) (List.range xs.length) ⟨k, #[], 0, 0, rng⟩
  rw [hx, e] at this
  simpa [mapSt] using this
end Pds.Reservoir
