import Mathlib.Algebra.Order.Field.Basic
import Mathlib.Tactic.Ring
import Mathlib.Tactic.Linarith
import Mathlib.Tactic.FieldSimp
import Mathlib.Tactic.Positivity
import Pds.Model.TDigest
/-!
Helper lemmas for the t-digest model (C16, C15, C04), part 1: sums, fusion, the greedy merge pass
and `merge` itself, in exact arithmetic (any linearly ordered field).
-/
set_option linter.unusedSectionVars false
namespace Pds.TDigest
variable {α : Type} [Field α] [LinearOrder α] [IsStrictOrderedRing α]

theorem half_eq : (half : α) = 1 / 2 := by
  unfold half; norm_num

/-! ### sums -/

/-- total weight of a list of centroids, as a `List.sum` -/
def sumCount (cs : List (Centroid α)) : α := (cs.map Centroid.count).sum
/-- total of the `sum` fields -/
def sumSum (cs : List (Centroid α)) : α := (cs.map Centroid.sum).sum

@[simp] theorem sumCount_nil : sumCount ([] : List (Centroid α)) = 0 := rfl
@[simp] theorem sumSum_nil : sumSum ([] : List (Centroid α)) = 0 := rfl
@[simp] theorem sumCount_cons (c : Centroid α) (cs) : sumCount (c :: cs) = c.count + sumCount cs := by
  simp [sumCount]
@[simp] theorem sumSum_cons (c : Centroid α) (cs) : sumSum (c :: cs) = c.sum + sumSum cs := by
  simp [sumSum]
@[simp] theorem sumCount_append (as bs : List (Centroid α)) :
    sumCount (as ++ bs) = sumCount as + sumCount bs := by simp [sumCount]
@[simp] theorem sumSum_append (as bs : List (Centroid α)) :
    sumSum (as ++ bs) = sumSum as + sumSum bs := by simp [sumSum]
theorem sumCount_perm {as bs : List (Centroid α)} (h : as.Perm bs) : sumCount as = sumCount bs :=
  (h.map _).sum_eq
theorem sumSum_perm {as bs : List (Centroid α)} (h : as.Perm bs) : sumSum as = sumSum bs :=
  (h.map _).sum_eq

@[simp] theorem sumCount_reverse (as : List (Centroid α)) : sumCount as.reverse = sumCount as :=
  sumCount_perm (List.reverse_perm _)
@[simp] theorem sumSum_reverse (as : List (Centroid α)) : sumSum as.reverse = sumSum as :=
  sumSum_perm (List.reverse_perm _)

theorem foldl_count (cs : List (Centroid α)) (a : α) :
    cs.foldl (fun a c => a + c.count) a = a + sumCount cs := by
  induction cs generalizing a with
  | nil => simp
  | cons c cs ih => simp [ih, add_assoc]

theorem foldl_sum (cs : List (Centroid α)) (a : α) :
    cs.foldl (fun a c => a + c.sum) a = a + sumSum cs := by
  induction cs generalizing a with
  | nil => simp
  | cons c cs ih => simp [ih, add_assoc]

theorem totalCount_eq (cs : List (Centroid α)) : totalCount cs = sumCount cs := by
  simp [totalCount, foldl_count]
theorem totalSum_eq (cs : List (Centroid α)) : totalSum cs = sumSum cs := by
  simp [totalSum, foldl_sum]

theorem sumCount_nonneg {cs : List (Centroid α)} (h : ∀ c ∈ cs, 0 < c.count) : 0 ≤ sumCount cs := by
  induction cs with
  | nil => simp
  | cons c cs ih =>
    have := h c (by simp)
    have := ih (fun d hd => h d (by simp [hd]))
    simp; linarith

theorem sumCount_pos {cs : List (Centroid α)} (h : ∀ c ∈ cs, 0 < c.count) (hne : cs ≠ []) :
    0 < sumCount cs := by
  cases cs with
  | nil => exact absurd rfl hne
  | cons c cs =>
    have := h c (by simp)
    have := sumCount_nonneg (cs := cs) (fun d hd => h d (by simp [hd]))
    simp; linarith

/-! ### fusion -/

@[simp] theorem fuse_count (a b : Centroid α) : (a.fuse b).count = a.count + b.count := rfl
@[simp] theorem fuse_sum (a b : Centroid α) : (a.fuse b).sum = a.sum + b.sum := rfl

theorem mean_def (c : Centroid α) : c.mean = c.sum / c.count := rfl

theorem le_mean_iff {c : Centroid α} (h : 0 < c.count) (lo : α) : lo ≤ c.mean ↔ lo * c.count ≤ c.sum := by
  rw [mean_def, le_div_iff₀ h]

theorem mean_le_iff {c : Centroid α} (h : 0 < c.count) (hi : α) : c.mean ≤ hi ↔ c.sum ≤ hi * c.count := by
  rw [mean_def, div_le_iff₀ h]

/-- the mean of a fused centroid is a weighted mean of the two means -/
theorem le_fuse_mean {a b : Centroid α} (ha : 0 < a.count) (hb : 0 < b.count) {lo : α}
    (h1 : lo ≤ a.mean) (h2 : lo ≤ b.mean) : lo ≤ (a.fuse b).mean := by
  rw [le_mean_iff ha] at h1
  rw [le_mean_iff hb] at h2
  rw [le_mean_iff (by simp; linarith)]
  simp only [fuse_count, fuse_sum]
  linarith

theorem fuse_mean_le {a b : Centroid α} (ha : 0 < a.count) (hb : 0 < b.count) {hi : α}
    (h1 : a.mean ≤ hi) (h2 : b.mean ≤ hi) : (a.fuse b).mean ≤ hi := by
  rw [mean_le_iff ha] at h1
  rw [mean_le_iff hb] at h2
  rw [mean_le_iff (by simp; linarith)]
  simp only [fuse_count, fuse_sum]
  linarith

/-! ### the greedy pass without accumulator -/

/-- `mergeLoop` without the accumulator -/
def ml (sf : ScaleFn α) (n : Nat) (s : α) :
    List (Centroid α) → Centroid α → α → α → List (Centroid α)
  | [], cur, _, _ => [cur]
  | next :: rest, cur, q0, qLimit =>
    if q0 + (cur.count + next.count) / s ≤ qLimit then ml sf n s rest (cur.fuse next) q0 qLimit
    else cur :: ml sf n s rest next (q0 + cur.count / s)
      (sf.fInv (sf.f (q0 + cur.count / s) n + 1) n)

theorem mergeLoop_eq (sf : ScaleFn α) (n : Nat) (s : α) (rest : List (Centroid α)) (cur : Centroid α)
    (q0 ql : α) (acc : List (Centroid α)) :
    mergeLoop sf n s rest cur q0 ql acc = acc.reverse ++ ml sf n s rest cur q0 ql := by
  induction rest generalizing cur q0 ql acc with
  | nil => simp [mergeLoop, ml]
  | cons next rest ih =>
    unfold mergeLoop ml
    by_cases h : q0 + (cur.count + next.count) / s ≤ ql
    · simp only [h, if_true]; exact ih _ _ _ _
    · simp only [h, if_false]; rw [ih]; simp

/-- `Fused inp out`: `out` is obtained from the non-empty list `inp` by cutting it into consecutive
non-empty blocks and fusing each block (left to right). -/
inductive Fused : List (Centroid α) → List (Centroid α) → Prop
  | last (c : Centroid α) : Fused [c] [c]
  | fuse {cur next : Centroid α} {rest out} : Fused (cur.fuse next :: rest) out → Fused (cur :: next :: rest) out
  | push {cur next : Centroid α} {rest out} : Fused (next :: rest) out → Fused (cur :: next :: rest) (cur :: out)

theorem ml_fused (sf : ScaleFn α) (n : Nat) (s : α) (rest : List (Centroid α)) (cur : Centroid α)
    (q0 ql : α) : Fused (cur :: rest) (ml sf n s rest cur q0 ql) := by
  induction rest generalizing cur q0 ql with
  | nil => exact Fused.last _
  | cons next rest ih =>
    unfold ml
    split
    · exact Fused.fuse (ih _ _ _)
    · exact Fused.push (ih _ _ _)

theorem Fused.ne_nil {inp out : List (Centroid α)} (h : Fused inp out) : out ≠ [] := by
  induction h with
  | last c => simp
  | fuse _ ih => exact ih
  | push _ _ => simp

theorem Fused.inp_ne_nil {inp out : List (Centroid α)} (h : Fused inp out) : inp ≠ [] := by
  cases h <;> simp

theorem Fused.sumCount {inp out : List (Centroid α)} (h : Fused inp out) : sumCount out = sumCount inp := by
  induction h with
  | last c => rfl
  | fuse _ ih => rw [ih]; simp [add_assoc]
  | push _ ih => simp [ih]

theorem Fused.sumSum {inp out : List (Centroid α)} (h : Fused inp out) : sumSum out = sumSum inp := by
  induction h with
  | last c => rfl
  | fuse _ ih => rw [ih]; simp [add_assoc]
  | push _ ih => simp [ih]

theorem Fused.pos {inp out : List (Centroid α)} (h : Fused inp out) (hp : ∀ c ∈ inp, 0 < c.count) :
    ∀ c ∈ out, 0 < c.count := by
  induction h with
  | last c => exact hp
  | @fuse cur next rest out _ ih =>
    apply ih
    intro c hc
    rcases List.mem_cons.1 hc with rfl | hc
    · have := hp cur (by simp); have := hp next (by simp); simp; linarith
    · exact hp c (by simp [hc])
  | @push cur next rest out _ ih =>
    intro c hc
    rcases List.mem_cons.1 hc with rfl | hc
    · exact hp _ (by simp)
    · exact ih (fun d hd => hp d (List.mem_cons_of_mem _ hd)) c hc

theorem Fused.lower {inp out : List (Centroid α)} (h : Fused inp out) (hp : ∀ c ∈ inp, 0 < c.count)
    {lo : α} (hl : ∀ c ∈ inp, lo ≤ c.mean) : ∀ c ∈ out, lo ≤ c.mean := by
  induction h with
  | last c => exact hl
  | @fuse cur next rest out _ ih =>
    have hc := hp cur (by simp); have hn := hp next (by simp)
    apply ih
    · intro c hc'
      rcases List.mem_cons.1 hc' with rfl | hc'
      · simp; linarith
      · exact hp c (by simp [hc'])
    · intro c hc'
      rcases List.mem_cons.1 hc' with rfl | hc'
      · exact le_fuse_mean hc hn (hl _ (by simp)) (hl _ (by simp))
      · exact hl c (by simp [hc'])
  | @push cur next rest out _ ih =>
    intro c hc
    rcases List.mem_cons.1 hc with rfl | hc
    · exact hl _ (by simp)
    · exact ih (fun d hd => hp d (List.mem_cons_of_mem _ hd))
        (fun d hd => hl d (List.mem_cons_of_mem _ hd)) c hc

theorem Fused.upper {inp out : List (Centroid α)} (h : Fused inp out) (hp : ∀ c ∈ inp, 0 < c.count)
    {hi : α} (hl : ∀ c ∈ inp, c.mean ≤ hi) : ∀ c ∈ out, c.mean ≤ hi := by
  induction h with
  | last c => exact hl
  | @fuse cur next rest out _ ih =>
    have hc := hp cur (by simp); have hn := hp next (by simp)
    apply ih
    · intro c hc'
      rcases List.mem_cons.1 hc' with rfl | hc'
      · simp; linarith
      · exact hp c (by simp [hc'])
    · intro c hc'
      rcases List.mem_cons.1 hc' with rfl | hc'
      · exact fuse_mean_le hc hn (hl _ (by simp)) (hl _ (by simp))
      · exact hl c (by simp [hc'])
  | @push cur next rest out _ ih =>
    intro c hc
    rcases List.mem_cons.1 hc with rfl | hc
    · exact hl _ (by simp)
    · exact ih (fun d hd => hp d (List.mem_cons_of_mem _ hd))
        (fun d hd => hl d (List.mem_cons_of_mem _ hd)) c hc

/-- sorted by mean -/
def SortedMean (cs : List (Centroid α)) : Prop := cs.Pairwise (fun a b => a.mean ≤ b.mean)

/-- `merge_sorted`: the greedy pass maps a list sorted by mean (positive weights) to a list sorted by mean -/
theorem Fused.sorted {inp out : List (Centroid α)} (h : Fused inp out) (hp : ∀ c ∈ inp, 0 < c.count)
    (hs : SortedMean inp) : SortedMean out := by
  induction h with
  | last c => exact hs
  | @fuse cur next rest out _ ih =>
    have hc := hp cur (by simp); have hn := hp next (by simp)
    apply ih
    · intro c hc'
      rcases List.mem_cons.1 hc' with rfl | hc'
      · simp; linarith
      · exact hp c (by simp [hc'])
    · unfold SortedMean at hs ⊢
      rw [List.pairwise_cons] at hs ⊢
      obtain ⟨h1, h2⟩ := hs
      rw [List.pairwise_cons] at h2
      refine ⟨fun d hd => ?_, h2.2⟩
      exact le_trans (fuse_mean_le hc hn (h1 _ (by simp)) le_rfl) (h2.1 d hd)
  | @push cur next rest out hf ih =>
    unfold SortedMean at hs ⊢
    rw [List.pairwise_cons] at hs ⊢
    refine ⟨?_, ih (fun d hd => hp d (List.mem_cons_of_mem _ hd)) hs.2⟩
    exact hf.lower (fun d hd => hp d (List.mem_cons_of_mem _ hd)) hs.1

/-! ### `merge` -/

/-- the comparison used by `merge` -/
def leMean (a b : Centroid α) : Bool := decide (a.mean ≤ b.mean)

theorem merge_of_nil {sf : ScaleFn α} {s : St α} (h : s.backlog = []) : merge sf s = s := by
  unfold merge; simp [h]

/-- shape of `merge` when there is a backlog -/
theorem merge_of_ne {sf : ScaleFn α} {s : St α} (h : s.backlog ≠ []) :
    ∃ c0 rest, (s.centroids ++ s.backlog.reverse).mergeSort leMean = c0 :: rest ∧
      merge sf s = { s with
        centroids := ml sf s.nSamples (sumCount (c0 :: rest)) rest c0 0
          (sf.fInv (sf.f 0 s.nSamples + 1) s.nSamples),
        backlog := [] } := by
  have hperm := List.mergeSort_perm (s.centroids ++ s.backlog.reverse) leMean
  cases hx : (s.centroids ++ s.backlog.reverse).mergeSort leMean with
  | nil =>
    rw [hx] at hperm
    have := hperm.length_eq
    simp at this
    have h2 : s.backlog.length = 0 := by omega
    exact absurd (List.length_eq_zero_iff.1 h2) h
  | cons c0 rest =>
    refine ⟨c0, rest, rfl, ?_⟩
    unfold merge
    have hb : s.backlog.isEmpty = false := by
      cases hb : s.backlog with
      | nil => exact absurd hb h
      | cons _ _ => rfl
    simp only [hb, Bool.false_eq_true, if_false]
    change (match (s.centroids ++ s.backlog.reverse).mergeSort leMean with
      | [] => s
      | c0 :: rest => _) = _
    rw [hx]
    simp only [mergeLoop_eq, List.reverse_nil, List.nil_append, totalCount_eq]
    rw [← hx]; rfl

theorem sortedMean_mergeSort (l : List (Centroid α)) : SortedMean (l.mergeSort leMean) := by
  have := List.pairwise_mergeSort (le := leMean (α := α))
    (fun a b c hab hbc => by
      simp only [leMean, decide_eq_true_eq] at *; exact le_trans hab hbc)
    (fun a b => by
      simp only [leMean, Bool.or_eq_true, decide_eq_true_eq]; exact le_total _ _) l
  unfold SortedMean
  refine this.imp ?_
  intro a b h
  simpa [leMean] using h

/-- what `merge` does: nothing without a backlog; otherwise the centroids become a greedy fusion of
a sorted permutation of all centroids, and the backlog is emptied. -/
theorem merge_cases (sf : ScaleFn α) (s : St α) :
    (s.backlog = [] ∧ merge sf s = s) ∨
    (s.backlog ≠ [] ∧ ∃ c0 rest, (c0 :: rest).Perm (s.centroids ++ s.backlog) ∧ SortedMean (c0 :: rest) ∧
      merge sf s = { s with
        centroids := ml sf s.nSamples (sumCount (c0 :: rest)) rest c0 0
          (sf.fInv (sf.f 0 s.nSamples + 1) s.nSamples),
        backlog := [] }) := by
  by_cases h : s.backlog = []
  · exact Or.inl ⟨h, merge_of_nil h⟩
  · obtain ⟨c0, rest, hx, hm⟩ := merge_of_ne (sf := sf) h
    refine Or.inr ⟨h, c0, rest, ?_, ?_, hm⟩
    · rw [← hx]
      exact (List.mergeSort_perm _ _).trans (List.Perm.append_left _ (List.reverse_perm _))
    · rw [← hx]; exact sortedMean_mergeSort _

@[simp] theorem merge_backlog (sf : ScaleFn α) (s : St α) : (merge sf s).backlog = [] := by
  rcases merge_cases sf s with ⟨h, e⟩ | ⟨_, c0, rest, _, _, e⟩ <;> rw [e]; exact h

@[simp] theorem merge_min (sf : ScaleFn α) (s : St α) : (merge sf s).min = s.min := by
  rcases merge_cases sf s with ⟨h, e⟩ | ⟨_, c0, rest, _, _, e⟩ <;> rw [e]
@[simp] theorem merge_max (sf : ScaleFn α) (s : St α) : (merge sf s).max = s.max := by
  rcases merge_cases sf s with ⟨h, e⟩ | ⟨_, c0, rest, _, _, e⟩ <;> rw [e]
@[simp] theorem merge_maxBacklog (sf : ScaleFn α) (s : St α) : (merge sf s).maxBacklog = s.maxBacklog := by
  rcases merge_cases sf s with ⟨h, e⟩ | ⟨_, c0, rest, _, _, e⟩ <;> rw [e]
@[simp] theorem merge_nSamples (sf : ScaleFn α) (s : St α) : (merge sf s).nSamples = s.nSamples := by
  rcases merge_cases sf s with ⟨h, e⟩ | ⟨_, c0, rest, _, _, e⟩ <;> rw [e]

/-- `reads_idempotent`: a second `merge` is a no-op -/
theorem merge_merge (sf : ScaleFn α) (s : St α) : merge sf (merge sf s) = merge sf s :=
  merge_of_nil (merge_backlog sf s)

/-- the centroids after `merge` are a fusion of a sorted permutation of everything, or unchanged -/
theorem merge_centroids (sf : ScaleFn α) (s : St α) :
    (s.backlog = [] ∧ (merge sf s).centroids = s.centroids) ∨
    (∃ x, x.Perm (s.centroids ++ s.backlog) ∧ SortedMean x ∧ Fused x (merge sf s).centroids) := by
  rcases merge_cases sf s with ⟨h, e⟩ | ⟨_, c0, rest, hp, hs, e⟩
  · exact Or.inl ⟨h, by rw [e]⟩
  · refine Or.inr ⟨c0 :: rest, hp, hs, ?_⟩
    rw [e]; exact ml_fused _ _ _ _ _ _ _

end Pds.TDigest
