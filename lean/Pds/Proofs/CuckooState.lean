/-
Cuckoo filter proofs, part 3: state-level invariant and the specifications of
`new`, `insert`, `delete`, `query`, `clear`.
-/
import Pds.Proofs.CuckooOps

namespace Pds.Cuckoo

/-- What `with_params_and_hash` guarantees about the parameters and the table length. -/
structure Valid {R : Type} (s : St R) : Prop where
  bs2 : 2 ≤ s.bs
  pow : ∃ j, 1 ≤ j ∧ s.nb = 2 ^ j
  lf : 2 ≤ s.lf ∧ s.lf ≤ 64
  size : s.table.size = s.nb * s.bs

/-- the multiset of classes held by the filter -/
def abs {R : Type} (hash : List Nat → Nat) (s : St R) : Multiset Cls := absT hash s.bs s.nb s.table

/-- class of element `x` with respect to the parameters of `s` -/
def clsS {R : Type} (hash : List Nat → Nat) (s : St R) (x : Nat) : Cls := clsOf hash s.nb s.lf x

/-- the filter is well-formed and `len` is the number of occupied slots -/
def Inv {R : Type} (hash : List Nat → Nat) (s : St R) : Prop := Valid s ∧ s.n = (abs hash s).card

/-- same construction parameters -/
def SameParams {R : Type} (s s' : St R) : Prop := s'.bs = s.bs ∧ s'.nb = s.nb ∧ s'.lf = s.lf

theorem Valid.tvalid {R : Type} {s : St R} (h : Valid s) : TValid s.bs s.nb s.table := by
  obtain ⟨j, _, e⟩ := h.pow
  exact ⟨by have := h.bs2; omega, ⟨j, e⟩, h.size⟩

theorem Valid.of_table {R : Type} {s s' : St R} (h : Valid s) (hp : SameParams s s')
    (ht : TValid s.bs s.nb s'.table) : Valid s' := by
  obtain ⟨h1, h2, h3⟩ := hp
  exact ⟨by rw [h1]; exact h.bs2, by rw [h2]; exact h.pow, by rw [h3]; exact h.lf,
    by rw [h1, h2]; exact ht.size⟩

/-! ## `new` -/

theorem isPow2_iff {n : Nat} : isPow2 n = true ↔ ∃ j, n = 2 ^ j := by
  unfold isPow2
  constructor
  · intro h
    simp at h
    exact ⟨_, h.2.symm⟩
  · rintro ⟨j, rfl⟩
    have : 2 ^ j ≠ 0 := Nat.ne_of_gt (Nat.two_pow_pos j)
    simp [Nat.log2_two_pow]

theorem new_spec {R : Type} (hash : List Nat → Nat) {rng : R} {bs nb lf : Nat} {s : St R}
    (h : new rng bs nb lf = some s) :
    Valid s ∧ s.n = 0 ∧ s.bs = bs ∧ s.nb = nb ∧ s.lf = lf ∧ s.rng = rng ∧
      (∀ p, gt s.table p = 0) ∧ abs hash s = 0 ∧ Inv hash s := by
  unfold new at h
  split at h
  · rename_i hc
    obtain ⟨c1, c2, c3, c4, c5, _, _⟩ := hc
    simp only [Option.some.injEq] at h
    subst h
    obtain ⟨j, rfl⟩ := isPow2_iff.1 c2
    have hj : 1 ≤ j := by
      cases j with
      | zero => simp at c3
      | succ j => omega
    have hv : Valid (⟨bs, 2 ^ j, lf, Array.replicate (2 ^ j * bs) 0, 0, rng⟩ : St R) :=
      ⟨c1, ⟨j, hj, rfl⟩, ⟨c4, c5⟩, by simp⟩
    have ha : abs hash (⟨bs, 2 ^ j, lf, Array.replicate (2 ^ j * bs) 0, 0, rng⟩ : St R) = 0 :=
      absT_replicate hash bs (2 ^ j) _
    exact ⟨hv, rfl, rfl, rfl, rfl, rfl, fun p => gt_replicate _ p, ha, hv, by rw [ha]; rfl⟩
  · cases h

/-- `new` succeeds exactly on the documented parameter ranges (plus the two size limits). -/
theorem new_isSome {R : Type} (rng : R) {bs nb lf j : Nat} (h1 : 2 ≤ bs) (h2 : nb = 2 ^ j) (hj : 1 ≤ j)
    (h3 : 2 ≤ lf) (h4 : lf ≤ 64) (h5 : nb * bs < 2 ^ 64) (h6 : lf * (nb * bs) < 2 ^ 64) :
    ∃ s, new rng bs nb lf = some s := by
  unfold new
  have hp : isPow2 nb = true := isPow2_iff.2 ⟨j, h2⟩
  have hn : nb ≥ 2 := by
    rw [h2]; calc 2 = 2 ^ 1 := rfl
      _ ≤ 2 ^ j := Nat.pow_le_pow_right (by omega) hj
  rw [if_pos ⟨h1, hp, hn, h3, h4, h5, h6⟩]
  exact ⟨_, rfl⟩

/-! ## `start` -/

theorem start_facts {R : Type} (hash : List Nat → Nat) {s : St R} (hv : Valid s) (x : Nat) :
    fingerprint hash s.lf x ≠ 0 ∧ bucketOf hash s.nb x < s.nb ∧
    bucketOf hash s.nb x ^^^ bucketOf hash s.nb (fingerprint hash s.lf x) < s.nb ∧
    cls hash s.nb (fingerprint hash s.lf x)
        (bucketOf hash s.nb x ^^^ bucketOf hash s.nb (fingerprint hash s.lf x)) = clsS hash s x ∧
    cls hash s.nb (fingerprint hash s.lf x) (bucketOf hash s.nb x) = clsS hash s x := by
  have ht := hv.tvalid
  have h1 := fingerprint_pos hash s.lf x
  have h2 := bucketOf_lt hash ht.nb_pos x
  exact ⟨by omega, h2, ht.xor_lt h2 (bucketOf_lt hash ht.nb_pos _), cls_alt _ _ _ _, rfl⟩

/-! ## `insert` -/

theorem insert_spec {R : Type} (I : RngI R) (hI : RngOK I) (hash : List Nat → Nat) (kicks : Nat)
    {s : St R} (hinv : Inv hash s) (x : Nat) :
    ∃ s' r, insert I hash kicks s x = some (s', r) ∧ SameParams s s' ∧
      (∀ b, r = .ok b → b = true ∧ abs hash s' = abs hash s + {clsS hash s x} ∧
        s'.n = s.n + 1 ∧ Inv hash s') ∧
      (r = .full → s'.table = s.table ∧ s'.n = s.n) := by
  obtain ⟨hv, hn⟩ := hinv
  obtain ⟨f0, hi1, hi2, c2, c1⟩ := start_facts hash hv x
  obtain ⟨st, hst, hok⟩ := insertInternal_spec I hI hash kicks s.n s.rng [] hv.tvalid f0 hi1 hi2
    (c2.trans c1.symm)
  rw [c1] at hok
  unfold insert
  simp only [start, hst]
  cases hres : st.res with
  | ok b =>
    simp only
    refine ⟨_, _, rfl, ⟨rfl, rfl, rfl⟩, ?_, by intro h; cases h⟩
    intro b' hb'
    simp only [Res.ok.injEq] at hb'
    subst hb'
    obtain ⟨k1, k2, k3⟩ := hok.ok b hres
    refine ⟨k1, k2, k3, Valid.of_table hv ⟨rfl, rfl, rfl⟩ hok.valid, ?_⟩
    show st.n = (absT hash s.bs s.nb st.table).card
    rw [k2, k3, hn, Multiset.card_add, Multiset.card_singleton]; rfl
  | full =>
    simp only
    refine ⟨_, _, rfl, ⟨rfl, rfl, rfl⟩, (by intro b h; cases h), ?_⟩
    intro _
    refine ⟨?_, hok.full hres⟩
    show restore st.table st.log = s.table
    rw [hok.undo]; rfl

/-- fewer than `bucketsize` elements: the insert cannot fail -/
theorem insert_small {R : Type} (I : RngI R) (hash : List Nat → Nat) (kicks : Nat)
    {s : St R} (hinv : Inv hash s) (hsmall : s.n < s.bs) (x : Nat) :
    ∃ s', insert I hash kicks s x = some (s', .ok true) := by
  obtain ⟨hv, hn⟩ := hinv
  obtain ⟨_, hi1, _, _, _⟩ := start_facts hash hv x
  have hfree : ¬ Full s.table s.bs (bucketOf hash s.nb x) := by
    intro hfull
    have := card_ge_of_full hash hv.tvalid hi1 hfull
    unfold abs at hn
    omega
  obtain ⟨st, hst, hres⟩ := insertInternal_of_free I hash kicks s.n s.rng []
    (f := fingerprint hash s.lf x)
    (bucketOf hash s.nb x ^^^ bucketOf hash s.nb (fingerprint hash s.lf x)) hv.tvalid hi1 hfree
  unfold insert
  simp only [start, hst, hres]
  exact ⟨_, rfl⟩

/-! ## membership of a class -/

theorem mem_absT_iff (hash : List Nat → Nat) {bs nb : Nat} {t : Array Nat} (hv : TValid bs nb t)
    {f i1 : Nat} (hf : f ≠ 0) (hi1 : i1 < nb) :
    cls hash nb f i1 ∈ absT hash bs nb t ↔
      (∃ e, e < bs ∧ gt t (i1 * bs + e) = f) ∨
      (∃ e, e < bs ∧ gt t ((i1 ^^^ bucketOf hash nb f) * bs + e) = f) := by
  have hi2 : i1 ^^^ bucketOf hash nb f < nb := hv.xor_lt hi1 (bucketOf_lt hash hv.nb_pos _)
  rw [mem_absT]
  constructor
  · rintro ⟨p, hp, hne, hc⟩
    obtain ⟨e1, e2⟩ := (cls_eq_iff _ _ _ _ _ _).1 hc
    rcases e2 with e2 | e2
    · left
      obtain ⟨a, b⟩ := (in_bucket_iff hv.bs_pos).2 e2
      obtain ⟨e, he, rfl⟩ := bucket_pos a b
      exact ⟨e, he, e1⟩
    · right
      obtain ⟨a, b⟩ := (in_bucket_iff hv.bs_pos).2 e2
      obtain ⟨e, he, rfl⟩ := bucket_pos a b
      exact ⟨e, he, e1⟩
  · rintro (⟨e, he, hg⟩ | ⟨e, he, hg⟩)
    · refine ⟨i1 * bs + e, by rw [hv.size]; exact slot_lt hi1 he, by rw [hg]; exact hf, ?_⟩
      rw [hg, slot_div he]
    · refine ⟨(i1 ^^^ bucketOf hash nb f) * bs + e, by rw [hv.size]; exact slot_lt hi2 he,
        by rw [hg]; exact hf, ?_⟩
      rw [hg, slot_div he, cls_alt]

/-! ## `query` -/

theorem query_spec {R : Type} (hash : List Nat → Nat) {s : St R} (hv : Valid s) (y : Nat) :
    ∃ b, query hash s y = some b ∧ (b = true ↔ clsS hash s y ∈ abs hash s) := by
  obtain ⟨f0, hi1, hi2, _, _⟩ := start_facts hash hv y
  have hm := mem_absT_iff hash hv.tvalid f0 hi1
  unfold query
  simp only [start]
  rcases hasInBucket_spec hv.tvalid hi1 (fingerprint hash s.lf y) with ⟨h1, n1⟩ | ⟨h1, e, he, hg⟩
  · rw [h1]
    simp only
    rcases hasInBucket_spec hv.tvalid hi2 (fingerprint hash s.lf y) with ⟨h2, n2⟩ | ⟨h2, e, he, hg⟩
    · refine ⟨false, h2, ?_⟩
      simp only [Bool.false_eq_true, false_iff]
      intro hc
      rcases hm.1 hc with ⟨e, he, hg⟩ | ⟨e, he, hg⟩
      · exact n1 e he hg
      · exact n2 e he hg
    · exact ⟨true, h2, by simp only [true_iff]; exact hm.2 (Or.inr ⟨e, he, hg⟩)⟩
  · rw [h1]
    exact ⟨true, rfl, by simp only [true_iff]; exact hm.2 (Or.inl ⟨e, he, hg⟩)⟩

/-! ## `delete` -/

theorem delete_spec {R : Type} (hash : List Nat → Nat) {s : St R} (hinv : Inv hash s) (x : Nat) :
    ∃ s' b, delete hash s x = some (s', b) ∧
      (b = true ↔ clsS hash s x ∈ abs hash s) ∧
      (b = true → SameParams s s' ∧ s'.rng = s.rng ∧
        abs hash s' = (abs hash s).erase (clsS hash s x) ∧ s'.n + 1 = s.n ∧ Inv hash s') ∧
      (b = false → s' = s) := by
  obtain ⟨hv, hn⟩ := hinv
  obtain ⟨f0, hi1, hi2, c2, c1⟩ := start_facts hash hv x
  have hm := mem_absT_iff hash hv.tvalid f0 hi1
  rw [c1] at hm
  -- common part of the two successful cases
  have succ : ∀ {i e : Nat}, i < s.nb → e < s.bs → cls hash s.nb (fingerprint hash s.lf x) i = clsS hash s x →
      gt s.table (i * s.bs + e) = fingerprint hash s.lf x →
      ∀ s' : St R, s' = { s with table := s.table.setIfInBounds (i * s.bs + e) 0, n := s.n - 1 } →
      SameParams s s' ∧ s'.rng = s.rng ∧
        abs hash s' = (abs hash s).erase (clsS hash s x) ∧ s'.n + 1 = s.n ∧ Inv hash s' := by
    intro i e hi he hc hg s' hs'
    subst hs'
    obtain ⟨r1, r2⟩ := remove_effect hash hv.tvalid hi he f0 hg
    rw [hc] at r2
    have hab := (Multiset.add_singleton_eq_iff.1 r2).2
    have hcard : (absT hash s.bs s.nb (s.table.setIfInBounds (i * s.bs + e) 0)).card + 1 =
        (abs hash s).card := by
      have := congrArg Multiset.card r2
      simpa [abs] using this
    refine ⟨⟨rfl, rfl, rfl⟩, rfl, hab, ?_, Valid.of_table hv ⟨rfl, rfl, rfl⟩ r1, ?_⟩
    · show s.n - 1 + 1 = s.n
      omega
    · show s.n - 1 = (absT hash s.bs s.nb (s.table.setIfInBounds (i * s.bs + e) 0)).card
      omega
  unfold delete
  simp only [start]
  rcases removeFromBucket_spec hv.tvalid hi1 (fingerprint hash s.lf x) with
    ⟨h1, n1⟩ | ⟨e, he, hg, h1⟩
  · rw [h1]
    simp only
    rcases removeFromBucket_spec hv.tvalid hi2 (fingerprint hash s.lf x) with
      ⟨h2, n2⟩ | ⟨e, he, hg, h2⟩
    · rw [h2]
      refine ⟨s, false, rfl, ?_, (by intro h; cases h), fun _ => rfl⟩
      simp only [Bool.false_eq_true, false_iff]
      intro hc
      rcases hm.1 hc with ⟨e, he, hg⟩ | ⟨e, he, hg⟩
      · exact n1 e he hg
      · exact n2 e he hg
    · rw [h2]
      refine ⟨_, true, rfl, ?_, fun _ => succ hi2 he c2 hg _ rfl, by intro h; cases h⟩
      simp only [true_iff]
      exact hm.2 (Or.inr ⟨e, he, hg⟩)
  · rw [h1]
    refine ⟨_, true, rfl, ?_, fun _ => succ hi1 he c1 hg _ rfl, by intro h; cases h⟩
    simp only [true_iff]
    exact hm.2 (Or.inl ⟨e, he, hg⟩)

/-! ## `clear` -/

theorem clear_spec {R : Type} (hash : List Nat → Nat) {s : St R} (hv : Valid s) :
    SameParams s (clear s) ∧ (clear s).rng = s.rng ∧ (clear s).n = 0 ∧ abs hash (clear s) = 0 ∧
      Inv hash (clear s) := by
  have ha : abs hash (clear s) = 0 := absT_replicate hash s.bs s.nb _
  have hval : Valid (clear s) := ⟨hv.bs2, hv.pow, hv.lf, by simp [clear, hv.size]⟩
  exact ⟨⟨rfl, rfl, rfl⟩, rfl, rfl, ha, hval, by rw [ha]; rfl⟩

end Pds.Cuckoo
