import Pds.Model.Sizing
import Mathlib.Analysis.SpecialFunctions.Log.Base
import Mathlib.Analysis.SpecialFunctions.Exp
import Mathlib.Analysis.Complex.ExponentialBounds
import Mathlib.Algebra.Order.Floor.Defs
import Mathlib.Tactic.Linarith
import Mathlib.Tactic.NormNum
/-!
The sizing formulas of `Pds.Sizing` at the carrier `ℝ` (`log = Real.log`, `log2 = Real.logb 2`,
`exp = Real.exp`, `floorNat = ⌊·⌋₊`, `ceilNat = ⌈·⌉₊`): what the parameter computations of
`BloomFilter::with_properties`, `CuckooFilter::with_properties_*` and
`CountMinSketch::with_point_query_properties` return, as ordinary real expressions, and the
inequalities these satisfy.
-/
namespace Pds.Sizing

noncomputable instance instTranscReal : Transc ℝ :=
  ⟨Real.log, Real.logb 2, Real.exp, fun x => ⌊x⌋₊, fun x => ⌈x⌉₊⟩

/-! ### Bloom filter -/

/-- the real number whose floor is `k` -/
noncomputable def bloomKReal (p : ℝ) : ℝ := -Real.logb 2 p
/-- the real number whose floor is `m` -/
noncomputable def bloomMReal (n : ℕ) (p : ℝ) : ℝ := -((n : ℝ) * Real.log p) / (Real.log 2 * Real.log 2)

theorem bloomParams_eq {n : ℕ} {p : ℝ} (hn : 1 ≤ n) (hp : 0 < p) (hp1 : p < 1) :
    bloomParams n p = some (max 1 ⌊bloomKReal p⌋₊, max 1 ⌊bloomMReal n p⌋₊) := by
  unfold bloomParams bloomKReal bloomMReal
  rw [if_pos ⟨hn, hp, hp1⟩]
  simp [Transc.floorNat, Transc.log2, Transc.log, max_comm]

theorem bloomParams_eq_none_iff (n : ℕ) (p : ℝ) :
    bloomParams n p = none ↔ n = 0 ∨ p ≤ 0 ∨ 1 ≤ p := by
  unfold bloomParams
  by_cases h : 0 < n ∧ 0 < p ∧ p < 1
  · rw [if_pos h]
    obtain ⟨h1, h2, h3⟩ := h
    constructor
    · intro h; cases h
    · rintro (h | h | h)
      · omega
      · linarith
      · linarith
  · rw [if_neg h]
    simp only [true_iff]
    by_cases h1 : n = 0
    · exact Or.inl h1
    · by_cases h2 : p ≤ 0
      · exact Or.inr (Or.inl h2)
      · refine Or.inr (Or.inr ?_)
        by_contra h3
        exact h ⟨Nat.pos_of_ne_zero h1, not_le.mp h2, not_le.mp h3⟩

theorem bloomKReal_pos {p : ℝ} (hp : 0 < p) (hp1 : p < 1) : 0 < bloomKReal p := by
  unfold bloomKReal
  have := Real.logb_neg (b := 2) (by norm_num) hp hp1
  linarith

theorem bloomMReal_pos {n : ℕ} {p : ℝ} (hn : 1 ≤ n) (hp : 0 < p) (hp1 : p < 1) :
    0 < bloomMReal n p := by
  unfold bloomMReal
  have h2 : 0 < Real.log 2 := Real.log_pos (by norm_num)
  have hl : Real.log p < 0 := Real.log_neg hp hp1
  have hn' : (0 : ℝ) < n := by exact_mod_cast hn
  apply div_pos _ (mul_pos h2 h2)
  have := mul_neg_of_pos_of_neg hn' hl
  linarith

/-- `max 1 ⌊x⌋₊` as a real is at most `max 1 x`, and `max 1 x` is below it plus one -/
theorem max_one_floor_bounds {x : ℝ} (hx : 0 ≤ x) :
    ((max 1 ⌊x⌋₊ : ℕ) : ℝ) ≤ max 1 x ∧ max 1 x < ((max 1 ⌊x⌋₊ : ℕ) : ℝ) + 1 := by
  have h1 : (⌊x⌋₊ : ℝ) ≤ x := Nat.floor_le hx
  have h2 : x < (⌊x⌋₊ : ℝ) + 1 := Nat.lt_floor_add_one x
  rw [Nat.cast_max, Nat.cast_one]
  constructor
  · exact max_le_max le_rfl h1
  · rcases le_total (1 : ℝ) (⌊x⌋₊ : ℝ) with h | h
    · rw [max_eq_right h]
      exact max_lt (by linarith) h2
    · rw [max_eq_left h]
      exact max_lt (by linarith) (by linarith)

/-- `⌊−log₂ (3/4)⌋ = 0`: the unclamped `k` of `p = 0.75` -/
theorem bloomK_three_quarters : ⌊bloomKReal (3 / 4)⌋₊ = 0 := by
  rw [Nat.floor_eq_zero]
  unfold bloomKReal
  have h : Real.logb 2 (1 / 2) < Real.logb 2 (3 / 4) :=
    Real.logb_lt_logb (by norm_num) (by norm_num) (by norm_num)
  have h2 : Real.logb 2 (1 / 2) = -1 := by
    rw [one_div, Real.logb_inv, Real.logb_self_eq_one (by norm_num)]
  linarith

/-- `⌊−1·ln 0.9 / (ln 2)²⌋ = 0`: the unclamped `m` of `n = 1, p = 0.9` -/
theorem bloomM_one_nine_tenths : ⌊bloomMReal 1 (9 / 10)⌋₊ = 0 := by
  rw [Nat.floor_eq_zero]
  unfold bloomMReal
  have h2 : (0.69 : ℝ) < Real.log 2 := lt_trans (by norm_num) Real.log_two_gt_d9
  have hl : Real.log (10 / 9) ≤ 10 / 9 - 1 := Real.log_le_sub_one_of_pos (by norm_num)
  have he : Real.log (9 / 10) = -Real.log (10 / 9) := by
    rw [← Real.log_inv]; norm_num
  rw [he, div_lt_one (by positivity)]
  have : (0.69 : ℝ) * 0.69 < Real.log 2 * Real.log 2 :=
    mul_lt_mul'' h2 h2 (by norm_num) (by norm_num)
  norm_num at this hl ⊢
  linarith

/-! ### count-min sketch -/

theorem cmsParams_eq {ε δ : ℝ} (hε : 0 < ε) (hδ : 0 < δ) (hδ1 : δ < 1) :
    cmsParams ε δ = some (⌈Real.exp 1 / ε⌉₊, ⌈Real.log (1 / δ)⌉₊) := by
  unfold cmsParams
  rw [if_pos ⟨hε, hδ, hδ1⟩]
  rfl

theorem cmsParams_eq_none_iff (ε δ : ℝ) :
    cmsParams ε δ = none ↔ ε ≤ 0 ∨ δ ≤ 0 ∨ 1 ≤ δ := by
  unfold cmsParams
  by_cases h : 0 < ε ∧ 0 < δ ∧ δ < 1
  · rw [if_pos h]
    obtain ⟨h1, h2, h3⟩ := h
    constructor
    · intro h; cases h
    · rintro (h | h | h) <;> linarith
  · rw [if_neg h]
    simp only [true_iff]
    by_contra hc
    push Not at hc
    exact h hc

theorem cms_width_bounds {ε : ℝ} (hε : 0 < ε) :
    Real.exp 1 / ε ≤ (⌈Real.exp 1 / ε⌉₊ : ℝ) ∧ 1 ≤ ⌈Real.exp 1 / ε⌉₊ := by
  refine ⟨Nat.le_ceil _, ?_⟩
  exact Nat.ceil_pos.mpr (div_pos (Real.exp_pos 1) hε)

theorem cms_depth_bounds {δ : ℝ} (hδ : 0 < δ) (hδ1 : δ < 1) :
    1 ≤ ⌈Real.log (1 / δ)⌉₊ ∧ Real.exp (-(⌈Real.log (1 / δ)⌉₊ : ℝ)) ≤ δ := by
  have hpos : 0 < Real.log (1 / δ) := by
    apply Real.log_pos
    rw [lt_div_iff₀ hδ]; linarith
  refine ⟨Nat.ceil_pos.mpr hpos, ?_⟩
  have h1 : Real.log (1 / δ) ≤ (⌈Real.log (1 / δ)⌉₊ : ℝ) := Nat.le_ceil _
  have h2 : Real.log (1 / δ) = -Real.log δ := by rw [one_div, Real.log_inv]
  calc Real.exp (-(⌈Real.log (1 / δ)⌉₊ : ℝ)) ≤ Real.exp (Real.log δ) :=
        Real.exp_le_exp.mpr (by linarith)
    _ = δ := Real.exp_log hδ

/-! ### cuckoo filter -/

theorem nextPow2_spec (n : ℕ) : ∃ j, nextPow2 n = 2 ^ j ∧ n ≤ nextPow2 n ∧
    (2 ≤ n → nextPow2 n < 2 * n) := by
  unfold nextPow2
  by_cases h : n ≤ 1
  · rw [if_pos h]
    exact ⟨0, rfl, h, fun h2 => by omega⟩
  · rw [if_neg h]
    refine ⟨Nat.log2 (n - 1) + 1, rfl, ?_, fun _ => ?_⟩
    · have := Nat.lt_log2_self (n := n - 1)
      omega
    · have := Nat.log2_self_le (n := n - 1) (by omega)
      rw [Nat.pow_succ]
      omega

/-- the real number whose ceiling is the fingerprint length -/
noncomputable def cuckooLReal (b : ℕ) (p : ℝ) : ℝ := Real.logb 2 (2 * (b : ℝ) / p)

theorem cuckooParams_eq (b : ℕ) (load : ℝ) {p : ℝ} {n : ℕ} (hn : 1 ≤ n) (hp : 0 < p) (hp1 : p < 1) :
    cuckooParams b load p n = some (b,
      nextPow2 ⌈((⌈cuckooLReal b p⌉₊ : ℝ) / load) * (n : ℝ) / (⌈cuckooLReal b p⌉₊ : ℝ)⌉₊,
      ⌈cuckooLReal b p⌉₊) := by
  unfold cuckooParams cuckooLReal
  rw [if_pos ⟨hn, hp, hp1⟩]
  simp [Transc.ceilNat, Transc.log2]

theorem cuckooParams_eq_none_iff (b : ℕ) (load p : ℝ) (n : ℕ) :
    cuckooParams b load p n = none ↔ n = 0 ∨ p ≤ 0 ∨ 1 ≤ p := by
  unfold cuckooParams
  by_cases h : 1 ≤ n ∧ 0 < p ∧ p < 1
  · rw [if_pos h]
    obtain ⟨h1, h2, h3⟩ := h
    constructor
    · intro h; cases h
    · rintro (h | h | h)
      · omega
      · linarith
      · linarith
  · rw [if_neg h]
    simp only [true_iff]
    by_contra hc
    push Not at hc
    exact h ⟨Nat.pos_of_ne_zero hc.1, hc.2.1, hc.2.2⟩

theorem cuckoo_arg_gt_two {b : ℕ} {p : ℝ} (hb : 1 ≤ b) (hp : 0 < p) (hp1 : p < 1) :
    2 < 2 * (b : ℝ) / p := by
  have hb' : (1 : ℝ) ≤ b := by exact_mod_cast hb
  rw [lt_div_iff₀ hp]
  nlinarith

/-- `1 < log₂(2b/p)`, so the fingerprint has at least two bits -/
theorem cuckooLReal_gt_one {b : ℕ} {p : ℝ} (hb : 1 ≤ b) (hp : 0 < p) (hp1 : p < 1) :
    1 < cuckooLReal b p := by
  unfold cuckooLReal
  have h := cuckoo_arg_gt_two hb hp hp1
  rw [Real.lt_logb_iff_rpow_lt (by norm_num) (by linarith)]
  simpa using h

theorem cuckoo_l_ge_two {b : ℕ} {p : ℝ} (hb : 1 ≤ b) (hp : 0 < p) (hp1 : p < 1) :
    2 ≤ ⌈cuckooLReal b p⌉₊ := by
  have h := cuckooLReal_gt_one hb hp hp1
  have : 1 < ⌈cuckooLReal b p⌉₊ := Nat.lt_ceil.mpr (by simpa using h)
  omega

/-- `2b/p ≤ 2^l` -/
theorem cuckoo_pow_ge {b : ℕ} {p : ℝ} (hb : 1 ≤ b) (hp : 0 < p) (hp1 : p < 1) :
    2 * (b : ℝ) / p ≤ (2 : ℝ) ^ ⌈cuckooLReal b p⌉₊ := by
  have hpos : 0 < 2 * (b : ℝ) / p := by linarith [cuckoo_arg_gt_two hb hp hp1]
  have h1 : cuckooLReal b p ≤ (⌈cuckooLReal b p⌉₊ : ℝ) := Nat.le_ceil _
  unfold cuckooLReal at h1 ⊢
  rw [Real.logb_le_iff_le_rpow (by norm_num) hpos, Real.rpow_natCast] at h1
  exact h1

/-- the fingerprint-collision bound `2b / 2^l ≤ p` -/
theorem cuckoo_collision_bound {b : ℕ} {p : ℝ} (hb : 1 ≤ b) (hp : 0 < p) (hp1 : p < 1) :
    2 * (b : ℝ) / (2 : ℝ) ^ ⌈cuckooLReal b p⌉₊ ≤ p := by
  have h := cuckoo_pow_ge hb hp hp1
  rw [div_le_iff₀ hp] at h
  rw [div_le_iff₀ (by positivity)]
  linarith

/-- the constructor's later check `l ≤ 64` -/
theorem cuckoo_l_le_iff {b : ℕ} {p : ℝ} (hb : 1 ≤ b) (hp : 0 < p) (hp1 : p < 1) (L : ℕ) :
    ⌈cuckooLReal b p⌉₊ ≤ L ↔ 2 * (b : ℝ) / p ≤ (2 : ℝ) ^ L := by
  have hpos : 0 < 2 * (b : ℝ) / p := by linarith [cuckoo_arg_gt_two hb hp hp1]
  rw [Nat.ceil_le]
  unfold cuckooLReal
  rw [Real.logb_le_iff_le_rpow (by norm_num) hpos, Real.rpow_natCast]

/-- the argument of `next_power_of_two` is `⌈n / load⌉` -/
theorem cuckoo_costs_simp {l : ℕ} (hl : 1 ≤ l) (load : ℝ) (n : ℕ) :
    ((l : ℝ) / load) * (n : ℝ) / (l : ℝ) = (n : ℝ) / load := by
  have hl' : (l : ℝ) ≠ 0 := by
    have : (1 : ℝ) ≤ l := by exact_mod_cast hl
    linarith
  by_cases h0 : load = 0
  · simp [h0]
  · field_simp

end Pds.Sizing
