import Mathlib.Algebra.Order.Field.Basic
import Mathlib.Tactic.Ring
import Mathlib.Tactic.Linarith
import Mathlib.Tactic.FieldSimp
import Mathlib.Tactic.Positivity
/-!
Piecewise-linear interpolation through a list of knots, with the two tie-breaking conventions used
by the t-digest (`quantile`: first knot with `x ≤ a`; `cdf`: first knot with `x < a`), and the three
facts needed about it: monotone, bounded by the end ordinates, and (for strictly increasing knots)
the two conventions are inverse to each other after swapping coordinates.
-/
set_option linter.unusedSectionVars false
namespace Pds.PL
variable {α : Type} [Field α] [LinearOrder α] [IsStrictOrderedRing α]

/-- the segment from knot `p` to knot `k`, evaluated at `x` -/
def seg (p k : α × α) (x : α) : α :=
  (x - p.1) / (k.1 - p.1) * k.2 + (1 - (x - p.1) / (k.1 - p.1)) * p.2

/-- interpolation, stopping at the first knot with `x ≤ abscissa`; beyond the last knot: its ordinate -/
def plLE : α × α → List (α × α) → α → α
  | p, [], _ => p.2
  | p, k :: ks, x => if x ≤ k.1 then seg p k x else plLE k ks x

/-- interpolation, stopping at the first knot with `x < abscissa` -/
def plLT : α × α → List (α × α) → α → α
  | p, [], _ => p.2
  | p, k :: ks, x => if x < k.1 then seg p k x else plLT k ks x

/-- knots non-decreasing in both coordinates -/
def Mono : α × α → List (α × α) → Prop
  | _, [] => True
  | p, k :: ks => p.1 ≤ k.1 ∧ p.2 ≤ k.2 ∧ Mono k ks

/-- knots strictly increasing in both coordinates -/
def StrictMono : α × α → List (α × α) → Prop
  | _, [] => True
  | p, k :: ks => p.1 < k.1 ∧ p.2 < k.2 ∧ StrictMono k ks

/-- abscissae strictly increasing -/
def StrictAbs : α × α → List (α × α) → Prop
  | _, [] => True
  | p, k :: ks => p.1 < k.1 ∧ StrictAbs k ks

theorem StrictMono.strictAbs {p : α × α} {ks : List (α × α)} (h : StrictMono p ks) : StrictAbs p ks := by
  induction ks generalizing p with
  | nil => trivial
  | cons k ks ih => exact ⟨h.1, ih h.2.2⟩

theorem StrictMono.mono {p : α × α} {ks : List (α × α)} (h : StrictMono p ks) : Mono p ks := by
  induction ks generalizing p with
  | nil => trivial
  | cons k ks ih => exact ⟨h.1.le, h.2.1.le, ih h.2.2⟩

/-- ordinate of the last knot -/
def lastOrd : α × α → List (α × α) → α
  | p, [] => p.2
  | _, k :: ks => lastOrd k ks

/-- abscissa of the last knot -/
def lastAbs : α × α → List (α × α) → α
  | p, [] => p.1
  | _, k :: ks => lastAbs k ks

theorem seg_eq (p k : α × α) (x : α) :
    seg p k x = p.2 + (x - p.1) / (k.1 - p.1) * (k.2 - p.2) := by
  unfold seg; ring

theorem seg_left (p k : α × α) : seg p k p.1 = p.2 := by
  rw [seg_eq]; simp

theorem seg_right {p k : α × α} (h : p.1 < k.1) : seg p k k.1 = k.2 := by
  rw [seg_eq, div_self (by linarith : k.1 - p.1 ≠ 0)]; ring

theorem seg_ge {p k : α × α} {x : α} (hx : p.1 ≤ x) (ha : p.1 ≤ k.1) (hb : p.2 ≤ k.2) :
    p.2 ≤ seg p k x := by
  rw [seg_eq]
  have : 0 ≤ (x - p.1) / (k.1 - p.1) * (k.2 - p.2) :=
    mul_nonneg (div_nonneg (by linarith) (by linarith)) (by linarith)
  linarith

theorem seg_le {p k : α × α} {x : α} (hx : p.1 ≤ x) (hxk : x ≤ k.1) (hb : p.2 ≤ k.2) :
    seg p k x ≤ k.2 := by
  rw [seg_eq]
  have h1 : (x - p.1) / (k.1 - p.1) ≤ 1 := by
    rcases eq_or_lt_of_le (le_trans hx hxk) with e | l
    · rw [← e]; simp
    · rw [div_le_one (by linarith)]; linarith
  have : (x - p.1) / (k.1 - p.1) * (k.2 - p.2) ≤ 1 * (k.2 - p.2) :=
    mul_le_mul_of_nonneg_right h1 (by linarith)
  linarith

theorem seg_mono {p k : α × α} {x y : α} (hx : p.1 ≤ x) (hxy : x ≤ y) (hyk : y ≤ k.1) (hb : p.2 ≤ k.2) :
    seg p k x ≤ seg p k y := by
  rw [seg_eq, seg_eq]
  have h1 : (x - p.1) / (k.1 - p.1) ≤ (y - p.1) / (k.1 - p.1) :=
    div_le_div_of_nonneg_right (by linarith) (by linarith)
  have := mul_le_mul_of_nonneg_right h1 (by linarith : 0 ≤ k.2 - p.2)
  linarith

/-! ### bounds -/

theorem plLE_ge {p : α × α} {ks : List (α × α)} (hm : Mono p ks) {x : α} (hx : p.1 ≤ x) :
    p.2 ≤ plLE p ks x := by
  induction ks generalizing p with
  | nil => exact le_rfl
  | cons k ks ih =>
    unfold plLE
    split
    · exact seg_ge hx hm.1 hm.2.1
    · rename_i h
      exact le_trans hm.2.1 (ih hm.2.2 (not_le.1 h).le)

theorem plLT_ge {p : α × α} {ks : List (α × α)} (hm : Mono p ks) {x : α} (hx : p.1 ≤ x) :
    p.2 ≤ plLT p ks x := by
  induction ks generalizing p with
  | nil => exact le_rfl
  | cons k ks ih =>
    unfold plLT
    split
    · exact seg_ge hx hm.1 hm.2.1
    · rename_i h
      exact le_trans hm.2.1 (ih hm.2.2 (not_lt.1 h))

theorem lastOrd_ge {p : α × α} {ks : List (α × α)} (hm : Mono p ks) : p.2 ≤ lastOrd p ks := by
  induction ks generalizing p with
  | nil => exact le_rfl
  | cons k ks ih => exact le_trans hm.2.1 (ih hm.2.2)

theorem plLE_le {p : α × α} {ks : List (α × α)} (hm : Mono p ks) {x : α} (hx : p.1 ≤ x) :
    plLE p ks x ≤ lastOrd p ks := by
  induction ks generalizing p with
  | nil => exact le_rfl
  | cons k ks ih =>
    unfold plLE lastOrd
    split
    · rename_i h
      exact le_trans (seg_le hx h hm.2.1) (lastOrd_ge hm.2.2)
    · rename_i h
      exact ih hm.2.2 (not_le.1 h).le

theorem plLT_le {p : α × α} {ks : List (α × α)} (hm : Mono p ks) {x : α} (hx : p.1 ≤ x) :
    plLT p ks x ≤ lastOrd p ks := by
  induction ks generalizing p with
  | nil => exact le_rfl
  | cons k ks ih =>
    unfold plLT lastOrd
    split
    · rename_i h
      exact le_trans (seg_le hx h.le hm.2.1) (lastOrd_ge hm.2.2)
    · rename_i h
      exact ih hm.2.2 (not_lt.1 h)

/-! ### monotonicity -/

theorem plLE_mono {p : α × α} {ks : List (α × α)} (hm : Mono p ks) {x y : α} (hx : p.1 ≤ x)
    (hxy : x ≤ y) : plLE p ks x ≤ plLE p ks y := by
  induction ks generalizing p with
  | nil => exact le_rfl
  | cons k ks ih =>
    unfold plLE
    by_cases h1 : x ≤ k.1 <;> by_cases h2 : y ≤ k.1
    · simp only [h1, h2, if_true]; exact seg_mono hx hxy h2 hm.2.1
    · simp only [h1, h2, if_true, if_false]
      exact le_trans (seg_le hx h1 hm.2.1) (plLE_ge hm.2.2 (not_le.1 h2).le)
    · exact absurd (le_trans hxy h2) h1
    · simp only [h1, h2, if_false]; exact ih hm.2.2 (not_le.1 h1).le

theorem plLT_mono {p : α × α} {ks : List (α × α)} (hm : Mono p ks) {x y : α} (hx : p.1 ≤ x)
    (hxy : x ≤ y) : plLT p ks x ≤ plLT p ks y := by
  induction ks generalizing p with
  | nil => exact le_rfl
  | cons k ks ih =>
    unfold plLT
    by_cases h1 : x < k.1 <;> by_cases h2 : y < k.1
    · simp only [h1, h2, if_true]; exact seg_mono hx hxy h2.le hm.2.1
    · simp only [h1, h2, if_true, if_false]
      exact le_trans (seg_le hx h1.le hm.2.1) (plLT_ge hm.2.2 (not_lt.1 h2))
    · exact absurd (lt_of_le_of_lt hxy h2) h1
    · simp only [h1, h2, if_false]; exact ih hm.2.2 (not_lt.1 h1)

/-! ### end points -/

theorem plLE_left (p : α × α) (ks : List (α × α)) (hm : Mono p ks) : plLE p ks p.1 = p.2 := by
  cases ks with
  | nil => rfl
  | cons k ks => simp only [plLE, hm.1, if_true, seg_left]

theorem plLT_ge_last {p : α × α} {ks : List (α × α)} (hm : Mono p ks) {x : α} (hx : lastAbs p ks ≤ x) :
    plLT p ks x = lastOrd p ks := by
  induction ks generalizing p with
  | nil => rfl
  | cons k ks ih =>
    have hk : k.1 ≤ x := by
      refine le_trans ?_ hx
      clear hx ih
      simp only [lastAbs]
      have : ∀ (q : α × α) (l : List (α × α)), Mono q l → q.1 ≤ lastAbs q l := by
        intro q l
        induction l generalizing q with
        | nil => intro _; exact le_rfl
        | cons a l ih => intro h; exact le_trans h.1 (ih a h.2.2)
      exact this k ks hm.2.2
    simp only [plLT, not_lt.2 hk, if_false, lastOrd]
    exact ih hm.2.2 hx

theorem StrictAbs.le_lastAbs {q : α × α} {l : List (α × α)} (h : StrictAbs q l) : q.1 ≤ lastAbs q l := by
  induction l generalizing q with
  | nil => exact le_rfl
  | cons a l ih => exact le_trans h.1.le (ih h.2)

theorem plLE_last {p : α × α} {ks : List (α × α)} (hm : StrictAbs p ks) :
    plLE p ks (lastAbs p ks) = lastOrd p ks := by
  induction ks generalizing p with
  | nil => rfl
  | cons k ks ih =>
    simp only [plLE, lastAbs, lastOrd]
    cases ks with
    | nil => simp only [lastAbs, le_refl, if_true, lastOrd]; exact seg_right hm.1
    | cons k' ks' =>
      have : k.1 < lastAbs k (k' :: ks') := lt_of_lt_of_le hm.2.1 hm.2.2.le_lastAbs
      simp only [not_le.2 this, if_false]
      exact ih hm.2

/-! ### inverse -/

/-- swap abscissae and ordinates -/
def swap (ks : List (α × α)) : List (α × α) := ks.map Prod.swap

theorem mono_swap {p : α × α} {ks : List (α × α)} (h : Mono p ks) : Mono p.swap (swap ks) := by
  induction ks generalizing p with
  | nil => trivial
  | cons k ks ih => exact ⟨h.2.1, h.1, ih h.2.2⟩

theorem lastOrd_swap (p : α × α) (ks : List (α × α)) : lastOrd p.swap (swap ks) = lastAbs p ks := by
  induction ks generalizing p with
  | nil => rfl
  | cons k ks ih => exact ih k

theorem lastAbs_swap (p : α × α) (ks : List (α × α)) : lastAbs p.swap (swap ks) = lastOrd p ks := by
  induction ks generalizing p with
  | nil => rfl
  | cons k ks ih => exact ih k

theorem seg_inv {p k : α × α} (ha : p.1 < k.1) (hb : p.2 < k.2) (x : α) :
    seg p.swap k.swap (seg p k x) = x := by
  rw [seg_eq, seg_eq]
  simp only [Prod.fst_swap, Prod.snd_swap]
  have h1 : k.1 - p.1 ≠ 0 := by linarith
  have h2 : k.2 - p.2 ≠ 0 := by linarith
  field_simp
  ring

theorem seg_lt {p k : α × α} {x : α} (hxk : x < k.1) (ha : p.1 < k.1) (hb : p.2 < k.2) :
    seg p k x < k.2 := by
  rw [seg_eq]
  have h1 : (x - p.1) / (k.1 - p.1) < 1 := by
    rw [div_lt_one (by linarith)]; linarith
  have : (x - p.1) / (k.1 - p.1) * (k.2 - p.2) < 1 * (k.2 - p.2) :=
    mul_lt_mul_of_pos_right h1 (by linarith)
  linarith

/-- for strictly increasing knots, `plLT` on the swapped knots inverts `plLE` on `[first, last]` -/
theorem plLT_swap_plLE {p : α × α} {ks : List (α × α)} (hm : StrictMono p ks) {x : α}
    (hx : p.1 ≤ x) (hl : x ≤ lastAbs p ks) : plLT p.swap (swap ks) (plLE p ks x) = x := by
  induction ks generalizing p with
  | nil =>
    simp only [lastAbs] at hl
    simp only [plLE, swap, List.map_nil, plLT, Prod.snd_swap]
    exact le_antisymm hx hl
  | cons k ks ih =>
    simp only [swap, List.map_cons, plLE, plLT, Prod.fst_swap]
    by_cases h1 : x ≤ k.1
    · simp only [h1, if_true]
      rcases eq_or_lt_of_le h1 with e | l
      · subst e
        rw [seg_right hm.1]
        simp only [lt_irrefl, if_false]
        cases ks with
        | nil => simp [plLT]
        | cons k' ks' =>
          simp only [List.map_cons, plLT, Prod.fst_swap, hm.2.2.2.1, if_true]
          have := seg_left k.swap k'.swap
          simpa using this
      · simp only [seg_lt l hm.1 hm.2.1, if_true]
        exact seg_inv hm.1 hm.2.1 x
    · simp only [h1, if_false]
      have hge : k.2 ≤ plLE k ks x := plLE_ge hm.2.2.mono (not_le.1 h1).le
      simp only [not_lt.2 hge, if_false]
      exact ih hm.2.2 (not_le.1 h1).le hl

end Pds.PL
