import Pds.Proofs.QuotientUnion3
/-!
`union`, part 4: the loop over all slots and the final theorem.
-/
namespace Pds.Quotient
variable {N : Nat}

/-- every stored pair of `o` lies in the cluster of exactly the start found by walking back -/
theorem mem_iff_inCl {o : St N} {z0 : Fin N} {qt0 : Nat → Nat} (h0 : LInv o z0 qt0)
    (x : Fin N × Nat) :
    Abs o z0 qt0 x.1 x.2 ↔ ∃ b, IsStart o b ∧ InCl o z0 qt0 b x := by
  constructor
  · rintro ⟨kg, g1, g2, g3, g4⟩
    obtain ⟨kb, b1, _, b3, b4⟩ := walkBack_spec h0 kg (N + 1) g1 (by omega)
    have hkb : kb < N := by omega
    have hukb : (o.at z0 kb).used = true := by
      by_cases e : kb = kg
      · rw [e]; exact g2
      · have hs := b4 (kb + 1) (by omega) (by omega)
        have hu := LInv.used_of_shift hs
        have hne := (h0.shift (kb + 1) (by omega) hu).mp hs
        have hle := h0.le (kb + 1) (by omega) hu
        exact (h0.chain kb (by omega) hu (by omega)).1
    refine ⟨pos z0 kb, ⟨?_, b3⟩, kg - kb, by omega, ?_, kg, g1, ?_, g2, ?_⟩
    · have : (o.at z0 kb).used = true := hukb
      simp only [Slot.used, b3, Bool.or_false] at this
      exact this
    · intro m h1 h2
      rw [at_rebase1]
      exact b4 (m + kb) (by omega) (by omega)
    · rw [pos_pos]; congr 1; omega
    · obtain ⟨a, r⟩ := x
      simp only at g3 g4
      simp [pairAt, g3, g4]
  · rintro ⟨b, _, k, _, _, kg, g1, _, g3, rfl⟩
    exact ⟨kg, g1, g3, rfl, rfl⟩

theorem unionLoop_spec {o : St N} {z0 : Fin N} {qt0 : Nat → Nat} (h0 : LInv o z0 qt0) :
    ∀ (is : List (Fin N)) (t : St N) (U : Finset (Fin N × Nat)), Rep t U →
    ∃ t' res, unionLoop o is t = some (t', res) ∧
      ((res = .full ∧ FullWit o z0 qt0 U) ∨ (res = .ok true ∧ ∃ U', Rep t' U' ∧
        ∀ x, x ∈ U' ↔ (x ∈ U ∨ ∃ b ∈ is, IsStart o b ∧ InCl o z0 qt0 b x))) := by
  intro is
  induction is with
  | nil =>
    intro t U hr
    exact ⟨t, .ok true, rfl, Or.inr ⟨rfl, U, hr, fun x => by simp⟩⟩
  | cons i rest ih =>
    intro t U hr
    by_cases hi : IsStart o i
    · have hcond : ((o.get i).occ && !(o.get i).shift) = true := by simp [hi.1, hi.2]
      obtain ⟨t1, h1, h2⟩ := union_one h0 hi hr
      rcases h2 with ⟨h2, hw⟩ | ⟨h2, t2, res2, h3, h4⟩
      · refine ⟨t1, .full, ?_, Or.inl ⟨rfl, hw⟩⟩
        rw [h2] at h1
        simp [unionLoop, hcond, h1]
      · have hstep1 : unionLoop o (i :: rest) t =
            match unionCluster o i (N + 1) (incr i) i [] t1 with
            | none => none
            | some (t'', .full) => some (t'', .full)
            | some (t'', .ok _) => unionLoop o rest t'' := by
          simp only [unionLoop, hcond, if_true, h1]
          cases hres : (specStep U (i, (o.get i).rem)).2 with
          | full => exact absurd hres h2
          | ok b => rfl
        rw [hstep1, h3]
        rcases h4 with ⟨h4, hw⟩ | ⟨h4, U2, h5, h6⟩
        · subst h4
          exact ⟨t2, .full, rfl, Or.inl ⟨rfl, hw⟩⟩
        · subst h4
          obtain ⟨t3, res3, h7, h8⟩ := ih t2 U2 h5
          refine ⟨t3, res3, h7, ?_⟩
          rcases h8 with ⟨h8, W, x, w1, w2, w3, w4⟩ | ⟨h8, U3, h9, h10⟩
          · refine Or.inl ⟨h8, W, x, fun y hy => ?_, w2, w3, w4⟩
            rcases w1 y hy with hy | hy
            · rcases (h6 y).mp hy with hy | hy
              · exact Or.inl hy
              · exact Or.inr ((mem_iff_inCl h0 y).mpr ⟨i, hi, hy⟩)
            · exact Or.inr hy
          · refine Or.inr ⟨h8, U3, h9, fun x => ?_⟩
            rw [h10, h6]
            constructor
            · rintro ((hx | hx) | ⟨b, hb, hx⟩)
              · exact Or.inl hx
              · exact Or.inr ⟨i, by simp, hi, hx⟩
              · exact Or.inr ⟨b, by simp [hb], hx⟩
            · rintro (hx | ⟨b, hb, hs, hx⟩)
              · exact Or.inl (Or.inl hx)
              · rcases List.mem_cons.mp hb with rfl | hb
                · exact Or.inl (Or.inr hx)
                · exact Or.inr ⟨b, hb, hs, hx⟩
    · have hcond : ((o.get i).occ && !(o.get i).shift) = false := by
        cases h1 : (o.get i).occ <;> cases h2 : (o.get i).shift <;> simp_all [IsStart]
      obtain ⟨t3, res3, h7, h8⟩ := ih t U hr
      refine ⟨t3, res3, by simp [unionLoop, hcond, h7], ?_⟩
      rcases h8 with h8 | ⟨h8, U3, h9, h10⟩
      · exact Or.inl h8
      · refine Or.inr ⟨h8, U3, h9, fun x => ?_⟩
        rw [h10]
        constructor
        · rintro (hx | ⟨b, hb, hx⟩)
          · exact Or.inl hx
          · exact Or.inr ⟨b, by simp [hb], hx⟩
        · rintro (hx | ⟨b, hb, hs, hx⟩)
          · exact Or.inl hx
          · rcases List.mem_cons.mp hb with rfl | hb
            · exact absurd hs hi
            · exact Or.inr ⟨b, hb, hs, hx⟩

theorem union_spec {t o : St N} {S So : Finset (Fin N × Nat)} (hr : Rep t S)
    (ho : Stores o (fun a r => (a, r) ∈ So)) :
    (union t o = some (t, .full) ∧ N < (S ∪ So).card) ∨
      ∃ t', union t o = some (t', .ok true) ∧ Rep t' (S ∪ So) := by
  obtain ⟨z0, qt0, h0, hP⟩ := ho
  obtain ⟨t', res, h1, h2⟩ := unionLoop_spec h0 (List.finRange N) t S hr
  rcases h2 with ⟨rfl, W, x, w1, w2, w3, w4⟩ | ⟨rfl, U', h3, h4⟩
  · left
    refine ⟨by simp [union, h1], ?_⟩
    have hsub : Insert.insert x W ⊆ S ∪ So := by
      intro y hy
      rcases Finset.mem_insert.mp hy with rfl | hy
      · exact Finset.mem_union_right _ ((hP _ _).mp w4)
      · rcases w1 y hy with hy | hy
        · exact Finset.mem_union_left _ hy
        · exact Finset.mem_union_right _ ((hP _ _).mp hy)
    have := Finset.card_le_card hsub
    rw [Finset.card_insert_of_notMem w3] at this
    omega
  · right
    refine ⟨t', by simp [union, h1], ?_⟩
    have : U' = S ∪ So := by
      ext x
      rw [h4, Finset.mem_union]
      have hx : x ∈ So ↔ Abs o z0 qt0 x.1 x.2 := (hP x.1 x.2).symm
      rw [hx, mem_iff_inCl h0]
      constructor
      · rintro (h | ⟨b, _, hb⟩)
        · exact Or.inl h
        · exact Or.inr ⟨b, hb⟩
      · rintro (h | ⟨b, hb⟩)
        · exact Or.inl h
        · exact Or.inr ⟨b, List.mem_finRange b, hb⟩
    rw [← this]; exact h3

end Pds.Quotient
