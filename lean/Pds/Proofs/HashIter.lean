import Pds.Model.HashIter
/-! Index safety of the enhanced-double-hashing iterator (used by Bloom and CountMinSketch). -/
namespace Pds.HashIter

theorem positions_eq_none_iff (hash : List Nat → Nat) (m k x : Nat) :
    positions hash m k x = none ↔ m = 0 := by
  unfold positions
  split <;> simp_all

theorem positions_zero (hash : List Nat → Nat) (k x : Nat) : positions hash 0 k x = none := by
  simp [positions]

/-- For `m > 0` the iterator yields exactly `k` values, all `< m`. -/
theorem positions_some (hash : List Nat → Nat) {m : Nat} (hm : 0 < m) (k x : Nat) :
    ∃ ps, positions hash m k x = some ps ∧ ps.length = k ∧ ∀ p ∈ ps, p < m := by
  have hm' : m ≠ 0 := by omega
  refine ⟨_, by unfold positions; rw [if_neg hm'], by simp, ?_⟩
  intro p hp
  simp only [List.mem_map, List.mem_range] at hp
  obtain ⟨i, _, rfl⟩ := hp
  exact Nat.mod_lt _ hm

theorem positions_length {hash : List Nat → Nat} {m k x : Nat} {ps : List Nat}
    (h : positions hash m k x = some ps) : ps.length = k := by
  unfold positions at h
  split at h
  · cases h
  · cases h; simp

theorem positions_lt {hash : List Nat → Nat} {m k x : Nat} {ps : List Nat}
    (h : positions hash m k x = some ps) : ∀ p ∈ ps, p < m := by
  have hm : 0 < m := by
    rcases Nat.eq_zero_or_pos m with h0 | h0
    · subst h0; simp [positions] at h
    · exact h0
  obtain ⟨ps', e, _, hlt⟩ := positions_some hash hm k x
  rw [h] at e; cases e; exact hlt

/-- The builder panics exactly for `m = 0 ∧ k > 0`. -/
theorem builderOk_of_pos {m : Nat} (hm : 0 < m) (k : Nat) : builderOk m k = true := by
  have : m ≠ 0 := by omega
  simp [builderOk, this]

end Pds.HashIter
