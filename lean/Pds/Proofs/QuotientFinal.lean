import Pds.Proofs.QuotientSpec
import Pds.Proofs.QuotientQR
import Pds.Proofs.QuotientCount
import Pds.Proofs.QuotientUnion4
/-!
Final assembly of the statements exported by `Pds.Props.C13`.
-/
namespace Pds.Quotient
variable {N : Nat}

theorem rep_insert_fresh {t : St N} {S : Finset (Fin N × Nat)} (hr : Rep t S) {a : Fin N} {r : Nat}
    (hmem : (a, r) ∉ S) (hn : t.n < N) :
    ∃ t', insertInternal t a r = some (t', .ok true) ∧ Rep t' (Insert.insert (a, r) S) ∧
      t'.n = t.n + 1 ∧
      ∃ sr, scan t a r true = some sr ∧ (t'.get sr.position).rem = r := by
  obtain ⟨t', h1, h2, h3, h4⟩ := insert_fresh hr.1 hmem (by omega) (rep_free hr hn)
  refine ⟨t', h1, ⟨?_, by rw [h2, hr.2, Finset.card_insert_of_notMem hmem]⟩, h2, h4⟩
  obtain ⟨z, qt, hi, hP⟩ := h3
  refine ⟨z, qt, hi, fun a' r' => ?_⟩
  rw [hP]
  show ((a', r') ∈ S ∨ a' = a ∧ r' = r) ↔ (a', r') ∈ Insert.insert (a, r) S
  rw [Finset.mem_insert, Prod.mk.injEq]
  exact or_comm

theorem rep_history (hN : 0 < N) (h : List (Fin N × Nat)) :
    ∃ t, runFrom (empty N) h = some (t, (specFrom ∅ h).2) ∧ Rep t (specFrom ∅ h).1 :=
  rep_run (rep_empty hN) h

theorem rep_history_query (hN : 0 < N) (h : List (Fin N × Nat)) (a' : Fin N) (r' : Nat) :
    ∃ t rs sr, runFrom (empty N) h = some (t, rs) ∧ scan t a' r' false = some sr ∧
      t.n = (specFrom ∅ h).1.card ∧
      (sr.present = true ↔ ∃ pre post, h = pre ++ (a', r') :: post ∧
        (specStep (specFrom (∅ : Finset (Fin N × Nat)) pre).1 (a', r')).2 = .ok true) := by
  obtain ⟨t, h1, h2⟩ := rep_history hN h
  obtain ⟨sr, h3, h4⟩ := rep_scan h2 a' r' false
  refine ⟨t, _, sr, h1, h3, h2.2, ?_⟩
  rw [h4, specFrom_mem]
  simp

theorem rep_history_fits (hN : 0 < N) (h : List (Fin N × Nat)) (hfit : h.toFinset.card ≤ N)
    (a' : Fin N) (r' : Nat) :
    ∃ t rs sr, runFrom (empty N) h = some (t, rs) ∧ (∀ res ∈ rs, res ≠ .full) ∧
      t.n = h.toFinset.card ∧ scan t a' r' false = some sr ∧
      (sr.present = true ↔ (a', r') ∈ h) := by
  obtain ⟨t, h1, h2⟩ := rep_history hN h
  obtain ⟨e1, e2⟩ := specFrom_fits ∅ h (by simpa using hfit)
  obtain ⟨sr, h3, h4⟩ := rep_scan h2 a' r' false
  refine ⟨t, _, sr, h1, e2, by rw [h2.2, e1]; simp, h3, ?_⟩
  rw [h4, e1]; simp

theorem specStep_set_eq (S : Finset (Fin N × Nat)) (x : Fin N × Nat) :
    (specStep S x).1 = if (specStep S x).2 = .ok true then Insert.insert x S else S := by
  unfold specStep
  by_cases h1 : x ∈ S
  · simp [h1]
  · by_cases h2 : S.card = N <;> simp [h1, h2]

theorem rep_query {q r fp : Nat} (hp : paramsOk q r = true) (hfp : fp < 2 ^ 64)
    {t : St (2 ^ q)} {S : Finset (Fin (2 ^ q) × Nat)} (hr : Rep t S) :
    query q r t fp = some (decide (key q r fp ∈ S)) := by
  rw [query_eq hp hfp]
  obtain ⟨sr, h1, h2⟩ := rep_scan hr (key q r fp).1 (key q r fp).2 false
  rw [h1]
  simp only [Option.map_some, Option.some.injEq]
  by_cases hm : key q r fp ∈ S
  · simp [hm, h2.mpr hm]
  · have : sr.present = false := by
      cases hx : sr.present
      · rfl
      · exact absurd (h2.mp hx) hm
    simp [hm, this]

theorem indistinguishable {q r fp1 fp2 : Nat} (hp : paramsOk q r = true)
    (h1 : fp1 < 2 ^ 64) (h2 : fp2 < 2 ^ 64) :
    ∃ t, insert q r (empty (2 ^ q)) fp1 = some (t, .ok true) ∧
      query q r t fp2 = some (decide (fp1 % 2 ^ (q + r) = fp2 % 2 ^ (q + r))) := by
  have hN : 0 < 2 ^ q := Nat.two_pow_pos q
  have hq : 1 < 2 ^ q := by
    have := (paramsOk_iff.mp hp).2.2.1
    exact Nat.one_lt_two_pow (by omega)
  obtain ⟨t, e1, e2, _⟩ := rep_insert_fresh (rep_empty hN) (a := (key q r fp1).1)
    (r := (key q r fp1).2) (by simp) (by simp; omega)
  refine ⟨t, by rw [insert_eq hp h1]; exact e1, ?_⟩
  rw [rep_query hp h2 e2]
  congr 1
  simp only [Finset.mem_insert, Finset.notMem_empty, or_false, decide_eq_decide]
  rw [key_eq_iff]
  exact eq_comm

theorem remainders_small {q r : Nat} (fps : List Nat) :
    ∀ p ∈ (specFrom (∅ : Finset (Fin (2 ^ q) × Nat)) (fps.map (key q r))).1, p.2 < 2 ^ r := by
  intro p hp
  rcases (specFrom_mem _ _ _).mp hp with h | ⟨pre, post, h, _⟩
  · simp at h
  · have : p ∈ fps.map (key q r) := by rw [h]; simp
    obtain ⟨fp, _, rfl⟩ := List.mem_map.mp this
    exact rem_lt r fp

theorem rep_union {t o : St N} {S So : Finset (Fin N × Nat)} (hr : Rep t S) (ho : Rep o So) :
    (union t o = some (t, .full) ∧ N < (S ∪ So).card) ∨
      ∃ t', union t o = some (t', .ok true) ∧ Rep t' (S ∪ So) ∧ t'.n = (S ∪ So).card ∧
        (S ∪ So).card ≤ N :=
  (union_spec hr ho.1).imp id (fun ⟨t', h1, h2⟩ => ⟨t', h1, h2, h2.2, rep_card_le h2⟩)

theorem rep_union_full_iff {t o : St N} {S So : Finset (Fin N × Nat)} (hr : Rep t S)
    (ho : Rep o So) : (∃ t', union t o = some (t', .full)) ↔ N < (S ∪ So).card := by
  rcases rep_union hr ho with ⟨h1, h2⟩ | ⟨t', h1, _, _, h4⟩
  · exact ⟨fun _ => h2, fun _ => ⟨t, h1⟩⟩
  · constructor
    · rintro ⟨t'', h⟩; rw [h1] at h; simp at h
    · intro h; omega

theorem union_full_eq (t o t' : St N) (h : union t o = some (t', .full)) : t' = t := by
  unfold union at h
  split at h
  · cases h
  · simp only [Option.some.injEq, Prod.mk.injEq] at h; exact h.1.symm
  · simp at h

/-- helper for `decide`-proved examples: bounded quantifier in the `k + 1 < n` form -/
theorem forall_succ_lt {P : Nat → Prop} {n : Nat} (h : ∀ k, k < n - 1 → P k) :
    ∀ k, k + 1 < n → P k := fun k hk => h k (by omega)

end Pds.Quotient
