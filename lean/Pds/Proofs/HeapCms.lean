/-
Semantic specification of the count-min-sketch table update `Cms.addCols s (pos x) 1` along a
stream, for a fixed column function `pos` (as used by CMSHeap): after the stream `ys` the cell
`(row i, column c)` holds the number of stream elements whose `i`-th column is `c`; `add` never
panics while the stream is shorter than the counter maximum; the returned estimate is the minimum
over the rows of the cell of `x`, hence an upper bound of the true count.
-/
import Pds.Model.Cms
namespace Pds.Proofs.HeapCms
open Pds

/-- every element has `d` columns, each `< w` -/
def PosOk (pos : Nat → List Nat) (w d : Nat) : Prop :=
  ∀ x, (pos x).length = d ∧ ∀ c ∈ pos x, c < w

/-- what cell `(row i, column c)` must hold after the stream `ys`: the number of stream elements
whose `i`-th column is `c` -/
def cell (pos : Nat → List Nat) (i c : Nat) (ys : List Nat) : Nat :=
  ys.countP (fun y => (pos y)[i]? == some c)

structure Inv (pos : Nat → List Nat) (w d cmax : Nat) (ys : List Nat) (s : Cms.St) : Prop where
  w_eq : s.w = w
  d_eq : s.d = d
  cmax_eq : s.cmax = cmax
  size_eq : s.table.size = w * d
  cells : ∀ i c, i < d → c < w → s.table[i * w + c]! = cell pos i c ys

/-! ### facts about `cell` -/

theorem cell_nil (pos : Nat → List Nat) (i c : Nat) : cell pos i c [] = 0 := rfl

theorem cell_snoc (pos : Nat → List Nat) (i c : Nat) (ys : List Nat) (x : Nat) :
    cell pos i c (ys ++ [x]) = cell pos i c ys + (if (pos x)[i]? = some c then 1 else 0) := by
  simp [cell, List.countP_append, List.countP_cons]

theorem cell_le_length (pos : Nat → List Nat) (i c : Nat) (ys : List Nat) :
    cell pos i c ys ≤ ys.length :=
  List.countP_le_length

theorem getElem?_getD_self (l : List Nat) (i : Nat) (hi : i < l.length) :
    l[i]? = some (l.getD i 0) := by
  simp [List.getD_eq_getElem?_getD, List.getElem?_eq_getElem hi]

theorem cell_ge_count (pos : Nat → List Nat) (i x : Nat) (ys : List Nat)
    (hi : i < (pos x).length) : ys.count x ≤ cell pos i ((pos x).getD i 0) ys := by
  rw [List.count_eq_countP]
  unfold cell
  apply List.countP_mono_left
  intro y _ hy
  have : y = x := by simpa using hy
  subst this
  rw [← getElem?_getD_self _ _ hi]
  simp

/-- if row `i` separates `x` from all other stream elements, the cell of `x` in row `i` is exact -/
theorem cell_eq_count_of_inj (pos : Nat → List Nat) (i x : Nat) (ys : List Nat)
    (hi : i < (pos x).length)
    (hinj : ∀ y ∈ ys, (pos y)[i]? = (pos x)[i]? → y = x) :
    cell pos i ((pos x).getD i 0) ys = ys.count x := by
  rw [List.count_eq_countP]
  unfold cell
  apply List.countP_congr
  intro y hy
  rw [← getElem?_getD_self _ _ hi]
  constructor
  · intro h
    have h' : (pos y)[i]? = (pos x)[i]? := by simpa using h
    simp [hinj y hy h']
  · intro h
    have : y = x := by simpa using h
    subst this
    simp

/-! ### index arithmetic and array reads -/

theorem idx_inj {w r c i p : Nat} (hc : c < w) (hp : p < w) (h : r * w + c = i * w + p) :
    r = i ∧ c = p := by
  have h1 := congrArg (· / w) h
  have h2 := congrArg (· % w) h
  have hw : 0 < w := by omega
  simp [Nat.mul_comm _ w, Nat.mul_add_div hw, Nat.div_eq_of_lt hc, Nat.div_eq_of_lt hp,
    Nat.mod_eq_of_lt hc, Nat.mod_eq_of_lt hp] at h1 h2
  exact ⟨h1, h2⟩

theorem idx_lt {w d r c : Nat} (hr : r < d) (hc : c < w) : r * w + c < w * d := by
  have h : (r + 1) * w ≤ d * w := Nat.mul_le_mul_right _ hr
  rw [Nat.succ_mul, Nat.mul_comm d w] at h
  omega

theorem row_lt {w d r c : Nat} (h : r * w + c < w * d) : r < d := by
  apply Decidable.byContradiction
  intro hn
  have h' : d * w ≤ r * w := Nat.mul_le_mul_right _ (by omega)
  rw [Nat.mul_comm d w] at h'
  omega

theorem get_set (t : Array Nat) (x v : Nat) (h : x < t.size) (k : Nat) :
    (t.set x v h)[k]! = if x = k then v else t[k]! := by
  rw [Array.getElem!_eq_getD, Array.getD_eq_getD_getElem?, Array.getElem?_set,
    Array.getElem!_eq_getD, Array.getD_eq_getD_getElem?]
  split <;> simp

/-! ### the row loop -/

/-- General specification of `Cms.addRows`: no panic, the table is updated exactly at the cells
`(i + j, cols[j])`, and the folded result is a lower bound of, and equal to one of, the touched
original cells (or the incoming `res` when `i > 0`). -/
theorem addRows_spec {w cmax n : Nat} :
    ∀ (cols : List Nat) (i : Nat) (t : Array Nat) (res : Nat),
      (i + cols.length) * w ≤ t.size →
      (∀ c ∈ cols, c < w) →
      (∀ r c, i ≤ r → c < w → r * w + c < t.size → t[r * w + c]! + n ≤ cmax) →
      ∃ t' res', Cms.addRows w cmax n i cols t res = some (t', res') ∧ t'.size = t.size ∧
        (∀ r c, c < w →
          t'[r * w + c]! = t[r * w + c]! + (if i ≤ r ∧ cols[r - i]? = some c then n else 0)) ∧
        (∀ j, j < cols.length → res' ≤ t[(i + j) * w + cols.getD j 0]!) ∧
        (0 < i → res' ≤ res) ∧
        (((cols = [] ∨ 0 < i) ∧ res' = res) ∨
          ∃ j, j < cols.length ∧ res' = t[(i + j) * w + cols.getD j 0]!)
  | [], i, t, res, _, _, _ =>
    ⟨t, res, by simp [Cms.addRows], rfl, by simp, by simp, fun _ => Nat.le_refl _,
      Or.inl ⟨Or.inl rfl, rfl⟩⟩
  | p :: ps, i, t, res, hsz, hcols, hov => by
    have hp : p < w := hcols p (by simp)
    have hx : i * w + p < t.size := by
      have : (i + 1) * w ≤ (i + (p :: ps).length) * w := Nat.mul_le_mul_right _ (by simp)
      rw [Nat.succ_mul] at this
      omega
    have hcur! : t[i * w + p]! = t[i * w + p] := getElem!_pos t _ hx
    have hcur : t[i * w + p] + n ≤ cmax := by
      have := hov i p (Nat.le_refl _) hp hx
      rwa [hcur!] at this
    have hne : ∀ r c, i + 1 ≤ r → c < w → ¬ (i * w + p = r * w + c) := by
      intro r c hr hc h
      have := (idx_inj hc hp h.symm).1
      omega
    obtain ⟨t', res', hrun, hsize, hcells, hle, hres, hex⟩ :=
      addRows_spec (w := w) (cmax := cmax) (n := n) ps (i + 1)
        (t.set (i * w + p) (t[i * w + p] + n))
        (if i = 0 then t[i * w + p] else min res t[i * w + p])
        (by
          rw [Array.size_set]
          simpa [Nat.add_assoc, Nat.add_comm 1] using hsz)
        (fun c hc => hcols c (by simp [hc]))
        (by
          intro r c hr hc hlt
          rw [get_set, if_neg (hne r c hr hc)]
          exact hov r c (by omega) hc (by simpa using hlt))
    have hps : ∀ j, j < ps.length → ps.getD j 0 < w := by
      intro j hj
      apply hcols
      rw [List.getD_eq_getElem?_getD, List.getElem?_eq_getElem hj]
      simp
    have hrd : ∀ j, j < ps.length →
        (t.set (i * w + p) (t[i * w + p] + n))[(i + 1 + j) * w + ps.getD j 0]!
          = t[(i + (j + 1)) * w + (p :: ps).getD (j + 1) 0]! := by
      intro j hj
      rw [get_set, if_neg (hne _ _ (by omega) (hps j hj))]
      simp [Nat.add_assoc, Nat.add_comm 1]
    have hres1 : (if i = 0 then t[i * w + p] else min res t[i * w + p]) ≤ t[i * w + p] := by
      split
      · exact Nat.le_refl _
      · exact Nat.min_le_right _ _
    refine ⟨t', res', ?_, by simpa using hsize, ?_, ?_, ?_, ?_⟩
    · rw [Cms.addRows]
      simp only [hx, hcur, dite_true, if_true]
      exact hrun
    · intro r c hc
      rw [hcells r c hc, get_set]
      by_cases hxe : i * w + p = r * w + c
      · obtain ⟨hri, hcp⟩ := idx_inj hc hp hxe.symm
        subst hri hcp
        have h1 : ¬ r + 1 ≤ r := by omega
        simp [hcur!, h1]
      · rw [if_neg hxe]
        congr 1
        by_cases hri : r = i
        · subst hri
          have hcp : p ≠ c := fun h => hxe (by rw [h])
          have h1 : ¬ r + 1 ≤ r := by omega
          simp [hcp, h1]
        · by_cases hlt : r < i
          · have h1 : ¬ i + 1 ≤ r := by omega
            have h2 : ¬ i ≤ r := by omega
            simp [h1, h2]
          · have h1 : i + 1 ≤ r := by omega
            have h2 : i ≤ r := by omega
            have h3 : r - i = (r - (i + 1)) + 1 := by omega
            simp [h1, h2, h3]
    · intro j hj
      cases j with
      | zero =>
        have := hres (by omega)
        simp only [Nat.add_zero, List.getD_cons_zero, hcur!]
        omega
      | succ j =>
        have hj' : j < ps.length := by simpa using hj
        rw [← hrd j hj']
        exact hle j hj'
    · intro hi
      have := hres (by omega)
      have hi0 : ¬ i = 0 := by omega
      rw [if_neg hi0] at this
      exact Nat.le_trans this (Nat.min_le_left _ _)
    · rcases hex with ⟨_, heq⟩ | ⟨j, hj, heq⟩
      · by_cases hi0 : i = 0
        · right
          refine ⟨0, by simp, ?_⟩
          rw [heq, if_pos hi0]
          simp [hcur!]
        · rw [if_neg hi0] at heq
          by_cases hmin : res ≤ t[i * w + p]
          · left
            exact ⟨Or.inr (by omega), by rw [heq]; exact Nat.min_eq_left hmin⟩
          · right
            refine ⟨0, by simp, ?_⟩
            rw [heq]
            simp only [Nat.add_zero, List.getD_cons_zero, hcur!]
            exact Nat.min_eq_right (by omega)
      · right
        refine ⟨j + 1, by simpa using hj, ?_⟩
        rw [heq, hrd j hj]

/-! ### the stream invariant -/

theorem new_ok {w : Nat} (d cmax : Nat) (hw : 1 ≤ w) : ∃ s, Cms.new w d cmax = some s := by
  have : w ≠ 0 := by omega
  simp [Cms.new, HashIter.builderOk, this]

theorem inv_new {pos : Nat → List Nat} {w d cmax : Nat} {s : Cms.St}
    (h : Cms.new w d cmax = some s) : Inv pos w d cmax [] s := by
  unfold Cms.new at h
  split at h
  · cases h
    refine ⟨rfl, rfl, rfl, by simp, ?_⟩
    intro i c hi hc
    have := idx_lt hi hc
    simp [cell_nil, this]
  · cases h

/-- one `add` of `x` after the stream `ys`: no panic while `ys.length < cmax`; the invariant is
kept; the returned estimate is the minimum over the rows of the (new) cell of `x`, hence at least
the true count -/
theorem addCols_spec {pos : Nat → List Nat} {w d cmax : Nat} {ys : List Nat} {s : Cms.St}
    (hpos : PosOk pos w d) (hd : 1 ≤ d)
    (hinv : Inv pos w d cmax ys s) (hlen : ys.length < cmax) (x : Nat) :
    ∃ s' est, Cms.addCols s (pos x) 1 = some (s', est) ∧ Inv pos w d cmax (ys ++ [x]) s' ∧
      (∀ i, i < d → est ≤ cell pos i ((pos x).getD i 0) (ys ++ [x])) ∧
      (∃ i, i < d ∧ est = cell pos i ((pos x).getD i 0) (ys ++ [x])) ∧
      (ys ++ [x]).count x ≤ est := by
  obtain ⟨hw_eq, hd_eq, hc_eq, hsz, hcells⟩ := hinv
  obtain ⟨hplen, hpcol⟩ := hpos x
  have hcolD : ∀ i, i < d → (pos x).getD i 0 < w := by
    intro i hi
    apply hpcol
    rw [List.getD_eq_getElem?_getD, List.getElem?_eq_getElem (by omega)]
    simp
  obtain ⟨t', res', hrun, hsize, hupd, hle, -, hex⟩ :=
    addRows_spec (w := w) (cmax := cmax) (n := 1) (pos x) 0 s.table 0
      (by rw [hsz, hplen, Nat.zero_add, Nat.mul_comm]; exact Nat.le_refl _)
      hpcol
      (by
        intro r c _ hc hlt
        rw [hsz] at hlt
        rw [hcells r c (row_lt hlt) hc]
        have := cell_le_length pos r c ys
        omega)
  -- the cell of `x` in row `i`, after the stream `ys ++ [x]`
  have hcellx : ∀ i, i < d →
      cell pos i ((pos x).getD i 0) (ys ++ [x]) = s.table[(0 + i) * w + (pos x).getD i 0]! + 1 := by
    intro i hi
    rw [cell_snoc, if_pos (getElem?_getD_self _ _ (by omega)), Nat.zero_add,
      hcells i _ hi (hcolD i hi)]
  have hres_lt : res' + 1 ≤ cmax := by
    have h0 := hle 0 (by omega)
    rw [Nat.zero_add, hcells 0 _ (by omega) (hcolD 0 (by omega))] at h0
    have := cell_le_length pos 0 ((pos x).getD 0 0) ys
    omega
  have hexi : ∃ i, i < d ∧ res' + 1 = cell pos i ((pos x).getD i 0) (ys ++ [x]) := by
    rcases hex with ⟨h | h, _⟩ | ⟨j, hj, heq⟩
    · rw [h] at hplen
      simp at hplen
      omega
    · omega
    · exact ⟨j, by omega, by rw [hcellx j (by omega), heq]⟩
  refine ⟨{ s with table := t' }, res' + 1, ?_, ?_, ?_, hexi, ?_⟩
  · unfold Cms.addCols
    rw [hw_eq, hc_eq, hrun]
    simp [hres_lt]
  · refine ⟨hw_eq, hd_eq, hc_eq, by simpa [hsz] using hsize, ?_⟩
    intro i c hi hc
    show t'[i * w + c]! = _
    rw [hupd i c hc, hcells i c hi hc, cell_snoc]
    simp
  · intro i hi
    rw [hcellx i hi]
    have := hle i (by omega)
    omega
  · obtain ⟨i, hi, heq⟩ := hexi
    rw [heq]
    exact cell_ge_count pos i x (ys ++ [x]) (by omega)

end Pds.Proofs.HeapCms
