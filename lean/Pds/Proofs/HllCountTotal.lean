import Pds.Proofs.HllCountSafe
/-!
Totality of `estimateBias` / `countWith` for every total comparison (C03 part A) and the window
theorem for the neighbour walk started from `startpoints` (part B).
-/
namespace Pds.HllCount
open Pds.Generated

theorem mapM_getElem?_isSome {α : Type} (bias : Array α) :
    ∀ idxs : List Nat, (∀ i ∈ idxs, i < bias.size) → (idxs.mapM (fun i => bias[i]?)).isSome := by
  intro idxs
  induction idxs with
  | nil => intro _; simp
  | cons i t ih =>
    intro h
    have hi : i < bias.size := h i (List.mem_cons_self ..)
    have ht := ih (fun x hx => h x (List.mem_cons_of_mem _ hx))
    obtain ⟨vs, hvs⟩ := Option.isSome_iff_exists.1 ht
    simp [List.mapM_cons, hi, hvs]

/-- Start cursors followed by `k ≤ len` walk steps: the search never fails and every returned index
is in range. -/
theorem walk_some {cmp : Float → Float → Option Cmp} (hc : ∀ v e, (cmp v e).isSome)
    (a : Array Float) (e : Float) (k : Nat) (hk : k ≤ a.size) (hk0 : 0 < a.size) :
    ∃ l r idxs, startpoints cmp a e = some (l, r) ∧ knn a e k l r = some idxs ∧ idxs.length = k ∧
      ∀ x ∈ idxs, x < a.size := by
  obtain ⟨l, r, hsp, hir, hshape⟩ := startpoints_some hc a e
  have hrem : k ≤ encL l + (a.size - encR a.size r) := by
    rcases hshape with ⟨i, hi, rfl, rfl⟩ | ⟨h1, h2⟩
    · simp [encL, encR]; omega
    · omega
  obtain ⟨idxs, j, hknn, hlen, hjk, hjl, hjr, hmem, _⟩ := knn_some a e k l r (hir hk0) hrem
  refine ⟨l, r, idxs, hsp, hknn, hlen, ?_⟩
  intro x hx
  have := (hmem x).1 hx
  have hL : encL l ≤ a.size := by
    cases l with
    | none => simp [encL]
    | some i => have := (hir hk0).1 i rfl; simp [encL]; omega
  omega

/-- Window structure of the walk (part B).  With `(l, r)` the result of `startpoints` and `idxs` the
result of `k ≤ len` walk steps, there are `lo ≤ hi ≤ len` such that the returned indices are exactly
the positions `lo ≤ x < hi`.  If the binary search did not report an exact match (`l ≠ r`) the
window has exactly `k` positions, each returned once, and it contains the split point
(`lo ≤ encL l = encR r ≤ hi`).  If it reported an exact match (`l = r = some i`), `i` is returned
(once or twice) and the window has `k` or `k - 1` positions. -/
theorem walk_window {cmp : Float → Float → Option Cmp} (hc : ∀ v e, (cmp v e).isSome)
    (a : Array Float) (e : Float) (k : Nat) (hk : k ≤ a.size) (hk0 : 0 < k)
    {l r : Option Nat} {idxs : List Nat}
    (hsp : startpoints cmp a e = some (l, r)) (hknn : knn a e k l r = some idxs) :
    idxs.length = k ∧
    ∃ lo hi, lo ≤ hi ∧ hi ≤ a.size ∧ (∀ x, x ∈ idxs ↔ lo ≤ x ∧ x < hi) ∧
      (l ≠ r → hi - lo = k ∧ idxs.Nodup ∧ lo ≤ encL l ∧ encL l ≤ hi ∧ encL l = encR a.size r) ∧
      (l = r → ∃ i, l = some i ∧ i ∈ idxs ∧ (hi - lo = k ∨ hi - lo + 1 = k)) := by
  have ha : 0 < a.size := by omega
  obtain ⟨l₁, r₁, hsp₁, hir, hshape⟩ := startpoints_some hc a e
  rw [hsp] at hsp₁
  cases hsp₁
  have hrem : k ≤ encL l + (a.size - encR a.size r) := by
    rcases hshape with ⟨i, hi, rfl, rfl⟩ | ⟨h1, h2⟩
    · simp [encL, encR]; omega
    · omega
  obtain ⟨idxs₁, j, hknn₁, hlen, hjk, hjl, hjr, hmem, hnd⟩ := knn_some a e k l r (hir ha) hrem
  rw [hknn] at hknn₁
  cases hknn₁
  refine ⟨hlen, ?_⟩
  rcases hshape with ⟨i, hi, rfl, rfl⟩ | ⟨h1, h2⟩
  · -- exact match
    simp only [encL, encR] at hmem hjl hjr
    by_cases hj0 : j = 0
    · subst hj0
      refine ⟨i, i + k, by omega, by omega, ?_, by simp, ?_⟩
      · intro x; rw [hmem]; omega
      · intro _; exact ⟨i, rfl, by rw [hmem]; omega, Or.inl (by omega)⟩
    · by_cases hjk' : j = k
      · subst hjk'
        refine ⟨i + 1 - j, i + 1, by omega, by omega, ?_, by simp, ?_⟩
        · intro x; rw [hmem]; omega
        · intro _; exact ⟨i, rfl, by rw [hmem]; omega, Or.inl (by omega)⟩
      · refine ⟨i + 1 - j, i + (k - j), by omega, by omega, ?_, by simp, ?_⟩
        · intro x; rw [hmem]; omega
        · intro _; exact ⟨i, rfl, by rw [hmem]; omega, Or.inr (by omega)⟩
  · -- no exact match: the cursors are adjacent
    refine ⟨encL l - j, encR a.size r + (k - j), by omega, by omega, ?_, ?_, ?_⟩
    · intro x; rw [hmem]; omega
    · intro _; exact ⟨by omega, hnd (by omega), by omega, by omega, h1⟩
    · intro hlr
      subst hlr
      cases l with
      | none => simp [encL, encR] at h1; omega
      | some i => simp [encL, encR] at h1

theorem estimateBias_isSome {cmp : Float → Float → Option Cmp} (hc : ∀ v e, (cmp v e).isSome)
    (b : Nat) (hb : 4 ≤ b ∧ b ≤ 18) (e : Float) : (estimateBias cmp b e).isSome := by
  obtain ⟨lookup, bias, h1, h2, hsz, hk⟩ := rows_exist (p := b - 4) (by omega)
  unfold estimateBias
  simp only [show rawOffset = 4 from rfl, show biasOffset = 4 from rfl, h1, h2]
  have hk' : ¬ lookup.size < hllK := by omega
  simp only [hk', if_false]
  have h6 : 0 < hllK := by decide
  obtain ⟨l, r, idxs, hsp, hknn, _, hlt⟩ := walk_some hc lookup e hllK hk (by omega)
  simp only [hsp, hknn]
  obtain ⟨vs, hvs⟩ := Option.isSome_iff_exists.1
    (mapM_getElem?_isSome bias idxs (fun i hi => hsz ▸ hlt i hi))
  simp only [hvs, Option.isSome_some]

theorem ite_some_isSome {α : Type} (c : Prop) [Decidable c] (a b : α) :
    (if c then some a else some b).isSome = true := by
  split <;> rfl

/-- `count()` returns normally whatever the float comparisons of the binary search answer. -/
theorem countWith_isSome {cmp : Float → Float → Option Cmp} (hc : ∀ v e, (cmp v e).isSome)
    (s : Hll.St) (hb : 4 ≤ s.b ∧ s.b ≤ 18) (_hsz : s.regs.size = 2 ^ s.b)
    (hreg : ∀ x ∈ s.regs, x < 256) : (countWith cmp s).isSome := by
  unfold countWith
  have hps : (s.regs.toList.mapM (fun x => pow2F[x]?)).isSome :=
    mapM_getElem?_isSome pow2F s.regs.toList
      (fun x hx => by rw [pow2F_size]; exact hreg x (Array.mem_toList_iff.1 hx))
  obtain ⟨ps, hps⟩ := Option.isSome_iff_exists.1 hps
  have hthr : s.b - thresholdOffset < thresholds.size := by
    rw [thresholds_size]; show s.b - 4 < 15; omega
  have hE : ∀ e : Float, ∃ x, (if e ≤ 5 * Float.ofNat s.regs.size
      then (estimateBias cmp s.b e).map (e - ·) else some e) = some x := by
    intro e
    split
    · obtain ⟨v, hv⟩ := Option.isSome_iff_exists.1 (estimateBias_isSome hc s.b hb e)
      exact ⟨e - v, by rw [hv]; rfl⟩
    · exact ⟨e, rfl⟩
  obtain ⟨x, hx⟩ := hE (am s.regs.size * Float.ofNat s.regs.size * Float.ofNat s.regs.size *
    (1 / ps.foldl (· + ·) 0))
  simp only [hps, Array.getElem?_eq_getElem hthr, hx]
  exact ite_some_isSome _ _ _

end Pds.HllCount
