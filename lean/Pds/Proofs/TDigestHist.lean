import Pds.Proofs.TDigestBasic
/-!
Helper lemmas for the t-digest model, part 2: histories of operations and the invariant that every
reachable state satisfies (aggregates, min/max, positivity, sortedness, range of the means, backlog).
-/
set_option linter.unusedSectionVars false
namespace Pds.TDigest
variable {α : Type} [Field α] [LinearOrder α] [IsStrictOrderedRing α]

/-- one operation of a history; `read` stands for any of `quantile`/`cdf`/`count`/`sum`/`mean`/
`n_centroids`, whose only effect on the state is `merge` -/
inductive Op (α : Type) where
  | insert (x w : α)
  | read
  | clear

/-- effect on the state; `none` = the weight assertion of `insert_weighted` fires -/
def step (sf : ScaleFn α) (s : St α) : Op α → Option (St α)
  | .insert x w => insertWeighted sf s x w
  | .read => some (merge sf s)
  | .clear => some (clear s)

/-- run a history -/
def run (sf : ScaleFn α) (s : St α) : List (Op α) → Option (St α)
  | [] => some s
  | op :: ops => (step sf s op).bind (fun s' => run sf s' ops)

/-- bookkeeping: the `(x, w)` with `0 < w` inserted since creation or the last `clear` (newest first) -/
def record (L : List (α × α)) : Op α → List (α × α)
  | .insert x w => if 0 < w then (x, w) :: L else L
  | .read => L
  | .clear => []

/-- the live insertions of a history -/
def inserted (ops : List (Op α)) : List (α × α) := ops.foldl record []

/-- `o` is the least element of `xs` (`none` iff `xs` is empty) -/
def IsMinOf (o : Option α) (xs : List α) : Prop :=
  match o with
  | none => xs = []
  | some m => m ∈ xs ∧ ∀ x ∈ xs, m ≤ x

/-- `o` is the greatest element of `xs` (`none` iff `xs` is empty) -/
def IsMaxOf (o : Option α) (xs : List α) : Prop :=
  match o with
  | none => xs = []
  | some m => m ∈ xs ∧ ∀ x ∈ xs, x ≤ m

theorem isMinOf_minOpt {o : Option α} {xs : List α} (h : IsMinOf o xs) (x : α) :
    IsMinOf (some (minOpt o x)) (x :: xs) := by
  cases o with
  | none =>
    simp only [IsMinOf] at h; subst h
    simp [IsMinOf, minOpt]
  | some m =>
    obtain ⟨h1, h2⟩ := h
    simp only [IsMinOf, minOpt]
    split
    · rename_i hlt
      refine ⟨by simp, fun y hy => ?_⟩
      rcases List.mem_cons.1 hy with rfl | hy
      · exact le_rfl
      · exact le_trans hlt.le (h2 y hy)
    · rename_i hlt
      refine ⟨by simp [h1], fun y hy => ?_⟩
      rcases List.mem_cons.1 hy with rfl | hy
      · exact not_lt.1 hlt
      · exact h2 y hy

theorem isMaxOf_maxOpt {o : Option α} {xs : List α} (h : IsMaxOf o xs) (x : α) :
    IsMaxOf (some (maxOpt o x)) (x :: xs) := by
  cases o with
  | none =>
    simp only [IsMaxOf] at h; subst h
    simp [IsMaxOf, maxOpt]
  | some m =>
    obtain ⟨h1, h2⟩ := h
    simp only [IsMaxOf, maxOpt]
    split
    · rename_i hlt
      refine ⟨by simp, fun y hy => ?_⟩
      rcases List.mem_cons.1 hy with rfl | hy
      · exact le_rfl
      · exact le_trans (h2 y hy) hlt.le
    · rename_i hlt
      refine ⟨by simp [h1], fun y hy => ?_⟩
      rcases List.mem_cons.1 hy with rfl | hy
      · exact not_lt.1 hlt
      · exact h2 y hy

theorem minOpt_le (o : Option α) (x : α) : minOpt o x ≤ x := by
  cases o with
  | none => exact le_rfl
  | some m => simp only [minOpt]; split <;> [exact le_rfl; exact not_lt.1 ‹_›]

theorem minOpt_le_some (m x : α) : minOpt (some m) x ≤ m := by
  simp only [minOpt]; split <;> [exact le_of_lt ‹_›; exact le_rfl]

theorem le_maxOpt (o : Option α) (x : α) : x ≤ maxOpt o x := by
  cases o with
  | none => exact le_rfl
  | some m => simp only [maxOpt]; split <;> [exact le_rfl; exact not_lt.1 ‹_›]

theorem some_le_maxOpt (m x : α) : m ≤ maxOpt (some m) x := by
  simp only [maxOpt]; split <;> [exact le_of_lt ‹_›; exact le_rfl]

/-- the invariant linking a state to the list `L` of live insertions -/
structure Inv (s : St α) (L : List (α × α)) : Prop where
  cnt : sumCount (s.centroids ++ s.backlog) = (L.map Prod.snd).sum
  sm : sumSum (s.centroids ++ s.backlog) = (L.map (fun p => p.1 * p.2)).sum
  pos : ∀ c ∈ s.centroids ++ s.backlog, 0 < c.count
  emp : s.centroids ++ s.backlog = [] ↔ L = []
  mn : IsMinOf s.min (L.map Prod.fst)
  mx : IsMaxOf s.max (L.map Prod.fst)
  range : ∀ c ∈ s.centroids ++ s.backlog, ∀ a b, s.min = some a → s.max = some b →
    a ≤ c.mean ∧ c.mean ≤ b
  sorted : SortedMean s.centroids
  wpos : ∀ p ∈ L, 0 < p.2

theorem inv_new (mb : Nat) : Inv (new mb : St α) [] where
  cnt := by simp [new]
  sm := by simp [new]
  pos := by simp [new]
  emp := by simp [new]
  mn := by simp [new, IsMinOf]
  mx := by simp [new, IsMaxOf]
  range := by simp [new]
  sorted := by simp [new, SortedMean]
  wpos := by simp

theorem inv_clear (s : St α) : Inv (clear s) [] where
  cnt := by simp [clear]
  sm := by simp [clear]
  pos := by simp [clear]
  emp := by simp [clear]
  mn := by simp [clear, IsMinOf]
  mx := by simp [clear, IsMaxOf]
  range := by simp [clear]
  sorted := by simp [clear, SortedMean]
  wpos := by simp

theorem inv_merge (sf : ScaleFn α) {s : St α} {L : List (α × α)} (h : Inv s L) : Inv (merge sf s) L := by
  rcases merge_centroids sf s with ⟨hb, hc⟩ | ⟨x, hperm, hsort, hf⟩
  · rw [merge_of_nil hb]; exact h
  · have hposx : ∀ c ∈ x, 0 < c.count := fun c hc => h.pos c (hperm.mem_iff.1 hc)
    refine ⟨?_, ?_, ?_, ?_, ?_, ?_, ?_, ?_, h.wpos⟩
    · rw [merge_backlog, List.append_nil, hf.sumCount, sumCount_perm hperm, h.cnt]
    · rw [merge_backlog, List.append_nil, hf.sumSum, sumSum_perm hperm, h.sm]
    · rw [merge_backlog, List.append_nil]; exact hf.pos hposx
    · rw [merge_backlog, List.append_nil, ← h.emp]
      constructor
      · intro e; exact absurd e hf.ne_nil
      · intro e
        rw [e] at hperm
        exact absurd hperm.eq_nil hf.inp_ne_nil
    · rw [merge_min]; exact h.mn
    · rw [merge_max]; exact h.mx
    · rw [merge_backlog, List.append_nil, merge_min, merge_max]
      intro c hc a b ha hb
      constructor
      · exact hf.lower hposx (fun d hd => (h.range d (hperm.mem_iff.1 hd) a b ha hb).1) c hc
      · exact hf.upper hposx (fun d hd => (h.range d (hperm.mem_iff.1 hd) a b ha hb).2) c hc
    · exact hf.sorted hposx hsort

theorem inv_push {s : St α} {L : List (α × α)} (h : Inv s L) (x w : α) (hw : 0 < w) :
    Inv { s with backlog := ⟨x * w, w⟩ :: s.backlog, nSamples := s.nSamples + 1,
                 min := some (minOpt s.min x), max := some (maxOpt s.max x) } ((x, w) :: L) := by
  have hperm : (s.centroids ++ (⟨x * w, w⟩ : Centroid α) :: s.backlog).Perm
      (⟨x * w, w⟩ :: (s.centroids ++ s.backlog)) := List.perm_middle
  have hmean : (⟨x * w, w⟩ : Centroid α).mean = x := by
    simp only [Centroid.mean]; field_simp
  refine ⟨?_, ?_, ?_, ?_, ?_, ?_, ?_, h.sorted, ?_⟩
  · simp only [sumCount_perm hperm, sumCount_cons, h.cnt, List.map_cons, List.sum_cons]
  · simp only [sumSum_perm hperm, sumSum_cons, h.sm, List.map_cons, List.sum_cons]
  · intro c hc
    rcases List.mem_cons.1 (hperm.mem_iff.1 hc) with rfl | hc
    · exact hw
    · exact h.pos c hc
  · simp
  · exact isMinOf_minOpt h.mn x
  · exact isMaxOf_maxOpt h.mx x
  · intro c hc a b ha hb
    simp only [Option.some.injEq] at ha hb
    subst ha hb
    rcases List.mem_cons.1 (hperm.mem_iff.1 hc) with rfl | hc
    · rw [hmean]; exact ⟨minOpt_le _ _, le_maxOpt _ _⟩
    · have hne : L ≠ [] := by
        intro e
        have := h.emp.2 e
        rw [this] at hc; simp at hc
      have hmn := h.mn; have hmx := h.mx
      cases hmin : s.min with
      | none => rw [hmin] at hmn; simp [IsMinOf] at hmn; exact absurd hmn hne
      | some a =>
        cases hmax : s.max with
        | none => rw [hmax] at hmx; simp [IsMaxOf] at hmx; exact absurd hmx hne
        | some b =>
          have := h.range c hc a b hmin hmax
          exact ⟨le_trans (minOpt_le_some _ _) this.1, le_trans this.2 (some_le_maxOpt _ _)⟩
  · intro p hp
    rcases List.mem_cons.1 hp with rfl | hp
    · exact hw
    · exact h.wpos p hp

theorem insertWeighted_zero (sf : ScaleFn α) (s : St α) (x : α) : insertWeighted sf s x 0 = some s := by
  simp [insertWeighted]

theorem insertWeighted_neg (sf : ScaleFn α) (s : St α) (x : α) {w : α} (hw : w < 0) :
    insertWeighted sf s x w = none := by
  simp [insertWeighted, hw]

/-- the state pushed onto the backlog by a positive-weight insertion, before the size check -/
def pushed (s : St α) (x w : α) : St α :=
  { s with backlog := ⟨x * w, w⟩ :: s.backlog, nSamples := s.nSamples + 1,
           min := some (minOpt s.min x), max := some (maxOpt s.max x) }

theorem insertWeighted_pos (sf : ScaleFn α) (s : St α) (x : α) {w : α} (hw : 0 < w) :
    insertWeighted sf s x w =
      some (if (pushed s x w).backlog.length > s.maxBacklog then merge sf (pushed s x w) else pushed s x w) := by
  have : ¬ w < 0 := not_lt.2 hw.le
  simp [insertWeighted, this, hw, pushed]

theorem inv_step (sf : ScaleFn α) {s s' : St α} {L : List (α × α)} (h : Inv s L) (op : Op α)
    (hs : step sf s op = some s') : Inv s' (record L op) := by
  cases op with
  | insert x w =>
    simp only [step] at hs
    rcases lt_trichotomy w 0 with hw | hw | hw
    · rw [insertWeighted_neg sf s x hw] at hs; cases hs
    · subst hw
      rw [insertWeighted_zero] at hs
      cases hs
      simpa [record] using h
    · rw [insertWeighted_pos sf s x hw] at hs
      simp only [record, hw, if_true]
      have hp := inv_push h x w hw
      cases hs
      split
      · exact inv_merge sf hp
      · exact hp
  | read =>
    simp only [step] at hs; cases hs
    exact inv_merge sf h
  | clear =>
    simp only [step] at hs; cases hs
    exact inv_clear s

theorem inv_run (sf : ScaleFn α) {s s' : St α} {L : List (α × α)} (h : Inv s L) (ops : List (Op α))
    (hs : run sf s ops = some s') : Inv s' (ops.foldl record L) := by
  induction ops generalizing s L with
  | nil => simp only [run] at hs; cases hs; exact h
  | cons op ops ih =>
    simp only [run] at hs
    cases h1 : step sf s op with
    | none => rw [h1] at hs; cases hs
    | some s1 =>
      rw [h1] at hs
      exact ih (inv_step sf h op h1) hs

/-- every state reachable from `new` satisfies the invariant w.r.t. the live insertions -/
theorem inv_reachable (sf : ScaleFn α) {mb : Nat} {s : St α} {ops : List (Op α)}
    (h : run sf (new mb) ops = some s) : Inv s (inserted ops) :=
  inv_run sf (inv_new mb) ops h

/-- a history runs without panic iff no negative weight is inserted -/
theorem run_isSome_iff (sf : ScaleFn α) (s : St α) (ops : List (Op α)) :
    (run sf s ops).isSome ↔ ∀ x w, Op.insert x w ∈ ops → 0 ≤ w := by
  induction ops generalizing s with
  | nil => simp [run]
  | cons op ops ih =>
    simp only [run]
    cases op with
    | insert x w =>
      simp only [step]
      rcases lt_trichotomy w 0 with hw | hw | hw
      · rw [insertWeighted_neg sf s x hw]
        simp only [Option.bind_none, Option.isSome_none, Bool.false_eq_true, false_iff]
        intro hall
        exact absurd (hall x w (by simp)) (not_le.2 hw)
      · subst hw
        rw [insertWeighted_zero]
        simp only [Option.bind_some, ih]
        constructor
        · intro hh y v hm
          rcases List.mem_cons.1 hm with e | hm
          · cases e; exact le_rfl
          · exact hh y v hm
        · intro hh y v hm; exact hh y v (List.mem_cons_of_mem _ hm)
      · rw [insertWeighted_pos sf s x hw]
        simp only [Option.bind_some, ih]
        constructor
        · intro hh y v hm
          rcases List.mem_cons.1 hm with e | hm
          · cases e; exact hw.le
          · exact hh y v hm
        · intro hh y v hm; exact hh y v (List.mem_cons_of_mem _ hm)
    | read =>
      simp only [step, Option.bind_some, ih]
      constructor
      · intro hh y v hm
        rcases List.mem_cons.1 hm with e | hm
        · cases e
        · exact hh y v hm
      · intro hh y v hm; exact hh y v (List.mem_cons_of_mem _ hm)
    | clear =>
      simp only [step, Option.bind_some, ih]
      constructor
      · intro hh y v hm
        rcases List.mem_cons.1 hm with e | hm
        · cases e
        · exact hh y v hm
      · intro hh y v hm; exact hh y v (List.mem_cons_of_mem _ hm)

/-! ### backlog bound (C04) -/

theorem pushed_backlog_length (s : St α) (x w : α) : (pushed s x w).backlog.length = s.backlog.length + 1 := by
  simp [pushed]

/-- after a successful `insertWeighted` the backlog holds at most `maxBacklog` entries
(whatever the state was before) -/
theorem insertWeighted_backlog (sf : ScaleFn α) {s s' : St α} {x w : α}
    (hb : s.backlog.length ≤ s.maxBacklog)
    (h : insertWeighted sf s x w = some s') : s'.backlog.length ≤ s'.maxBacklog ∧ s'.maxBacklog = s.maxBacklog := by
  rcases lt_trichotomy w 0 with hw | hw | hw
  · rw [insertWeighted_neg sf s x hw] at h; cases h
  · subst hw; rw [insertWeighted_zero] at h; cases h; exact ⟨hb, rfl⟩
  · rw [insertWeighted_pos sf s x hw] at h
    cases h
    split
    · simp [pushed]
    · rename_i hgt
      have : (pushed s x w).maxBacklog = s.maxBacklog := rfl
      exact ⟨by rw [this]; omega, rfl⟩

theorem step_backlog (sf : ScaleFn α) {s s' : St α} (op : Op α)
    (hb : s.backlog.length ≤ s.maxBacklog) (h : step sf s op = some s') :
    s'.backlog.length ≤ s'.maxBacklog ∧ s'.maxBacklog = s.maxBacklog := by
  cases op with
  | insert x w => exact insertWeighted_backlog sf hb h
  | read => simp only [step] at h; cases h; simp
  | clear => simp only [step] at h; cases h; simp [clear]

theorem run_backlog (sf : ScaleFn α) {s s' : St α} (ops : List (Op α))
    (hb : s.backlog.length ≤ s.maxBacklog) (h : run sf s ops = some s') :
    s'.backlog.length ≤ s'.maxBacklog ∧ s'.maxBacklog = s.maxBacklog := by
  induction ops generalizing s with
  | nil => simp only [run] at h; cases h; exact ⟨hb, rfl⟩
  | cons op ops ih =>
    simp only [run] at h
    cases h1 : step sf s op with
    | none => rw [h1] at h; cases h
    | some s1 =>
      rw [h1] at h
      have := step_backlog sf op hb h1
      have h2 := ih this.1 h
      exact ⟨h2.1, h2.2.trans this.2⟩

end Pds.TDigest
