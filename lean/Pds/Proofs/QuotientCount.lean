import Pds.Proofs.QuotientRefine
import Mathlib.Data.Finset.Prod
import Mathlib.Data.Fintype.Basic
/-!
Counting corollary: exactly `t.n` pairs are reported present.
-/
namespace Pds.Quotient
variable {N : Nat}

/-- `query` on the (quotient, remainder) level -/
def present (t : St N) (a : Fin N) (r : Nat) : Bool :=
  match scan t a r false with
  | some sr => sr.present
  | none => false

theorem present_iff {t : St N} {S : Finset (Fin N × Nat)} (hr : Rep t S) (a : Fin N) (r : Nat) :
    present t a r = true ↔ (a, r) ∈ S := by
  obtain ⟨sr, h1, h2⟩ := rep_scan hr a r false
  simp [present, h1, h2]

theorem count_present {t : St N} {S : Finset (Fin N × Nat)} (hr : Rep t S) (R : Nat)
    (hR : ∀ p ∈ S, p.2 < R) :
    ((Finset.univ ×ˢ Finset.range R).filter (fun p : Fin N × Nat => present t p.1 p.2 = true)).card
      = t.n := by
  rw [hr.2]
  congr 1
  ext p
  obtain ⟨a, r⟩ := p
  simp only [Finset.mem_filter, Finset.mem_product, Finset.mem_univ, Finset.mem_range, true_and,
    present_iff hr]
  constructor
  · exact fun h => h.2
  · exact fun h => ⟨hR _ h, h⟩

end Pds.Quotient
