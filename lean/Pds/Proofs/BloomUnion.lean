import Pds.Proofs.BloomHist
/-! Algebra of Bloom-filter `union`, and `union` = concatenation of insert streams. -/
namespace Pds.Bloom

theorem zipWith_or_comm (a b : Array Bool) : Array.zipWith (· || ·) a b = Array.zipWith (· || ·) b a := by
  apply Array.ext
  · simp [Nat.min_comm]
  · intro i h1 h2; simp [Bool.or_comm]

theorem zipWith_or_assoc (a b c : Array Bool) :
    Array.zipWith (· || ·) (Array.zipWith (· || ·) a b) c =
      Array.zipWith (· || ·) a (Array.zipWith (· || ·) b c) := by
  apply Array.ext
  · simp [Nat.min_assoc]
  · intro i h1 h2; simp [Bool.or_assoc]

theorem zipWith_or_self (a : Array Bool) : Array.zipWith (· || ·) a a = a := by
  apply Array.ext
  · simp
  · intro i h1 h2; simp

theorem zipWith_or_twice (a b : Array Bool) :
    Array.zipWith (· || ·) (Array.zipWith (· || ·) a b) b = Array.zipWith (· || ·) a b := by
  rw [zipWith_or_assoc, zipWith_or_self]

theorem union_comm (s o : St) : union s o = union o s := by
  unfold union
  by_cases h : s.k = o.k ∧ s.m = o.m
  · have h' : o.k = s.k ∧ o.m = s.m := ⟨h.1.symm, h.2.symm⟩
    rw [if_pos h, if_pos h']
    congr 1
    exact St.ext' h.1 (zipWith_or_comm _ _)
  · have h' : ¬ (o.k = s.k ∧ o.m = s.m) := fun h' => h ⟨h'.1.symm, h'.2.symm⟩
    rw [if_neg h, if_neg h']

theorem union_idem (s : St) : union s s = some s := by
  unfold union
  simp only [and_self, if_true, zipWith_or_self]

theorem union_assoc (a b c : St) :
    (union a b).bind (union · c) = (union b c).bind (union a) := by
  apply Option.ext
  intro u
  simp only [Option.bind_eq_some_iff, union_eq_some_iff, St.m]
  constructor
  · rintro ⟨ab, ⟨⟨h1, h2⟩, rfl⟩, ⟨h3, h4⟩, rfl⟩
    simp only [Array.size_zipWith] at h3 h4
    refine ⟨_, ⟨⟨by omega, by omega⟩, rfl⟩, ⟨h1, by simp only [Array.size_zipWith]; omega⟩, ?_⟩
    rw [zipWith_or_assoc]
  · rintro ⟨bc, ⟨⟨h1, h2⟩, rfl⟩, ⟨h3, h4⟩, rfl⟩
    simp only [Array.size_zipWith] at h3 h4
    refine ⟨_, ⟨⟨h3, by omega⟩, rfl⟩, ⟨by simp only; omega, by simp only [Array.size_zipWith]; omega⟩, ?_⟩
    rw [zipWith_or_assoc]

theorem union_twice (s o : St) : (union s o).bind (union · o) = union s o := by
  unfold union
  by_cases h : s.k = o.k ∧ s.m = o.m
  · have e : s.bits.size = o.bits.size := h.2
    simp [h, St.m, e, zipWith_or_twice]
  · simp [h]

/-! ### insert-only histories -/

/-- the history that inserts the elements of `A` in order -/
def inserts (A : List Nat) : List Op := A.map .insert

theorem runFrom_inserts_spec (hash : List Nat → Nat) : ∀ (A : List Nat) (s : St), 0 < s.m →
    ∃ s', runFrom hash (inserts A) s = some s' ∧ s'.k = s.k ∧ s'.m = s.m ∧
      ∀ j, bit s'.bits j = true ↔ bit s.bits j = true ∨ ∃ x ∈ A, j ∈ posOf hash s.m s.k x := by
  intro A
  induction A with
  | nil => intro s _; exact ⟨s, rfl, rfl, rfl, by simp⟩
  | cons x A ih =>
    intro s hm
    obtain ⟨s1, r, e, hk1, hm1, hb1, _⟩ := insert_spec hash hm x
    obtain ⟨s2, e2, hk2, hm2, hb2⟩ := ih s1 (by rw [hm1]; exact hm)
    refine ⟨s2, ?_, hk2.trans hk1, hm2.trans hm1, ?_⟩
    · simp only [inserts, List.map_cons, runFrom_cons, step, e, Option.map_some, Option.bind_some]
      exact e2
    · intro j
      rw [hb2 j, hb1 j, hk1, hm1]
      simp only [List.mem_cons, exists_eq_or_imp]
      exact or_assoc

/-- The bits of a filter built by inserting `A`: exactly the positions of the members of `A`. -/
theorem run_inserts_spec (hash : List Nat → Nat) {m : Nat} (hm : 0 < m) (k : Nat) (A : List Nat) :
    ∃ s, run hash m k (inserts A) = some s ∧ s.k = k ∧ s.m = m ∧
      ∀ j, bit s.bits j = true ↔ ∃ x ∈ A, j ∈ posOf hash m k x := by
  obtain ⟨s, e, hk, hm', hb⟩ := runFrom_inserts_spec hash A ⟨k, Array.replicate m false⟩
    (by simpa [St.m] using hm)
  refine ⟨s, by rw [run, new_some hm]; exact e, hk, by simpa [St.m] using hm', ?_⟩
  intro j
  rw [hb j]
  simp [bit_replicate_false, St.m]

/-- `union` of two insert-only filters is the filter of the concatenated stream. -/
theorem union_eq_concat (hash : List Nat → Nat) {m : Nat} (hm : 0 < m) (k : Nat) (A B : List Nat) :
    ((run hash m k (inserts A)).bind fun a => (run hash m k (inserts B)).bind fun b => union a b) =
      run hash m k (inserts (A ++ B)) := by
  obtain ⟨a, ea, ka, ma, ba⟩ := run_inserts_spec hash hm k A
  obtain ⟨b, eb, kb, mb, bb⟩ := run_inserts_spec hash hm k B
  obtain ⟨c, ec, kc, mc, bc⟩ := run_inserts_spec hash hm k (A ++ B)
  rw [ea, eb, ec]
  simp only [Option.bind_some]
  have hu : (union a b).isSome := by rw [union_isSome_iff]; exact ⟨ka.trans kb.symm, ma.trans mb.symm⟩
  cases hu' : union a b with
  | none => rw [hu'] at hu; cases hu
  | some u =>
    obtain ⟨uk, um, ub⟩ := union_spec hu'
    congr 1
    apply St.ext' (by rw [uk, ka, kc])
    apply array_ext_bit (by have := um.trans (ma.trans mc.symm); simpa [St.m] using this)
    intro j _
    rw [Bool.eq_iff_iff, ub j, Bool.or_eq_true, ba j, bb j, bc j]
    simp only [List.mem_append]
    constructor
    · rintro (⟨x, hx, h⟩ | ⟨x, hx, h⟩)
      · exact ⟨x, Or.inl hx, h⟩
      · exact ⟨x, Or.inr hx, h⟩
    · rintro ⟨x, hx | hx, h⟩
      · exact Or.inl ⟨x, hx, h⟩
      · exact Or.inr ⟨x, hx, h⟩

end Pds.Bloom
