import Mathlib.Analysis.SpecialFunctions.Exp
import Mathlib.Algebra.Order.BigOperators.Group.Finset
import Mathlib.Algebra.Order.BigOperators.GroupWithZero.Finset
import Mathlib.Data.Fintype.BigOperators
import Mathlib.Tactic.Linarith
/-!
Counting lemmas behind the `(ε, δ)` statement of the count-min sketch: a pigeonhole bound on the
number of heavy cells of a row, and the product bound on the number of column tuples that are
heavy in every row.
-/
namespace Pds.Sizing
open Finset

/-- Markov/pigeonhole on a finite family of naturals: the cells above `t` weigh at least `t`
each. -/
theorem card_heavy_mul_le_sum {ι : Type} (s : Finset ι) (f : ι → ℕ) (t : ℝ) :
    ((s.filter fun i => t < (f i : ℝ)).card : ℝ) * t ≤ ((∑ i ∈ s, f i : ℕ) : ℝ) := by
  classical
  have h1 : ((s.filter fun i => t < (f i : ℝ)).card : ℝ) * t
      ≤ ∑ i ∈ s.filter (fun i => t < (f i : ℝ)), (f i : ℝ) := by
    have := card_nsmul_le_sum (s.filter fun i => t < (f i : ℝ)) (fun i => (f i : ℝ)) t
      (fun i hi => le_of_lt (mem_filter.mp hi).2)
    simpa [nsmul_eq_mul] using this
  have h2 : ∑ i ∈ s.filter (fun i => t < (f i : ℝ)), (f i : ℝ) ≤ ∑ i ∈ s, (f i : ℝ) :=
    sum_le_sum_of_subset_of_nonneg (filter_subset _ _) (fun i _ _ => Nat.cast_nonneg _)
  rw [Nat.cast_sum]
  linarith

/-- strict version: if the family sums to at most `N > 0`, fewer than `N / t` cells exceed `t` -/
theorem card_heavy_lt {ι : Type} (s : Finset ι) (f : ι → ℕ) {t : ℝ} (ht : 0 < t) {N : ℕ}
    (hN : 0 < N) (hsum : ∑ i ∈ s, f i ≤ N) :
    ((s.filter fun i => t < (f i : ℝ)).card : ℝ) < (N : ℝ) / t := by
  classical
  rw [lt_div_iff₀ ht]
  have hN' : (0 : ℝ) < N := by exact_mod_cast hN
  have hsum' : ((∑ i ∈ s, f i : ℕ) : ℝ) ≤ N := by exact_mod_cast hsum
  rcases (s.filter fun i => t < (f i : ℝ)).eq_empty_or_nonempty with he | hne
  · rw [he]; simpa using hN'
  · have h1 : ((s.filter fun i => t < (f i : ℝ)).card : ℝ) * t
        < ∑ i ∈ s.filter (fun i => t < (f i : ℝ)), (f i : ℝ) := by
      have := sum_lt_sum_of_nonempty hne (f := fun _ => t) (g := fun i => (f i : ℝ))
        (fun i hi => (mem_filter.mp hi).2)
      simpa [nsmul_eq_mul] using this
    have h2 : ∑ i ∈ s.filter (fun i => t < (f i : ℝ)), (f i : ℝ) ≤ ∑ i ∈ s, (f i : ℝ) :=
      sum_le_sum_of_subset_of_nonneg (filter_subset _ _) (fun i _ _ => Nat.cast_nonneg _)
    rw [Nat.cast_sum] at hsum'
    linarith

/-- list form: `(number of entries above t)·t ≤ sum`, strictly when there is such an entry -/
theorem list_heavy_mul_le_sum (l : List ℕ) (t : ℝ) :
    ((l.countP fun v : ℕ => t < (v : ℝ)) : ℝ) * t ≤ (l.sum : ℝ) ∧
      (0 < l.countP (fun v : ℕ => t < (v : ℝ)) → ((l.countP fun v : ℕ => t < (v : ℝ)) : ℝ) * t < (l.sum : ℝ)) := by
  induction l with
  | nil => simp
  | cons v l ih =>
    obtain ⟨ih1, ih2⟩ := ih
    have hv : (0 : ℝ) ≤ v := Nat.cast_nonneg v
    by_cases h : t < (v : ℝ)
    · rw [List.countP_cons_of_pos (by simpa using h), List.sum_cons]
      simp only [Nat.cast_add, Nat.cast_one]
      constructor
      · nlinarith
      · intro _; nlinarith
    · rw [List.countP_cons_of_neg (by simpa using h), List.sum_cons]
      simp only [Nat.cast_add]
      constructor
      · linarith
      · intro hp; have := ih2 hp; linarith

/-- list form of the pigeonhole bound: fewer than `N / t` entries of a list of naturals with sum
`≤ N` (`N > 0`) exceed `t > 0` -/
theorem list_heavy_lt (l : List ℕ) {t : ℝ} (ht : 0 < t) {N : ℕ} (hN : 0 < N) (hsum : l.sum ≤ N) :
    ((l.countP fun v : ℕ => t < (v : ℝ)) : ℝ) < (N : ℝ) / t := by
  rw [lt_div_iff₀ ht]
  have hN' : (0 : ℝ) < N := by exact_mod_cast hN
  have hsum' : (l.sum : ℝ) ≤ N := by exact_mod_cast hsum
  obtain ⟨h1, h2⟩ := list_heavy_mul_le_sum l t
  rcases Nat.eq_zero_or_pos (l.countP fun v : ℕ => t < (v : ℝ)) with h0 | hp
  · rw [h0]; simpa using hN'
  · have := h2 hp; linarith

/-- with `t = ε·N` and `w ≥ e/ε`: fewer than `1/ε ≤ w/e` cells exceed `ε·N` -/
theorem card_heavy_lt_width {ι : Type} (s : Finset ι) (f : ι → ℕ) {ε : ℝ} (hε : 0 < ε) {N : ℕ}
    (hN : 0 < N) (hsum : ∑ i ∈ s, f i ≤ N) {w : ℕ} (hw : Real.exp 1 / ε ≤ (w : ℝ)) :
    ((s.filter fun i => ε * (N : ℝ) < (f i : ℝ)).card : ℝ) < 1 / ε ∧
      1 / ε ≤ (w : ℝ) / Real.exp 1 := by
  have hN' : (0 : ℝ) < N := by exact_mod_cast hN
  constructor
  · have := card_heavy_lt s f (mul_pos hε hN') hN hsum
    have e : (N : ℝ) / (ε * N) = 1 / ε := by field_simp
    rwa [e] at this
  · rw [div_le_iff₀ hε] at hw
    rw [div_le_div_iff₀ hε (Real.exp_pos 1)]
    linarith

/-- a product of naturals each below `c` is below `c ^ d` (for `d ≥ 1`) -/
theorem prod_card_lt_pow {d : ℕ} (hd : 0 < d) (a : Fin d → ℕ) {c : ℝ}
    (ha : ∀ r, (a r : ℝ) < c) : ((∏ r, a r : ℕ) : ℝ) < c ^ d := by
  have hc : 0 < c := lt_of_le_of_lt (Nat.cast_nonneg _) (ha ⟨0, hd⟩)
  rw [Nat.cast_prod]
  by_cases h0 : ∃ r, a r = 0
  · obtain ⟨r, hr⟩ := h0
    rw [prod_eq_zero (mem_univ r) (by simp [hr])]
    exact pow_pos hc d
  · have hpos : ∀ r, (0 : ℝ) < a r := fun r => by
      have : a r ≠ 0 := fun h => h0 ⟨r, h⟩
      exact_mod_cast Nat.pos_of_ne_zero this
    have := prod_lt_prod_of_nonempty (s := (univ : Finset (Fin d))) (f := fun r => (a r : ℝ))
      (g := fun _ => c) (fun r _ => hpos r) (fun r _ => ha r) ⟨⟨0, hd⟩, mem_univ _⟩
    simpa using this

/-- `(w/e)^d = w^d · exp(−d)` -/
theorem div_exp_pow (w d : ℕ) : ((w : ℝ) / Real.exp 1) ^ d = (w : ℝ) ^ d * Real.exp (-(d : ℝ)) := by
  rw [div_pow, ← Real.exp_nat_mul, mul_one, Real.exp_neg, div_eq_mul_inv]

/-- The number of column tuples `(c_0 … c_{d−1}) ∈ [0,w)^d` that fall into a "bad" set `B r` of
fewer than `w/e` columns in *every* row is below `(w/e)^d = w^d·e^{−d} ≤ δ·w^d`. -/
theorem card_all_bad_lt {w d : ℕ} (hd : 0 < d) (B : Fin d → Finset (Fin w))
    (hB : ∀ r, ((B r).card : ℝ) < (w : ℝ) / Real.exp 1) {δ : ℝ}
    (hδ : Real.exp (-(d : ℝ)) ≤ δ) :
    ((Fintype.piFinset B).card : ℝ) < δ * (w : ℝ) ^ d := by
  rw [Fintype.card_piFinset]
  have h := prod_card_lt_pow hd (fun r => (B r).card) hB
  rw [div_exp_pow] at h
  have hw : (0 : ℝ) ≤ (w : ℝ) ^ d := by positivity
  nlinarith

/-- `w ^ d` is the number of all column tuples -/
theorem card_tuples (w d : ℕ) : Fintype.card (Fin d → Fin w) = w ^ d := by simp

end Pds.Sizing
