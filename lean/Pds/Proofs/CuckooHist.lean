/-
Cuckoo filter proofs, part 5: histories of operations and the ledger of successful
inserts / deletes / unions since the last `clear`.
-/
import Pds.Proofs.CuckooUnion

namespace Pds.Cuckoo
open Multiset

/-- operations of a history -/
inductive Op (R : Type) where
  | insert (x : Nat)
  | delete (x : Nat)
  | clear
  | union (o : St R)

/-- reported outcomes -/
inductive Out where
  | ins (r : Res)
  | del (b : Bool)
  | clr
  | uni (r : Res)
  deriving DecidableEq

/-- one operation; `none` = panic -/
def step {R : Type} (I : RngI R) (hash : List Nat → Nat) (kicks : Nat) (s : St R) :
    Op R → Option (St R × Out)
  | .insert x =>
    match insert I hash kicks s x with
    | none => none
    | some (s', r) => some (s', .ins r)
  | .delete x =>
    match delete hash s x with
    | none => none
    | some (s', b) => some (s', .del b)
  | .clear => some (clear s, .clr)
  | .union o =>
    match union I hash kicks s o with
    | none => none
    | some (s', r) => some (s', .uni r)

/-- a history: final state and the outcomes in order -/
def run {R : Type} (I : RngI R) (hash : List Nat → Nat) (kicks : Nat) :
    St R → List (Op R) → Option (St R × List Out)
  | s, [] => some (s, [])
  | s, op :: ops =>
    match step I hash kicks s op with
    | none => none
    | some (s', out) =>
      match run I hash kicks s' ops with
      | none => none
      | some (s'', outs) => some (s'', out :: outs)

/-- What the caller saw succeed since the last `clear`: classes of successfully inserted elements
(and contents of successfully merged filters), classes of successfully deleted elements, and how
many of each. -/
structure Ledger where
  ins : Multiset Cls
  del : Multiset Cls
  nIns : Nat
  nDel : Nat

def Ledger.empty : Ledger := ⟨0, 0, 0, 0⟩

def ledgerStep {R : Type} (hash : List Nat → Nat) (nb lf : Nat) (L : Ledger) : Op R × Out → Ledger
  | (.insert x, .ins (.ok _)) => { L with ins := L.ins + {clsOf hash nb lf x}, nIns := L.nIns + 1 }
  | (.delete x, .del true) => { L with del := L.del + {clsOf hash nb lf x}, nDel := L.nDel + 1 }
  | (.clear, _) => Ledger.empty
  | (.union o, .uni (.ok _)) => { L with ins := L.ins + abs hash o, nIns := L.nIns + o.n }
  | _ => L

def ledger {R : Type} (hash : List Nat → Nat) (nb lf : Nat) : Ledger → List (Op R × Out) → Ledger
  | L, [] => L
  | L, ev :: evs => ledger hash nb lf (ledgerStep hash nb lf L ev) evs

/-- the state agrees with the ledger -/
structure Agree {R : Type} (hash : List Nat → Nat) (s : St R) (L : Ledger) : Prop where
  le : ∀ c, count c L.del ≤ count c L.ins
  cnt : ∀ c, count c (abs hash s) = count c L.ins - count c L.del
  cardIns : card L.ins = L.nIns
  cardDel : card L.del = L.nDel

/-- side condition on operands: a merged filter is well-formed with the same parameters -/
def OpOK {R : Type} (hash : List Nat → Nat) (bs nb lf : Nat) : Op R → Prop
  | .union o => Inv hash o ∧ bs = o.bs ∧ nb = o.nb ∧ lf = o.lf
  | _ => True

theorem Agree.le' {R : Type} {hash : List Nat → Nat} {s : St R} {L : Ledger} (h : Agree hash s L) :
    L.del ≤ L.ins := le_iff_count.2 h.le

theorem Agree.abs_eq {R : Type} {hash : List Nat → Nat} {s : St R} {L : Ledger}
    (h : Agree hash s L) : abs hash s = L.ins - L.del := by
  apply Multiset.ext.2; intro c; rw [h.cnt c, count_sub]

theorem Agree.len {R : Type} {hash : List Nat → Nat} {s : St R} {L : Ledger}
    (h : Agree hash s L) (hinv : Inv hash s) : s.n = L.nIns - L.nDel := by
  rw [hinv.2, h.abs_eq, card_sub h.le', h.cardIns, h.cardDel]

theorem Agree.mem_iff {R : Type} {hash : List Nat → Nat} {s : St R} {L : Ledger}
    (h : Agree hash s L) (c : Cls) : c ∈ abs hash s ↔ count c L.del < count c L.ins := by
  rw [← count_pos, h.cnt c]; omega

/-- a state with the same parameters, table and count is as good as the original -/
theorem Inv.of_same {R : Type} {hash : List Nat → Nat} {s s' : St R} (h : Inv hash s)
    (hp : SameParams s s') (ht : s'.table = s.table) (hn : s'.n = s.n) :
    Inv hash s' ∧ abs hash s' = abs hash s := by
  have ha : abs hash s' = abs hash s := by unfold abs; rw [hp.1, hp.2.1, ht]
  refine ⟨⟨Valid.of_table h.1 hp (by rw [ht]; exact h.1.tvalid), by rw [ha, hn]; exact h.2⟩, ha⟩

theorem Agree.of_abs {R : Type} {hash : List Nat → Nat} {s s' : St R} {L : Ledger}
    (h : Agree hash s L) (ha : abs hash s' = abs hash s) : Agree hash s' L :=
  ⟨h.le, by rw [ha]; exact h.cnt, h.cardIns, h.cardDel⟩

theorem step_spec {R : Type} (I : RngI R) (hI : RngOK I) (hash : List Nat → Nat) (kicks : Nat)
    {s : St R} {L : Ledger} (hinv : Inv hash s) (hag : Agree hash s L) (op : Op R)
    (hop : OpOK hash s.bs s.nb s.lf op) :
    ∃ s' out, step I hash kicks s op = some (s', out) ∧ SameParams s s' ∧ Inv hash s' ∧
      Agree hash s' (ledgerStep hash s.nb s.lf L (op, out)) := by
  cases op with
  | insert x =>
    obtain ⟨s', r, h1, h2, h3, h4⟩ := insert_spec I hI hash kicks hinv x
    refine ⟨s', .ins r, by simp only [step, h1], h2, ?_⟩
    cases r with
    | ok b =>
      obtain ⟨_, a2, _, a4⟩ := h3 b rfl
      refine ⟨a4, ?_⟩
      simp only [ledgerStep]
      refine ⟨fun c => ?_, fun c => ?_, ?_, hag.cardDel⟩
      · have := hag.le c; dsimp only; rw [count_add]; omega
      · have := hag.le c
        dsimp only
        rw [a2, count_add, count_add, hag.cnt c]
        show _ + count c {clsOf hash s.nb s.lf x} = _
        omega
      · rw [card_add, card_singleton, hag.cardIns]
    | full =>
      obtain ⟨a1, a2⟩ := h4 rfl
      obtain ⟨b1, b2⟩ := hinv.of_same h2 a1 a2
      exact ⟨b1, hag.of_abs b2⟩
  | delete x =>
    obtain ⟨s', b, h1, h2, h3, h4⟩ := delete_spec hash hinv x
    refine ⟨s', .del b, by simp only [step, h1], ?_⟩
    cases b with
    | true =>
      obtain ⟨a1, _, a3, _, a5⟩ := h3 rfl
      have hmem : clsS hash s x ∈ abs hash s := h2.1 rfl
      have hlt := (hag.mem_iff _).1 hmem
      refine ⟨a1, a5, ?_⟩
      simp only [ledgerStep]
      refine ⟨fun c => ?_, fun c => ?_, hag.cardIns, ?_⟩
      · have := hag.le c
        dsimp only
        rw [count_add, count_singleton]
        split
        · rename_i e; subst e; exact hlt
        · omega
      · dsimp only
        rw [a3, count_add, count_singleton]
        by_cases e : c = clsOf hash s.nb s.lf x
        · subst e
          rw [if_pos rfl]
          show count _ ((abs hash s).erase (clsOf hash s.nb s.lf x)) = _
          rw [count_erase_self, hag.cnt]; omega
        · rw [if_neg e]
          show count _ ((abs hash s).erase (clsOf hash s.nb s.lf x)) = _
          rw [count_erase_of_ne e, hag.cnt]; omega
      · rw [card_add, card_singleton, hag.cardDel]
    | false =>
      have := h4 rfl
      subst this
      exact ⟨⟨rfl, rfl, rfl⟩, hinv, hag⟩
  | clear =>
    obtain ⟨a1, _, _, a4, a5⟩ := clear_spec hash hinv.1
    refine ⟨clear s, .clr, rfl, a1, a5, ?_⟩
    simp only [ledgerStep, Ledger.empty]
    exact ⟨fun _ => Nat.le_refl _, fun c => by rw [a4]; simp, rfl, rfl⟩
  | union o =>
    obtain ⟨ho, p1, p2, p3⟩ := hop
    obtain ⟨s', r, h1, h2, h3, h4⟩ := union_spec I hI hash kicks hinv ho ⟨p1, p2, p3⟩
    refine ⟨s', .uni r, by simp only [step, h1], h2, ?_⟩
    cases r with
    | ok b =>
      obtain ⟨_, a2, _, a4⟩ := h3 b rfl
      refine ⟨a4, ?_⟩
      simp only [ledgerStep]
      refine ⟨fun c => ?_, fun c => ?_, ?_, hag.cardDel⟩
      · have := hag.le c; dsimp only; rw [count_add]; omega
      · have := hag.le c
        dsimp only
        rw [a2, count_add, count_add, hag.cnt c]
        omega
      · rw [card_add, hag.cardIns, ← ho.2]
    | full =>
      obtain ⟨a1, a2⟩ := h4 rfl
      obtain ⟨b1, b2⟩ := hinv.of_same h2 a1 a2
      exact ⟨b1, hag.of_abs b2⟩

theorem run_spec {R : Type} (I : RngI R) (hI : RngOK I) (hash : List Nat → Nat) (kicks : Nat) :
    ∀ (ops : List (Op R)) (s : St R) (L : Ledger), Inv hash s → Agree hash s L →
      (∀ op, op ∈ ops → OpOK hash s.bs s.nb s.lf op) →
      ∃ s' outs, run I hash kicks s ops = some (s', outs) ∧ outs.length = ops.length ∧
        SameParams s s' ∧ Inv hash s' ∧
        Agree hash s' (ledger hash s.nb s.lf L (ops.zip outs)) := by
  intro ops
  induction ops with
  | nil =>
    intro s L hinv hag _
    exact ⟨s, [], rfl, rfl, ⟨rfl, rfl, rfl⟩, hinv, hag⟩
  | cons op ops ih =>
    intro s L hinv hag hops
    obtain ⟨s1, out, h1, h2, h3, h4⟩ :=
      step_spec I hI hash kicks hinv hag op (hops op (List.mem_cons_self))
    have hops' : ∀ op', op' ∈ ops → OpOK hash s1.bs s1.nb s1.lf op' := by
      intro op' hm
      rw [h2.1, h2.2.1, h2.2.2]
      exact hops op' (List.mem_cons_of_mem _ hm)
    obtain ⟨s2, outs, k1, k2, k3, k4, k5⟩ := ih s1 _ h3 h4 hops'
    refine ⟨s2, out :: outs, by simp only [run, h1, k1], by simp [k2], ?_, k4, ?_⟩
    · exact ⟨k3.1.trans h2.1, k3.2.1.trans h2.2.1, k3.2.2.trans h2.2.2⟩
    · rw [h2.2.1, h2.2.2] at k5
      simpa [ledger] using k5

/-! ## Counting successful operations (for the no-false-negatives corollary) -/

/-- number of successful `insert x` since the last clear, starting the count at `a` -/
def nOkIns {R : Type} (x : Nat) : Nat → List (Op R × Out) → Nat
  | a, [] => a
  | a, (.insert y, .ins (.ok _)) :: evs => nOkIns x (if y = x then a + 1 else a) evs
  | _, (.clear, _) :: evs => nOkIns x 0 evs
  | a, _ :: evs => nOkIns x a evs

/-- number of successful deletes of elements of class `c` since the last clear -/
def nOkDel {R : Type} (hash : List Nat → Nat) (nb lf : Nat) (c : Cls) : Nat → List (Op R × Out) → Nat
  | a, [] => a
  | a, (.delete y, .del true) :: evs =>
    nOkDel hash nb lf c (if clsOf hash nb lf y = c then a + 1 else a) evs
  | _, (.clear, _) :: evs => nOkDel hash nb lf c 0 evs
  | a, _ :: evs => nOkDel hash nb lf c a evs

theorem nOkIns_le {R : Type} (hash : List Nat → Nat) (nb lf x : Nat) :
    ∀ (evs : List (Op R × Out)) (a : Nat) (L : Ledger), a ≤ count (clsOf hash nb lf x) L.ins →
      nOkIns x a evs ≤ count (clsOf hash nb lf x) (ledger hash nb lf L evs).ins := by
  intro evs
  induction evs with
  | nil => intro a L h; exact h
  | cons ev evs ih =>
    intro a L h
    obtain ⟨op, out⟩ := ev
    cases op with
    | insert y =>
      cases out with
      | ins r =>
        cases r with
        | ok b =>
          simp only [nOkIns, ledger, ledgerStep]
          apply ih
          simp only [count_add, count_singleton]
          by_cases e : y = x
          · subst e; simp only [if_true]; omega
          · simp only [e, if_false]; omega
        | full => simp only [nOkIns, ledger, ledgerStep]; exact ih _ _ h
      | del b => simp only [nOkIns, ledger, ledgerStep]; exact ih _ _ h
      | clr => simp only [nOkIns, ledger, ledgerStep]; exact ih _ _ h
      | uni r => simp only [nOkIns, ledger, ledgerStep]; exact ih _ _ h
    | delete y =>
      cases out with
      | del b =>
        cases b with
        | true => simp only [nOkIns, ledger, ledgerStep]; exact ih _ _ h
        | false => simp only [nOkIns, ledger, ledgerStep]; exact ih _ _ h
      | ins r => simp only [nOkIns, ledger, ledgerStep]; exact ih _ _ h
      | clr => simp only [nOkIns, ledger, ledgerStep]; exact ih _ _ h
      | uni r => simp only [nOkIns, ledger, ledgerStep]; exact ih _ _ h
    | clear =>
      simp only [nOkIns, ledger, ledgerStep]
      exact ih _ _ (Nat.zero_le _)
    | union o =>
      cases out with
      | uni r =>
        cases r with
        | ok b =>
          simp only [nOkIns, ledger, ledgerStep]
          apply ih
          simp only [count_add]; omega
        | full => simp only [nOkIns, ledger, ledgerStep]; exact ih _ _ h
      | ins r => simp only [nOkIns, ledger, ledgerStep]; exact ih _ _ h
      | del b => simp only [nOkIns, ledger, ledgerStep]; exact ih _ _ h
      | clr => simp only [nOkIns, ledger, ledgerStep]; exact ih _ _ h

theorem nOkDel_eq {R : Type} (hash : List Nat → Nat) (nb lf : Nat) (c : Cls) :
    ∀ (evs : List (Op R × Out)) (a : Nat) (L : Ledger), a = count c L.del →
      nOkDel hash nb lf c a evs = count c (ledger hash nb lf L evs).del := by
  intro evs
  induction evs with
  | nil => intro a L h; exact h
  | cons ev evs ih =>
    intro a L h
    obtain ⟨op, out⟩ := ev
    cases op with
    | insert y =>
      cases out with
      | ins r =>
        cases r with
        | ok b => simp only [nOkDel, ledger, ledgerStep]; exact ih _ _ h
        | full => simp only [nOkDel, ledger, ledgerStep]; exact ih _ _ h
      | del b => simp only [nOkDel, ledger, ledgerStep]; exact ih _ _ h
      | clr => simp only [nOkDel, ledger, ledgerStep]; exact ih _ _ h
      | uni r => simp only [nOkDel, ledger, ledgerStep]; exact ih _ _ h
    | delete y =>
      cases out with
      | del b =>
        cases b with
        | true =>
          simp only [nOkDel, ledger, ledgerStep]
          apply ih
          simp only [count_add, count_singleton]
          by_cases e : clsOf hash nb lf y = c
          · simp only [e, if_true]; omega
          · have e' : ¬ c = clsOf hash nb lf y := fun h => e h.symm
            simp only [e, e', if_false]; omega
        | false => simp only [nOkDel, ledger, ledgerStep]; exact ih _ _ h
      | ins r => simp only [nOkDel, ledger, ledgerStep]; exact ih _ _ h
      | clr => simp only [nOkDel, ledger, ledgerStep]; exact ih _ _ h
      | uni r => simp only [nOkDel, ledger, ledgerStep]; exact ih _ _ h
    | clear =>
      simp only [nOkDel, ledger, ledgerStep]
      exact ih _ _ (by simp [Ledger.empty])
    | union o =>
      cases out with
      | uni r =>
        cases r with
        | ok b => simp only [nOkDel, ledger, ledgerStep]; exact ih _ _ h
        | full => simp only [nOkDel, ledger, ledgerStep]; exact ih _ _ h
      | ins r => simp only [nOkDel, ledger, ledgerStep]; exact ih _ _ h
      | del b => simp only [nOkDel, ledger, ledgerStep]; exact ih _ _ h
      | clr => simp only [nOkDel, ledger, ledgerStep]; exact ih _ _ h


/-! ## Packaged history statement -/

theorem Agree.empty_of_abs {R : Type} {hash : List Nat → Nat} {s : St R} (h : abs hash s = 0) :
    Agree hash s Ledger.empty :=
  ⟨fun _ => Nat.le_refl _, fun c => by rw [h]; simp [Ledger.empty], rfl, rfl⟩

/-- everything the ledger says about the state reached by a history -/
structure Matches {R : Type} (hash : List Nat → Nat) (s : St R) (L : Ledger) : Prop where
  le : L.del ≤ L.ins
  abs_eq : abs hash s = L.ins - L.del
  len : s.n = L.nIns - L.nDel
  cardIns : card L.ins = L.nIns
  cardDel : card L.del = L.nDel
  query : ∀ y, ∃ b, query hash s y = some b ∧ (b = true ↔ clsS hash s y ∈ L.ins - L.del)

theorem Agree.matches {R : Type} {hash : List Nat → Nat} {s : St R} {L : Ledger}
    (h : Agree hash s L) (hinv : Inv hash s) : Matches hash s L := by
  refine ⟨h.le', h.abs_eq, h.len hinv, h.cardIns, h.cardDel, ?_⟩
  intro y
  obtain ⟨b, hb, hiff⟩ := query_spec hash hinv.1 y
  exact ⟨b, hb, by rw [hiff, h.abs_eq]⟩

theorem history_core {R : Type} (I : RngI R) (hI : RngOK I) (hash : List Nat → Nat) (kicks : Nat)
    {s0 : St R} {L0 : Ledger} (hinv : Inv hash s0) (hag : Agree hash s0 L0) (ops : List (Op R))
    (hops : ∀ op, op ∈ ops → OpOK hash s0.bs s0.nb s0.lf op) :
    ∃ s outs, run I hash kicks s0 ops = some (s, outs) ∧ outs.length = ops.length ∧
      SameParams s0 s ∧ Inv hash s ∧
      Matches hash s (ledger hash s0.nb s0.lf L0 (ops.zip outs)) := by
  obtain ⟨s, outs, h1, h2, h3, h4, h5⟩ := run_spec I hI hash kicks ops s0 L0 hinv hag hops
  exact ⟨s, outs, h1, h2, h3, h4, h5.matches h4⟩

/-- `query` reads only the parameters and the table -/
theorem query_congr {R : Type} (hash : List Nat → Nat) {s s' : St R} (hp : SameParams s s')
    (ht : s'.table = s.table) (y : Nat) : query hash s' y = query hash s y := by
  unfold query
  simp only [start, hp.1, hp.2.1, hp.2.2, ht]

end Pds.Cuckoo
