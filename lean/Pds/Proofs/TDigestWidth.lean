import Pds.Proofs.TDigestScaleLog
import Mathlib.Analysis.SpecialFunctions.Trigonometric.Bounds
import Mathlib.Analysis.SpecialFunctions.Sigmoid
import Mathlib.Analysis.Calculus.Deriv.MeanValue
/-!
Helper lemmas for the t-digest model, part 10 (C04): the *upper* k-size invariant of the merge pass.
Every centroid the pass *forms* (by fusing at least two of its inputs) ends at or before the limit
`lim sf n q0 = f⁻¹(f(q0) + 1)` that was in force for it, i.e. spans at most 1 in k-space (`Tight`).
Per scale function, `lim sf n q0 − q0` is at most the maximal cluster width `W` in q-space
(`2/δ` for `K0`, `π/δ` for `K1`, `1/(4·x(n))` for `K2`, `1/(2·x(n))` for `K3`), so a formed centroid
weighs at most `W·S`.
-/
set_option linter.unusedSectionVars false
namespace Pds.TDigest

section Generic
variable {α : Type} [Field α] [LinearOrder α] [IsStrictOrderedRing α]

/-- upper k-size invariant: every output centroid is one of the pass's input centroids unchanged
(`a ∈ ins`; membership is up to equality of the `(sum, count)` record), or ends at or before the
limit that was in force for it (`q0` = weight fraction to its left, `S` = the total weight the pass
divides by, `n` = the sample count it passes to the scale function) -/
def Tight (sf : ScaleFn α) (n : Nat) (S : α) (ins : List (Centroid α)) : α → List (Centroid α) → Prop
  | _, [] => True
  | q0, a :: rest =>
    (a ∈ ins ∨ q0 + a.count / S ≤ lim sf n q0) ∧ Tight sf n S ins (q0 + a.count / S) rest

/-- a list of input centroids is tight -/
theorem tight_of_mem (sf : ScaleFn α) (n : Nat) (S : α) {ins : List (Centroid α)} :
    ∀ (l : List (Centroid α)) (q0 : α), (∀ c ∈ l, c ∈ ins) → Tight sf n S ins q0 l
  | [], _, _ => trivial
  | a :: rest, q0, h =>
    ⟨Or.inl (h a (by simp)), tight_of_mem sf n S rest _ (fun c hc => h c (by simp [hc]))⟩

/-- only membership in the input list matters -/
theorem Tight.mono {sf : ScaleFn α} {n : Nat} {S : α} {ins ins' : List (Centroid α)}
    (hsub : ∀ c ∈ ins, c ∈ ins') :
    ∀ {l : List (Centroid α)} {q0 : α}, Tight sf n S ins q0 l → Tight sf n S ins' q0 l
  | [], _, _ => trivial
  | _ :: _, _, h => ⟨h.1.imp (hsub _) id, Tight.mono hsub h.2⟩

/-- the generalised induction: the pass is run with an arbitrary limit `ql`; if the current centroid
is an input or ends at or before `ql`, and everything still to come is an input, then the head of the
output is an input or ends at or before `ql`, and the rest of the output is tight -/
theorem ml_tight_aux (sf : ScaleFn α) (n : Nat) (S : α) (ins : List (Centroid α))
    (rest : List (Centroid α)) (cur : Centroid α) (q0 ql : α)
    (hcur : cur ∈ ins ∨ q0 + cur.count / S ≤ ql) (hrest : ∀ c ∈ rest, c ∈ ins) :
    ∃ h t, ml sf n S rest cur q0 ql = h :: t ∧ (h ∈ ins ∨ q0 + h.count / S ≤ ql) ∧
      Tight sf n S ins (q0 + h.count / S) t := by
  induction rest generalizing cur q0 ql with
  | nil => exact ⟨cur, [], rfl, hcur, trivial⟩
  | cons next rest ih =>
    have hr : ∀ c ∈ rest, c ∈ ins := fun c hc => hrest c (by simp [hc])
    unfold ml
    split
    · rename_i hle
      exact ih (cur.fuse next) q0 ql (Or.inr (by simpa only [fuse_count] using hle)) hr
    · obtain ⟨h, t, e, hh, ht⟩ := ih next (q0 + cur.count / S) (lim sf n (q0 + cur.count / S))
        (Or.inl (hrest next (by simp))) hr
      refine ⟨cur, h :: t, ?_, hcur, hh, ht⟩
      change cur :: ml sf n S rest next (q0 + cur.count / S) (lim sf n (q0 + cur.count / S)) = _
      rw [e]

/-- the merge pass establishes the upper k-size invariant (any scale function, any `S`) -/
theorem ml_tight (sf : ScaleFn α) (n : Nat) (S : α) (rest : List (Centroid α)) (cur : Centroid α)
    (q0 : α) : Tight sf n S (cur :: rest) q0 (ml sf n S rest cur q0 (lim sf n q0)) := by
  obtain ⟨h, t, e, hh, ht⟩ := ml_tight_aux sf n S (cur :: rest) rest cur q0 (lim sf n q0)
    (Or.inl (by simp)) (fun c hc => by simp [hc])
  rw [e]; exact ⟨hh, ht⟩

theorem mergeLoop_tight (sf : ScaleFn α) (n : Nat) (S : α) (rest : List (Centroid α))
    (cur : Centroid α) (q0 : α) :
    Tight sf n S (cur :: rest) q0 (mergeLoop sf n S rest cur q0 (lim sf n q0) []) := by
  rw [mergeLoop_eq]; exact ml_tight sf n S rest cur q0

/-- `merge`: the new centroids are tight w.r.t. their own total weight, the current sample count and
the old centroids and backlog as inputs (trivially so when the backlog is empty: nothing is formed) -/
theorem merge_tight (sf : ScaleFn α) (s : St α) :
    Tight sf s.nSamples (sumCount (merge sf s).centroids) (s.centroids ++ s.backlog) 0
      (merge sf s).centroids := by
  rcases merge_cases sf s with ⟨_, e⟩ | ⟨_, c0, rest, hperm, _, e⟩
  · rw [e]; exact tight_of_mem _ _ _ _ _ (fun c hc => by simp [hc])
  · rw [e]
    simp only []
    rw [(ml_fused _ _ _ _ _ _ _).sumCount]
    exact (ml_tight sf s.nSamples _ rest c0 0).mono (fun c hc => hperm.mem_iff.1 hc)

/-- from `Tight` to weights: if `lim q − q ≤ W` for every `q ∈ [q0, 1)`, every centroid of a tight
list that lies inside `[q0, 1]` is an input or weighs at most `W·S` -/
theorem tight_width {sf : ScaleFn α} {n : Nat} {S : α} (hS : 0 < S) {ins : List (Centroid α)} {W : α} :
    ∀ (l : List (Centroid α)) (q0 : α), Tight sf n S ins q0 l → (∀ c ∈ l, 0 < c.count) →
      q0 + sumCount l / S ≤ 1 → (∀ q, q0 ≤ q → q < 1 → lim sf n q - q ≤ W) →
      ∀ c ∈ l, c ∈ ins ∨ c.count / S ≤ W
  | [], _, _, _, _, _ => by simp
  | a :: rest, q0, ht, hp, h1, hw => by
    have ha : 0 < a.count / S := div_pos (hp a (by simp)) hS
    have hr : 0 ≤ sumCount rest / S :=
      div_nonneg (sumCount_nonneg (fun d hd => hp d (by simp [hd]))) hS.le
    have hsplit : q0 + sumCount (a :: rest) / S = q0 + a.count / S + sumCount rest / S := by
      simp only [sumCount_cons]; ring
    rw [hsplit] at h1
    intro c hc
    rcases List.mem_cons.1 hc with rfl | hc
    · rcases ht.1 with hin | hle
      · exact Or.inl hin
      · right
        have := hw q0 le_rfl (by linarith)
        linarith
    · exact tight_width hS rest (q0 + a.count / S) ht.2 (fun d hd => hp d (by simp [hd])) h1
        (fun q hq hq1 => hw q (by linarith) hq1) c hc

/-- `merge`, every centroid: if `lim q − q ≤ W` on `[0, 1)`, every centroid after `merge` is one of the
old centroids / backlog entries or weighs at most `W` of the total -/
theorem merge_width (sf : ScaleFn α) (s : St α) (hpos : ∀ c ∈ (merge sf s).centroids, 0 < c.count)
    {W : α} (hw : ∀ q, 0 ≤ q → q < 1 → lim sf s.nSamples q - q ≤ W) :
    ∀ c ∈ (merge sf s).centroids,
      c ∈ s.centroids ++ s.backlog ∨ c.count / sumCount (merge sf s).centroids ≤ W := by
  by_cases hne : (merge sf s).centroids = []
  · rw [hne]; simp
  · have hS := sumCount_pos hpos hne
    exact tight_width hS _ 0 (merge_tight sf s) hpos (by rw [zero_add, div_self hS.ne']) hw

/-- `merge`, every centroid but the first: here `lim q − q ≤ W` is only needed on the open interval
`(0, 1)` (the first centroid is the only one that starts at `q0 = 0`) -/
theorem merge_width_tail (sf : ScaleFn α) (s : St α) (hpos : ∀ c ∈ (merge sf s).centroids, 0 < c.count)
    {W : α} (hw : ∀ q, 0 < q → q < 1 → lim sf s.nSamples q - q ≤ W) :
    ∀ c ∈ (merge sf s).centroids.tail,
      c ∈ s.centroids ++ s.backlog ∨ c.count / sumCount (merge sf s).centroids ≤ W := by
  have ht := merge_tight sf s
  revert ht hpos
  generalize (merge sf s).centroids = l
  intro hpos ht
  cases l with
  | nil => simp
  | cons a t =>
    have hS := sumCount_pos hpos (by simp)
    have ha : 0 < a.count / sumCount (a :: t) := div_pos (hpos a (by simp)) hS
    refine tight_width hS t (0 + a.count / sumCount (a :: t)) ht.2
      (fun d hd => hpos d (by simp [hd])) ?_ (fun q hq hq1 => hw q (by linarith) hq1)
    have e : 0 + a.count / sumCount (a :: t) + sumCount t / sumCount (a :: t)
        = sumCount (a :: t) / sumCount (a :: t) := by
      simp only [sumCount_cons]; ring
    rw [e, div_self hS.ne']

/-! ### `K0` -/

/-- for `K0` the limit is `min (q0 + 2/δ) 1` on `[0, 1]` -/
theorem lim_width_k0 {δ : α} (hδ : 0 < δ) (n : Nat) {q0 : α} (h0 : 0 ≤ q0) (h1 : q0 ≤ 1) :
    lim (k0 δ) n q0 - q0 ≤ 2 / δ := by
  have h2 : (1 + 1 : α) = 2 := by norm_num
  have hd : 0 < 2 / δ := by positivity
  simp only [lim, k0, h2, not_lt.2 h1, not_lt.2 h0, if_false]
  have hk : ¬ (δ / 2 * q0 + 1 < 0) := by
    have : 0 ≤ δ / 2 * q0 := by positivity
    linarith
  by_cases hc : δ / 2 < δ / 2 * q0 + 1
  · have : ¬ (δ / 2 < 0) := by
      have : 0 < δ / 2 := by positivity
      linarith
    simp only [hc, if_true, this, if_false]
    have e : δ / 2 * 2 / δ = 1 := by field_simp
    rw [e]
    have e2 : (δ / 2 * q0 + 1) * (2 / δ) = q0 + 2 / δ := by field_simp
    have := mul_lt_mul_of_pos_right hc hd
    rw [e2] at this
    have e3 : δ / 2 * (2 / δ) = 1 := by field_simp
    rw [e3] at this
    linarith
  · simp only [hc, if_false, hk]
    have e : (δ / 2 * q0 + 1) * 2 / δ = q0 + 2 / δ := by field_simp
    rw [e]
    linarith

end Generic

/-! ### `K1` over `ℝ` -/

/-- `K1`: `k = δ/(2π)·asin(2q − 1)`; `sin` is 1-Lipschitz, so one unit of `k` is at most `π/δ` of `q`.
The clamping of `k` in `fInv` only moves the limit to the left (never below `q0`). -/
theorem lim_width_k1 {δ : ℝ} (hδ : 0 < δ) (n : Nat) {q0 : ℝ} (h0 : 0 ≤ q0) (h1 : q0 ≤ 1) :
    lim (k1 δ) n q0 - q0 ≤ Real.pi / δ := by
  have hpi := Real.pi_pos
  have hc : 0 ≤ δ / (2 * Real.pi) := by positivity
  rw [lim, k1_f_eq δ n h0 h1, k1_fInv_eq]
  set a := Real.arcsin (2 * q0 - 1) with ha
  have ha1 := Real.arcsin_le_pi_div_two (2 * q0 - 1)
  have ha2 := Real.neg_pi_div_two_le_arcsin (2 * q0 - 1)
  have hq : δ / (2 * Real.pi) * (Real.pi / 2) = δ / 4 := by field_simp; ring
  have hin1 : -(δ / 4) ≤ δ / (2 * Real.pi) * a := by
    have := mul_le_mul_of_nonneg_left ha2 hc
    rw [mul_neg, hq] at this; exact this
  have hin2 : δ / (2 * Real.pi) * a ≤ δ / 4 := by
    have := mul_le_mul_of_nonneg_left ha1 hc
    rw [hq] at this; exact this
  set k := δ / (2 * Real.pi) * a with hk
  set c := clampTo (k + 1) (-(δ / 4)) (δ / 4) with hcdef
  have hc1 : c ≤ k + 1 := by
    rw [hcdef]; simp only [clampTo]; split_ifs <;> linarith
  have hc2 : k ≤ c := by
    rw [hcdef]; simp only [clampTo]; split_ifs <;> linarith
  have hpos : 0 < 2 * Real.pi / δ := by positivity
  have eθ : c * 2 * Real.pi / δ = a + (c - k) * (2 * Real.pi / δ) := by
    rw [hk]; field_simp; ring
  have hd0 : 0 ≤ (c - k) * (2 * Real.pi / δ) := mul_nonneg (by linarith) hpos.le
  have hd1 : (c - k) * (2 * Real.pi / δ) ≤ 2 * Real.pi / δ := by
    have := mul_le_mul_of_nonneg_right (show c - k ≤ 1 by linarith) hpos.le
    linarith
  have hsin : Real.sin (c * 2 * Real.pi / δ) - Real.sin a ≤ 2 * Real.pi / δ := by
    have h := Real.abs_sin_sub_sin_le (c * 2 * Real.pi / δ) a
    have h' := le_abs_self (Real.sin (c * 2 * Real.pi / δ) - Real.sin a)
    rw [eθ] at h h' ⊢
    rw [add_sub_cancel_left, abs_of_nonneg hd0] at h
    linarith
  have hq0 : Real.sin a = 2 * q0 - 1 := by
    rw [ha]; exact Real.sin_arcsin (by linarith) (by linarith)
  have e : Real.pi / δ = 2 * Real.pi / δ / 2 := by ring
  rw [e]
  linarith

/-! ### `K2` over `ℝ` -/

/-- the logistic function is `1/4`-Lipschitz (its derivative is `σ(1 − σ) ≤ 1/4`) -/
theorem sigmoid_sub_le {u v : ℝ} (huv : u ≤ v) : Real.sigmoid v - Real.sigmoid u ≤ 1 / 4 * (v - u) := by
  apply image_sub_le_mul_sub_of_deriv_le differentiable_sigmoid _ huv
  intro x
  rw [Real.deriv_sigmoid]
  nlinarith [sq_nonneg (Real.sigmoid x - 1 / 2)]

theorem exp_div_eq_sigmoid (u : ℝ) : Real.exp u / (Real.exp u + 1) = Real.sigmoid u := by
  have h := Real.exp_pos u
  rw [Real.sigmoid_def, Real.exp_neg]
  field_simp

/-- `K2`: `k = x(n)·logit q`; the logistic function is `1/4`-Lipschitz, so one unit of `k` is at most
`1/(4·x(n))` of `q`.  Open interval: at `q0 = 0` the model's `f 0 = x(n)·log 0` is `0` over `ℝ`
(Mathlib's `log 0 = 0`; in `f64` it is `−∞` and the limit is `0`), so `lim 0 = σ(1/x(n)) ≥ 1/2` and the
bound fails there as soon as `x(n) > 1/2`. -/
theorem lim_width_k2 {δ c : ℝ} {n : Nat} (hx : 0 < scaleX δ c n) {q0 : ℝ} (h0 : 0 < q0) (h1 : q0 < 1) :
    lim (k2 δ c) n q0 - q0 ≤ 1 / (4 * scaleX δ c n) := by
  rw [lim, k2_f_eq δ c n h0.le h1.le, k2_fInv_eq, exp_div_eq_sigmoid]
  set x := scaleX δ c n with hxdef
  set L := Real.log (q0 / (1 - q0)) with hL
  have h1q : 0 < 1 - q0 := by linarith
  have e : (x * L + 1) / x = L + 1 / x := by field_simp
  have hq : q0 = Real.sigmoid L := by
    rw [← exp_div_eq_sigmoid, hL, Real.exp_log (div_pos h0 h1q)]
    field_simp
    ring
  rw [e]
  have hpos : 0 < 1 / x := by positivity
  have := sigmoid_sub_le (show L ≤ L + 1 / x by linarith)
  have e2 : 1 / 4 * (L + 1 / x - L) = 1 / (4 * x) := by field_simp; ring
  rw [e2] at this
  calc Real.sigmoid (L + 1 / x) - q0 = Real.sigmoid (L + 1 / x) - Real.sigmoid L := by rw [← hq]
    _ ≤ 1 / (4 * x) := this

/-- the `W` of `K2` as named by the property: `1/(4·x(n)) = (ln(n/δ) + 6)/δ` (no side condition:
both sides are `0` when a denominator vanishes) -/
theorem k2_width_eq (δ : ℝ) (n : Nat) :
    1 / (4 * scaleX δ 24 n) = (Real.log ((n : ℝ) / δ) + 6) / δ := by
  rw [scaleX_eq, one_div, mul_inv, inv_div, ← div_eq_inv_mul, div_div]
  have e : 4 * Real.log ((n : ℝ) / δ) + 24 = 4 * (Real.log ((n : ℝ) / δ) + 6) := by ring
  rw [e, mul_comm δ 4, mul_div_mul_left _ _ (by norm_num : (4 : ℝ) ≠ 0)]

/-! ### `K3` over `ℝ` -/

/-- `K3`'s inverse `g(u) = e^u/2` (`u ≤ 0`), `1 − e^(−u)/2` (`u > 0`) is `1/2`-Lipschitz -/
theorem k3_inv_sub_le {u v : ℝ} (huv : u ≤ v) :
    (if v ≤ 0 then Real.exp v / 2 else 1 - Real.exp (-v) / 2)
      - (if u ≤ 0 then Real.exp u / 2 else 1 - Real.exp (-u) / 2) ≤ (v - u) / 2 := by
  have key : ∀ {s t : ℝ}, s ≤ t → t ≤ 0 → Real.exp t - Real.exp s ≤ t - s := by
    intro s t hst ht
    have h1 : Real.exp t ≤ 1 := by rw [← Real.exp_zero]; exact Real.exp_le_exp.2 ht
    have h2 := Real.add_one_le_exp (s - t)
    have h3 : Real.exp s = Real.exp t * Real.exp (s - t) := by rw [← Real.exp_add]; ring_nf
    have h4 := Real.exp_pos t
    rw [h3]
    nlinarith
  by_cases hv : v ≤ 0
  · have hu : u ≤ 0 := le_trans huv hv
    simp only [hv, hu, if_true]
    have := key huv hv
    linarith
  · by_cases hu : u ≤ 0
    · simp only [hv, hu, if_true, if_false]
      have h1 := Real.add_one_le_exp (-v)
      have h2 := Real.add_one_le_exp u
      linarith
    · simp only [hv, hu, if_false]
      have := key (show -v ≤ -u by linarith) (by linarith : -u ≤ 0)
      linarith

/-- `K3`: one unit of `k` is at most `1/(2·x(n))` of `q`.  Open interval, for the same reason as for
`K2`: at `q0 = 0` the model's `f 0 = x(n)·log 0 = 0` over `ℝ`, so `lim 0 = 1 − e^(−1/x(n))/2 ≥ 1/2`. -/
theorem lim_width_k3 {δ c : ℝ} {n : Nat} (hx : 0 < scaleX δ c n) {q0 : ℝ} (h0 : 0 < q0) (h1 : q0 < 1) :
    lim (k3 δ c) n q0 - q0 ≤ 1 / (2 * scaleX δ c n) := by
  rw [lim, k3_f_eq δ c n h0.le h1.le, k3_fInv_eq]
  set x := scaleX δ c n with hxdef
  have hq : q0 = if (if q0 ≤ 1 / 2 then Real.log (2 * q0) else -Real.log (2 * (1 - q0))) ≤ 0
      then Real.exp (if q0 ≤ 1 / 2 then Real.log (2 * q0) else -Real.log (2 * (1 - q0))) / 2
      else 1 - Real.exp (-(if q0 ≤ 1 / 2 then Real.log (2 * q0) else -Real.log (2 * (1 - q0)))) / 2 := by
    by_cases ha : q0 ≤ 1 / 2
    · have hl : Real.log (2 * q0) ≤ 0 := Real.log_nonpos (by linarith) (by linarith)
      simp only [ha, if_true, hl]
      rw [Real.exp_log (by linarith)]; ring
    · have hl : ¬ -Real.log (2 * (1 - q0)) ≤ 0 := by
        have := Real.log_neg (show 0 < 2 * (1 - q0) by linarith) (by linarith)
        linarith
      simp only [ha, if_false, hl, neg_neg]
      rw [Real.exp_log (by linarith)]; ring
  set y := (if q0 ≤ 1 / 2 then Real.log (2 * q0) else -Real.log (2 * (1 - q0))) with hy
  have hxv : x * y + 1 = x * (y + 1 / x) := by field_simp
  have hiff : x * y + 1 ≤ 0 ↔ y + 1 / x ≤ 0 := by
    rw [hxv]
    constructor
    · intro h
      by_contra hn
      have := mul_pos hx (not_le.1 hn)
      linarith
    · intro h; exact mul_nonpos_of_nonneg_of_nonpos hx.le h
  have e1 : (x * y + 1) / x = y + 1 / x := by field_simp
  have e2 : -(x * y + 1) / x = -(y + 1 / x) := by field_simp
  simp only [hiff, e1, e2]
  have hpos : 0 < 1 / x := by positivity
  have := k3_inv_sub_le (show y ≤ y + 1 / x by linarith)
  rw [← hq] at this
  have e3 : (y + 1 / x - y) / 2 = 1 / (2 * x) := by field_simp; ring
  rw [e3] at this
  exact this

/-- the `W` of `K3` as named by the property: `1/(2·x(n)) = (2·ln(n/δ) + 10.5)/δ` -/
theorem k3_width_eq (δ : ℝ) (n : Nat) :
    1 / (2 * scaleX δ 21 n) = (2 * Real.log ((n : ℝ) / δ) + 10.5) / δ := by
  rw [scaleX_eq, one_div, mul_inv, inv_div, ← div_eq_inv_mul, div_div]
  have e : 4 * Real.log ((n : ℝ) / δ) + 21 = 2 * (2 * Real.log ((n : ℝ) / δ) + 10.5) := by ring
  rw [e, mul_comm δ 2, mul_div_mul_left _ _ (by norm_num : (2 : ℝ) ≠ 0)]

end Pds.TDigest
