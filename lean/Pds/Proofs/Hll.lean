import Pds.Model.Hll
/-! Helper lemmas for the HyperLogLog register machine (C17, C06, C19, C20). -/
namespace Pds.Hll

/-- Well-formed sketch: what the constructor guarantees. -/
def Valid (s : St) : Prop := 4 ≤ s.b ∧ s.b ≤ 18 ∧ s.regs.size = 2 ^ s.b

theorem withRegisters_eq_some {b : Nat} {regs : Array Nat} {s : St} :
    withRegisters b regs = some s ↔ (4 ≤ b ∧ b ≤ 18 ∧ regs.size = 2 ^ b) ∧ s = ⟨b, regs⟩ := by
  unfold withRegisters
  split <;> simp_all [eq_comm]

theorem new_valid {b : Nat} {s : St} (h : new b = some s) :
    Valid s ∧ s.b = b ∧ s.regs = Array.replicate (2 ^ b) 0 := by
  unfold new at h
  split at h
  · rw [withRegisters_eq_some] at h
    obtain ⟨h1, rfl⟩ := h
    exact ⟨h1, rfl, rfl⟩
  · cases h

theorem new_some {b : Nat} (hb : 4 ≤ b ∧ b ≤ 18) : new b = some ⟨b, Array.replicate (2 ^ b) 0⟩ := by
  unfold new withRegisters
  simp [hb.1, hb.2]

/-- register `j` (0 outside the array) -/
def reg (s : St) (j : Nat) : Nat := s.regs[j]?.getD 0

theorem addHashed_some {s : St} (hv : Valid s) (h : Nat) :
    ∃ s', addHashed s h = some s' ∧ Valid s' ∧ s'.b = s.b ∧
      ∀ j, reg s' j = if h % 2 ^ s.b = j then max (reg s j) (rank s.b h) else reg s j := by
  have hj : h % 2 ^ s.b < s.regs.size := by
    rw [hv.2.2]; exact Nat.mod_lt _ (Nat.two_pow_pos _)
  refine ⟨{ s with regs := s.regs.set (h % 2 ^ s.b) (max s.regs[h % 2 ^ s.b] (rank s.b h)) }, ?_, ?_, rfl, ?_⟩
  · unfold addHashed; simp only [hj, dite_true]
  · exact ⟨hv.1, hv.2.1, by simpa using hv.2.2⟩
  · intro j
    simp only [reg, Array.getElem?_set]
    split
    · rename_i e; subst e; simp [hj]
    · rfl

/-- The largest rank among the hashes of `hs` that address register `j` (0 if none). -/
def maxRank (b : Nat) (hs : List Nat) (j : Nat) : Nat :=
  hs.foldl (fun m h => if h % 2 ^ b = j then max m (rank b h) else m) 0

theorem foldl_maxRank_ge (b j : Nat) (hs : List Nat) (m0 : Nat) :
    m0 ≤ hs.foldl (fun m h => if h % 2 ^ b = j then max m (rank b h) else m) m0 := by
  induction hs generalizing m0 with
  | nil => simp
  | cons h hs ih =>
    simp only [List.foldl_cons]
    split
    · exact Nat.le_trans (Nat.le_max_left _ _) (ih _)
    · exact ih _

/-- Characterisation of the fold as a least upper bound that is attained. -/
theorem foldl_maxRank_spec (b j : Nat) (hs : List Nat) (m0 : Nat) :
    let r := hs.foldl (fun m h => if h % 2 ^ b = j then max m (rank b h) else m) m0
    (∀ h ∈ hs, h % 2 ^ b = j → rank b h ≤ r) ∧ m0 ≤ r ∧
    (r = m0 ∨ ∃ h ∈ hs, h % 2 ^ b = j ∧ rank b h = r) := by
  induction hs generalizing m0 with
  | nil => simp
  | cons h hs ih =>
    simp only [List.foldl_cons]
    split
    · rename_i hj
      obtain ⟨h1, h2, h3⟩ := ih (max m0 (rank b h))
      refine ⟨?_, Nat.le_trans (Nat.le_max_left _ _) h2, ?_⟩
      · intro x hx hxj
        rcases List.mem_cons.mp hx with rfl | hx
        · exact Nat.le_trans (Nat.le_max_right _ _) h2
        · exact h1 x hx hxj
      · rcases h3 with h3 | ⟨x, hx, hxj, hxr⟩
        · rcases Nat.le_total m0 (rank b h) with hle | hle
          · right; exact ⟨h, List.mem_cons_self, hj, by rw [h3, Nat.max_eq_right hle]⟩
          · left; rw [h3, Nat.max_eq_left hle]
        · right; exact ⟨x, List.mem_cons_of_mem _ hx, hxj, hxr⟩
    · obtain ⟨h1, h2, h3⟩ := ih m0
      refine ⟨?_, h2, ?_⟩
      · intro x hx hxj
        rcases List.mem_cons.mp hx with rfl | hx
        · contradiction
        · exact h1 x hx hxj
      · rcases h3 with h3 | ⟨x, hx, hxj, hxr⟩
        · left; exact h3
        · right; exact ⟨x, List.mem_cons_of_mem _ hx, hxj, hxr⟩

theorem maxRank_spec (b j : Nat) (hs : List Nat) :
    (∀ h ∈ hs, h % 2 ^ b = j → rank b h ≤ maxRank b hs j) ∧
    (maxRank b hs j = 0 ∨ ∃ h ∈ hs, h % 2 ^ b = j ∧ rank b h = maxRank b hs j) := by
  have := foldl_maxRank_spec b j hs 0
  exact ⟨this.1, this.2.2⟩

/-- `maxRank` depends only on the *set* of hashes. -/
theorem maxRank_congr (b j : Nat) {hs hs' : List Nat} (hset : ∀ h, h ∈ hs ↔ h ∈ hs') :
    maxRank b hs j = maxRank b hs' j := by
  obtain ⟨u1, a1⟩ := maxRank_spec b j hs
  obtain ⟨u2, a2⟩ := maxRank_spec b j hs'
  apply Nat.le_antisymm
  · rcases a1 with a1 | ⟨x, hx, hxj, hxr⟩
    · omega
    · rw [← hxr]; exact u2 x ((hset x).mp hx) hxj
  · rcases a2 with a2 | ⟨x, hx, hxj, hxr⟩
    · omega
    · rw [← hxr]; exact u1 x ((hset x).mpr hx) hxj

theorem foldlM_addHashed_spec (hs : List Nat) (s : St) (hv : Valid s) :
    ∃ s', hs.foldlM addHashed s = some s' ∧ Valid s' ∧ s'.b = s.b ∧
      ∀ j, reg s' j =
        hs.foldl (fun m h => if h % 2 ^ s.b = j then max m (rank s.b h) else m) (reg s j) := by
  induction hs generalizing s with
  | nil => exact ⟨s, rfl, hv, rfl, fun j => rfl⟩
  | cons h hs ih =>
    obtain ⟨s1, e1, v1, b1, r1⟩ := addHashed_some hv h
    obtain ⟨s2, e2, v2, b2, r2⟩ := ih s1 v1
    refine ⟨s2, ?_, v2, by rw [b2, b1], ?_⟩
    · simp [List.foldlM_cons, e1, e2]
    · intro j
      rw [r2 j, b1, List.foldl_cons, r1 j]

theorem run_spec {b : Nat} (hb : 4 ≤ b ∧ b ≤ 18) (hs : List Nat) :
    ∃ s, run b hs = some s ∧ Valid s ∧ s.b = b ∧ ∀ j, reg s j = maxRank b hs j := by
  have hv : Valid (⟨b, Array.replicate (2 ^ b) 0⟩ : St) := ⟨hb.1, hb.2, by simp⟩
  obtain ⟨s, e, v, bb, r⟩ := foldlM_addHashed_spec hs _ hv
  refine ⟨s, ?_, v, bb, ?_⟩
  · unfold run; rw [new_some hb]; exact e
  · intro j
    rw [r j]
    have : reg (⟨b, Array.replicate (2 ^ b) 0⟩ : St) j = 0 := by
      simp only [reg, Array.getElem?_replicate]; split <;> rfl
    rw [this]; rfl

theorem St.ext' {s t : St} (hb : s.b = t.b) (hr : s.regs = t.regs) : s = t := by
  cases s; cases t; simp_all

theorem valid_ext {s t : St} (hs : Valid s) (ht : Valid t) (hb : s.b = t.b)
    (h : ∀ j, reg s j = reg t j) : s = t := by
  apply St.ext' hb
  apply Array.ext
  · rw [hs.2.2, ht.2.2, hb]
  · intro i h1 h2
    have := h i
    simpa [reg, h1, h2] using this

end Pds.Hll

namespace Pds.Hll

theorem clz64_of_bounds {w k : Nat} (_hk : k < 64) (h1 : 2 ^ k ≤ w) (h2 : w < 2 ^ (k + 1)) :
    clz64 w = 63 - k := by
  have hw : w ≠ 0 := by
    intro h; subst h; have := Nat.two_pow_pos k; omega
  unfold clz64
  rw [if_neg hw, (Nat.log2_eq_iff hw).mpr ⟨h1, h2⟩]

/-- If the first set bit of `h` (counting from bit 63 downwards, 1-based) is at position `t`,
i.e. bit `64 - t` is set and all higher bits are clear, then `rank b h = t`
(for positions above the `b` index bits). -/
theorem rank_of_first_bit {b h t : Nat} (hb : b ≤ 18) (ht1 : 1 ≤ t) (ht2 : t ≤ 64 - b)
    (hset : h.testBit (64 - t) = true)
    (hclr : ∀ i, 64 - t < i → h.testBit i = false) : rank b h = t := by
  have hlo : 2 ^ (64 - t) ≤ h := Nat.ge_two_pow_of_testBit hset
  have hhi : h < 2 ^ (64 - t + 1) := Nat.lt_pow_two_of_testBit h (fun i hi => hclr i (by omega))
  -- divide by 2^b
  have e1 : 64 - t = (64 - t - b) + b := by omega
  have hlo' : 2 ^ (64 - t - b) ≤ h / 2 ^ b := by
    rw [Nat.le_div_iff_mul_le (Nat.two_pow_pos b), ← Nat.pow_add, ← e1]; exact hlo
  have hhi' : h / 2 ^ b < 2 ^ (64 - t - b + 1) := by
    rw [Nat.div_lt_iff_lt_mul (Nat.two_pow_pos b), ← Nat.pow_add]
    have : 64 - t - b + 1 + b = 64 - t + 1 := by omega
    rw [this]; exact hhi
  unfold rank
  rw [clz64_of_bounds (by omega) hlo' hhi']
  omega

theorem rank_of_no_bit {b h : Nat} (hb : b ≤ 18) (hz : h / 2 ^ b = 0) : rank b h = 64 - b + 1 := by
  unfold rank clz64
  rw [hz, if_pos rfl]; omega

theorem rank_le {b h : Nat} : rank b h ≤ 65 - b := by
  unfold rank clz64
  split <;> omega

end Pds.Hll
