import Pds.Proofs.TDigestScale
import Mathlib.Analysis.SpecialFunctions.Trigonometric.Inverse
import Mathlib.Analysis.SpecialFunctions.Log.Basic
/-!
Helper lemmas for the t-digest model, part 7 (C04): the transcendental scale functions over `ℝ`.
`ScaleOps ℝ` is instantiated with Mathlib's `Real.pi`, `Real.sin`, `Real.arcsin`, `Real.log`,
`Real.exp`; `isInf` is constantly `false` (there are no infinities in a field).
-/
set_option linter.unusedSectionVars false
namespace Pds.TDigest

noncomputable instance realScaleOps : ScaleOps ℝ where
  pi := Real.pi
  sin := Real.sin
  asin := Real.arcsin
  log := Real.log
  exp := Real.exp
  isInf := fun _ => false
  ofNat := Nat.cast

@[simp] theorem scaleOps_pi : (ScaleOps.pi : ℝ) = Real.pi := rfl
@[simp] theorem scaleOps_sin (x : ℝ) : ScaleOps.sin x = Real.sin x := rfl
@[simp] theorem scaleOps_asin (x : ℝ) : ScaleOps.asin x = Real.arcsin x := rfl
@[simp] theorem scaleOps_log (x : ℝ) : ScaleOps.log x = Real.log x := rfl
@[simp] theorem scaleOps_exp (x : ℝ) : ScaleOps.exp x = Real.exp x := rfl
@[simp] theorem scaleOps_isInf (x : ℝ) : ScaleOps.isInf x = false := rfl
@[simp] theorem scaleOps_ofNat (n : Nat) : (ScaleOps.ofNat n : ℝ) = (n : ℝ) := rfl

@[simp] theorem two_eq : (two : ℝ) = 2 := by unfold two; norm_num
@[simp] theorem four_eq : (four : ℝ) = 4 := by unfold four; simp; norm_num

theorem clampTo_of_mem {x lo hi : ℝ} (h1 : lo ≤ x) (h2 : x ≤ hi) : clampTo x lo hi = x := by
  unfold clampTo; simp [not_lt.2 h1, not_lt.2 h2]

theorem clampTo_mem {lo hi : ℝ} (h : lo ≤ hi) (x : ℝ) : lo ≤ clampTo x lo hi ∧ clampTo x lo hi ≤ hi := by
  simp only [clampTo]
  constructor <;> split_ifs <;> linarith

theorem clampTo_mono {lo hi : ℝ} {x y : ℝ} (hxy : x ≤ y) : clampTo x lo hi ≤ clampTo y lo hi := by
  simp only [clampTo]
  split_ifs <;> linarith

/-! ### `K1` -/

theorem k1_f_eq (δ : ℝ) (n : Nat) {q : ℝ} (h0 : 0 ≤ q) (h1 : q ≤ 1) :
    (k1 δ).f q n = δ / (2 * Real.pi) * Real.arcsin (2 * q - 1) := by
  simp [k1, clampTo_of_mem h0 h1]

theorem k1_fInv_eq (δ : ℝ) (n : Nat) (k : ℝ) :
    (k1 δ).fInv k n = (Real.sin (clampTo k (-(δ / 4)) (δ / 4) * 2 * Real.pi / δ) + 1) / 2 := by
  simp [k1]

theorem scaleOK_k1 {δ : ℝ} (hδ : 0 < δ) (n : Nat) : ScaleOK (k1 δ) n := by
  have hpi := Real.pi_pos
  have hc : 0 ≤ δ / (2 * Real.pi) := by positivity
  refine ⟨?_, ?_, ?_⟩
  · intro q q' h0 hqq h1
    rw [k1_f_eq δ n h0 (le_trans hqq h1), k1_f_eq δ n (le_trans h0 hqq) h1]
    exact mul_le_mul_of_nonneg_left (Real.monotone_arcsin (by linarith)) hc
  · intro k k' hk
    rw [k1_fInv_eq, k1_fInv_eq]
    have hr : -(δ / 4) ≤ δ / 4 := by linarith
    have hm := clampTo_mem hr k
    have hm' := clampTo_mem hr k'
    have hmono := clampTo_mono (lo := -(δ / 4)) (hi := δ / 4) hk
    have e : ∀ c : ℝ, c * 2 * Real.pi / δ = c * (2 * Real.pi / δ) := fun c => by ring
    have hpos : 0 < 2 * Real.pi / δ := by positivity
    have hq : δ / 4 * (2 * Real.pi / δ) = Real.pi / 2 := by field_simp; ring
    suffices hs : Real.sin (clampTo k (-(δ / 4)) (δ / 4) * 2 * Real.pi / δ)
        ≤ Real.sin (clampTo k' (-(δ / 4)) (δ / 4) * 2 * Real.pi / δ) by
      exact div_le_div_of_nonneg_right (by linarith) (by norm_num)
    rw [e, e]
    apply Real.sin_le_sin_of_le_of_le_pi_div_two
    · have := mul_le_mul_of_nonneg_right hm.1 hpos.le
      rw [neg_mul, hq] at this; exact this
    · have := mul_le_mul_of_nonneg_right hm'.2 hpos.le
      rw [hq] at this; exact this
    · exact mul_le_mul_of_nonneg_right hmono hpos.le
  · intro q h0 h1
    rw [k1_f_eq δ n h0 h1, k1_fInv_eq]
    have ha1 := Real.arcsin_le_pi_div_two (2 * q - 1)
    have ha2 := Real.neg_pi_div_two_le_arcsin (2 * q - 1)
    have hq : δ / (2 * Real.pi) * (Real.pi / 2) = δ / 4 := by field_simp; ring
    have hin1 : -(δ / 4) ≤ δ / (2 * Real.pi) * Real.arcsin (2 * q - 1) := by
      have := mul_le_mul_of_nonneg_left ha2 hc
      rw [mul_neg, hq] at this; exact this
    have hin2 : δ / (2 * Real.pi) * Real.arcsin (2 * q - 1) ≤ δ / 4 := by
      have := mul_le_mul_of_nonneg_left ha1 hc
      rw [hq] at this; exact this
    rw [clampTo_of_mem hin1 hin2]
    have e : δ / (2 * Real.pi) * Real.arcsin (2 * q - 1) * 2 * Real.pi / δ = Real.arcsin (2 * q - 1) := by
      field_simp
    rw [e, Real.sin_arcsin (by linarith) (by linarith)]
    ring

theorem k1_span {δ : ℝ} (n : Nat) : 2 * ((k1 δ).f 1 n - (k1 δ).f 0 n) + 1 = δ + 1 := by
  have hpi := Real.pi_pos
  rw [k1_f_eq δ n zero_le_one le_rfl, k1_f_eq δ n le_rfl zero_le_one]
  have e1 : (2 : ℝ) * 1 - 1 = 1 := by norm_num
  have e0 : (2 : ℝ) * 0 - 1 = -1 := by norm_num
  rw [e1, e0, Real.arcsin_one, Real.arcsin_neg_one]
  field_simp
  ring

end Pds.TDigest
