import Pds.Proofs.QuotientUnion
import Pds.Proofs.QuotientSpec
/-!
`union`, part 2: specification of the walk over one cluster.
-/
namespace Pds.Quotient
variable {N : Nat}

theorem specStep_mem_notfull (U : Finset (Fin N × Nat)) (x y : Fin N × Nat)
    (h : (specStep U x).2 ≠ .full) : y ∈ (specStep U x).1 ↔ (y ∈ U ∨ y = x) := by
  unfold specStep at h ⊢
  by_cases h1 : x ∈ U
  · simp only [h1, if_true]
    constructor
    · exact Or.inl
    · rintro (h2 | rfl)
      · exact h2
      · exact h1
  · by_cases h2 : U.card = N
    · simp [h1, h2] at h
    · simp only [h1, h2, if_false, Finset.mem_insert]
      exact or_comm

/-- a slot that is used but not a continuation starts the run of the next occupied quotient -/
theorem new_run {o : St N} {z : Fin N} {qt : Nat → Nat} (h : LInv o z qt) {j : Nat}
    (hk : j + 1 < N) (hu : (o.at z (j + 1)).used = true) (hu' : (o.at z j).used = true)
    (hc : (o.at z (j + 1)).cont = false) :
    qt j < qt (j + 1) ∧ ∀ a, qt j < a → a < qt (j + 1) → (o.at z a).occ = false := by
  have hm := h.mono (j := j) (k := j + 1) hk (by omega) hu' hu
  have hne : qt j ≠ qt (j + 1) := by
    intro e
    have := (h.cont j hk hu).mpr ⟨hu', e⟩
    rw [hc] at this; cases this
  refine ⟨by omega, ?_⟩
  intro a h1 h2
  cases ho : (o.at z a).occ
  · rfl
  · exfalso
    have hle := h.le (j + 1) hk hu
    obtain ⟨m, hm1, hm2, hm3⟩ := (h.occ a (by omega)).mp ho
    by_cases c : m ≤ j
    · have := h.mono (j := m) (k := j) (by omega) c hm2 hu'; omega
    · have := h.mono (j := j + 1) (k := m) hm1 (by omega) hu hm2; omega

theorem uStep_eval {o : St N} {i j a : Fin N} {fuel : Nat} {queue : List (Fin N)} {t : St N}
    {U : Finset (Fin N × Nat)} (hr : Rep t U) :
    ∃ t1, Rep t1 (specStep U (a, (o.get j).rem)).1 ∧
      uStep o i fuel j t a queue =
        if (specStep U (a, (o.get j).rem)).2 = .full then some (t1, .full)
        else unionCluster o i fuel (incr j) a queue t1 := by
  obtain ⟨t1, h1, h2⟩ := rep_insert hr (a, (o.get j).rem)
  refine ⟨t1, h2, ?_⟩
  unfold uStep
  simp only at h1
  rw [h1]
  cases (specStep U (a, (o.get j).rem)).2 <;> simp

/-- why an insert was rejected: a set `U1` of `N` pairs, all from `U` or from `o`, and one more
pair of `o` outside it -/
def FullWit (o : St N) (z : Fin N) (qt : Nat → Nat) (U : Finset (Fin N × Nat)) : Prop :=
  ∃ (U1 : Finset (Fin N × Nat)) (x : Fin N × Nat),
    (∀ y, y ∈ U1 → y ∈ U ∨ Abs o z qt y.1 y.2) ∧ U1.card = N ∧ x ∉ U1 ∧ Abs o z qt x.1 x.2

/-- what the walk over one cluster returns -/
def ClusterPost (o : St N) (z : Fin N) (qt : Nat → Nat) (k : Nat) (U : Finset (Fin N × Nat))
    (t' : St N) (res : Res) : Prop :=
  (res = .full ∧ FullWit o z qt U) ∨ (res = .ok true ∧ ∃ len U', k ≤ len ∧ len ≤ N ∧
    (∀ m, 0 < m → m < len → (o.at z m).shift = true) ∧
    (len < N → (o.at z len).shift = false) ∧ Rep t' U' ∧
    ∀ x, x ∈ U' ↔ (x ∈ U ∨ ∃ m, k ≤ m ∧ m < len ∧ x = pairAt o z qt m))

theorem unionCluster_spec {o : St N} {z : Fin N} {qt : Nat → Nat} (ho : LInv o z qt)
    (hocc0 : (o.at z 0).occ = true) :
    ∀ fuel j l t U, j + 1 ≤ N → N < j + 1 + fuel →
    (∀ m, 0 < m → m ≤ j → (o.at z m).shift = true) →
    QOk o z (qt j) j l → Rep t U →
    ∃ t' res, unionCluster o z fuel (pos z (j + 1)) (pos z (qt j)) (l.map (pos z)) t = some (t', res) ∧
      ClusterPost o z qt (j + 1) U t' res := by
  intro fuel
  induction fuel with
  | zero => intro j l t U h1 h2; omega
  | succ f ih =>
    intro j l t U hjN hf hsh hQ hr
    have hu' : (o.at z j).used = true := by
      by_cases e : j = 0
      · subst e; exact LInv.used_of_occ hocc0
      · exact LInv.used_of_shift (hsh j (by omega) (Nat.le_refl _))
    rw [unionCluster_succ]
    by_cases hN : j + 1 = N
    · have hz : pos z (j + 1) = z := by
        rw [hN]; have := pos_add_N z 0; simpa using this
      refine ⟨t, .ok true, by simp [hz], Or.inr ⟨rfl, N, U, by omega, Nat.le_refl _, ?_, fun x => by omega, hr, ?_⟩⟩
      · intro m h1 h2; exact hsh m h1 (by omega)
      · intro x; constructor
        · exact Or.inl
        · rintro (h | ⟨m, h1, h2, _⟩)
          · exact h
          · omega
    · have hlt : j + 1 < N := by omega
      have hne : (pos z (j + 1) != z) = true := by
        rw [bne_iff_ne]; intro hp
        have := pos_inj (z := z) hlt (by omega : 0 < N) (by simpa using hp); omega
      cases hs : (o.at z (j + 1)).shift
      · have hs' : (o.get (pos z (j + 1))).shift = false := hs
        refine ⟨t, .ok true, by simp [hs'], Or.inr ⟨rfl, j + 1, U, Nat.le_refl _, by omega, ?_, fun _ => hs, hr, ?_⟩⟩
        · intro m h1 h2; exact hsh m h1 (by omega)
        · intro x; constructor
          · exact Or.inl
          · rintro (h | ⟨m, h1, h2, _⟩)
            · exact h
            · omega
      · have hs' : (o.get (pos z (j + 1))).shift = true := hs
        have hu := LInv.used_of_shift hs
        have hQ1 := hQ.push (ho.le j (by omega) hu')
        have hqueue : (if (o.get (pos z (j + 1))).occ then l.map (pos z) ++ [pos z (j + 1)] else l.map (pos z))
            = (if (o.at z (j + 1)).occ then l ++ [j + 1] else l).map (pos z) := by
          show (if (o.at z (j + 1)).occ then _ else _) = _
          cases (o.at z (j + 1)).occ <;> simp
        -- the common continuation once quotient and queue are determined
        have key : ∀ l2, QOk o z (qt (j + 1)) (j + 1) l2 →
            ∃ t' res, uStep o z f (pos z (j + 1)) t (pos z (qt (j + 1))) (l2.map (pos z)) = some (t', res) ∧
              ClusterPost o z qt (j + 1) U t' res := by
          intro l2 hQ2
          obtain ⟨t1, hr1, he⟩ := uStep_eval (o := o) (i := z) (j := pos z (j + 1))
            (a := pos z (qt (j + 1))) (fuel := f) (queue := l2.map (pos z)) hr
          rw [he]
          by_cases hfull : (specStep U (pos z (qt (j + 1)), (o.get (pos z (j + 1))).rem)).2 = .full
          · rw [if_pos hfull]
            have hf := (specStep_full_iff _ _).mp hfull
            exact ⟨t1, .full, rfl, Or.inl ⟨rfl, U, _, fun y hy => Or.inl hy, hf.2, hf.1,
              ⟨j + 1, hlt, hu, rfl, rfl⟩⟩⟩
          · rw [if_neg hfull, incr_pos]
            obtain ⟨t', res, h1, h2⟩ := ih (j + 1) l2 t1 _ (by omega) (by omega)
              (by
                intro m hm1 hm2
                by_cases e : m = j + 1
                · subst e; exact hs
                · exact hsh m hm1 (by omega))
              hQ2 hr1
            refine ⟨t', res, h1, ?_⟩
            rcases h2 with ⟨h2, W, x, w1, w2, w3, w4⟩ | ⟨h2, len, U', c1, c2, c3, c4, c5, c6⟩
            · refine Or.inl ⟨h2, W, x, fun y hy => ?_, w2, w3, w4⟩
              rcases w1 y hy with hy | hy
              · rcases (specStep_mem_notfull _ _ _ hfull).mp hy with hy | rfl
                · exact Or.inl hy
                · exact Or.inr ⟨j + 1, hlt, hu, rfl, rfl⟩
              · exact Or.inr hy
            · refine Or.inr ⟨h2, len, U', by omega, c2, c3, c4, c5, ?_⟩
              intro x
              rw [c6, specStep_mem_notfull _ _ _ hfull]
              constructor
              · rintro ((h | h) | ⟨m, m1, m2, m3⟩)
                · exact Or.inl h
                · exact Or.inr ⟨j + 1, Nat.le_refl _, by omega, h⟩
                · exact Or.inr ⟨m, by omega, m2, m3⟩
              · rintro (h | ⟨m, m1, m2, m3⟩)
                · exact Or.inl (Or.inl h)
                · by_cases e : m = j + 1
                  · subst e; exact Or.inl (Or.inr m3)
                  · exact Or.inr ⟨m, by omega, m2, m3⟩
        rw [hqueue]
        cases hc : (o.at z (j + 1)).cont
        · have hc' : (o.get (pos z (j + 1))).cont = false := hc
          obtain ⟨n1, n2⟩ := new_run ho hlt hu hu' hc
          have hle := ho.le (j + 1) hlt hu
          have hmem : qt (j + 1) ∈ (if (o.at z (j + 1)).occ then l ++ [j + 1] else l) :=
            (hQ1.2 _).mpr ⟨n1, hle, (ho.occ _ (by omega)).mpr ⟨j + 1, hlt, hu, rfl⟩⟩
          obtain ⟨l', hl', hQ2⟩ := hQ1.pop hmem n2
          obtain ⟨t', res, k1, k2⟩ := key l' hQ2
          refine ⟨t', res, ?_, k2⟩
          rw [hl']
          simp only [hne, hs', hc', Bool.and_self, Bool.not_false, if_true, List.map_cons]
          exact k1
        · have hc' : (o.get (pos z (j + 1))).cont = true := hc
          have hq : qt j = qt (j + 1) := ((ho.cont j hlt hu).mp hc).2
          rw [hq] at hQ1 ⊢
          obtain ⟨t', res, k1, k2⟩ := key _ hQ1
          refine ⟨t', res, ?_, k2⟩
          simp only [hne, hs', hc', Bool.and_self, Bool.not_true, if_true, Bool.false_eq_true, if_false]
          exact k1

end Pds.Quotient
