import Pds.Proofs.QuotientLoops
/-!
`walkFwd`: the k-th run of a cluster belongs to the k-th occupied quotient of the cluster.
All statements are relative to a reference slot `z` that is the start of the cluster containing
the quotient slot `ka` (slots `1 … ka` are shifted).
-/
namespace Pds.Quotient
variable {N : Nat} {t : St N} {z : Fin N} {qt : Nat → Nat}

/-- `z` is the start of the cluster that contains slot `ka` -/
structure ClusterCtx (t : St N) (z : Fin N) (qt : Nat → Nat) (ka : Nat) : Prop where
  inv : LInv t z qt
  hka : ka < N
  hcl : ∀ k, 0 < k → k ≤ ka → (t.at z k).shift = true

/-- loop invariant of `walkFwd`: `ks` is the first slot whose quotient is `≥ kb` -/
def FwdInv (t : St N) (z : Fin N) (qt : Nat → Nat) (ka kb ks : Nat) : Prop :=
  kb ≤ ka ∧ kb ≤ ks ∧ ks ≤ N ∧ (∀ k, k < ks → (t.at z k).used = true ∧ qt k < kb) ∧
  (ks < N → (t.at z ks).used = true → kb ≤ qt ks) ∧ (kb < ka → (t.at z kb).occ = true)

theorem run_start_of_occ (h : LInv t z qt) {kb ks : Nat} (hkb : kb < N) (hle : kb ≤ ks)
    (hlow : ∀ k, k < ks → (t.at z k).used = true ∧ qt k < kb)
    (hhi : ks < N → (t.at z ks).used = true → kb ≤ qt ks) (hocc : (t.at z kb).occ = true) :
    ks < N ∧ (t.at z ks).used = true ∧ qt ks = kb := by
  obtain ⟨k, hk, hu, hq⟩ := (h.occ kb hkb).mp hocc
  have hks : ks ≤ k := by
    by_cases c : ks ≤ k
    · exact c
    · have := (hlow k (by omega)).2; omega
  have := h.chain_down hk hu (k - ks) ks (by omega) (by omega)
  have h2 := hhi (by omega) this.1
  exact ⟨by omega, this.1, by omega⟩

theorem run_cont (h : LInv t z qt) {ks ks' : Nat} (hu : (t.at z ks).used = true) (hks' : ks' ≤ N)
    (hc : ∀ k, ks < k → k < ks' → (t.at z k).cont = true) :
    ∀ d, ks + d < ks' → (t.at z (ks + d)).used = true ∧ qt (ks + d) = qt ks := by
  intro d
  induction d with
  | zero => intro _; exact ⟨hu, rfl⟩
  | succ d ih =>
    intro hd
    have ih := ih (by omega)
    have hcont := hc (ks + d + 1) (by omega) (by omega)
    have hused := h.used_of_cont (k := ks + d + 1) (by omega) hcont
    have := (h.cont (ks + d) (by omega) hused).mp hcont
    exact ⟨hused, by rw [← ih.2, this.2]; rfl⟩

theorem cluster_used (c : ClusterCtx t z qt ka) {k : Nat} (hk : k ≤ ka) (hpos : 0 < ka) :
    (t.at z k).used = true := by
  by_cases e : k = 0
  · subst e
    have h1 := LInv.used_of_shift (c.hcl 1 (by omega) (by omega))
    have := c.inv.le 1 (by have := c.hka; omega) h1
    rcases Nat.lt_or_ge (qt 1) 1 with h2 | h2
    · exact (c.inv.chain 0 (by have := c.hka; omega) h1 h2).1
    · have hs := (c.inv.shift 1 (by have := c.hka; omega) h1).mp (c.hcl 1 (by omega) (by omega))
      omega
  · exact LInv.used_of_shift (c.hcl k (by omega) hk)

theorem fwdInv_init (c : ClusterCtx t z qt ka) : FwdInv t z qt ka 0 0 := by
  refine ⟨Nat.zero_le _, Nat.le_refl _, Nat.zero_le _, fun k hk => by omega, fun _ _ => Nat.zero_le _, ?_⟩
  intro hpos
  have hu := cluster_used c (Nat.zero_le _) hpos
  have hq := c.inv.qt_zero (by have := c.hka; omega) hu
  exact (c.inv.occ 0 (by have := c.hka; omega)).mpr ⟨0, by have := c.hka; omega, hu, hq⟩

theorem fwdInv_step (c : ClusterCtx t z qt ka) {oi : Bool} {kb ks ks' kb' : Nat}
    (hI : FwdInv t z qt ka kb ks) (hlt : kb < ka)
    (hs1 : ks < ks') (hs2 : ks' ≤ N) (hs4 : ∀ k, ks < k → k < ks' → (t.at z k).cont = true)
    (hs5 : (t.at z ks').cont = false)
    (hb1 : kb < kb') (hb2 : kb' ≤ ka) (hb4 : ∀ k, kb < k → k < kb' → (t.at z k).occ = false)
    (hb5 : (t.at z kb').occ = true ∨ (kb' = ka ∧ oi = true)) :
    FwdInv t z qt ka kb' ks' := by
  obtain ⟨i1, i2, i3, i4, i5, i6⟩ := hI
  have h := c.inv
  have hka := c.hka
  obtain ⟨r1, r2, r3⟩ := run_start_of_occ h (by omega) i2 i4 i5 (i6 hlt)
  have hrun := run_cont h r2 hs2 hs4
  -- the slot after the run has a larger quotient
  have hnext : ks' < N → (t.at z ks').used = true → kb' ≤ qt ks' := by
    intro hlt' hu'
    obtain ⟨d, hd⟩ : ∃ d, ks' = ks + d + 1 := ⟨ks' - ks - 1, by omega⟩
    have hprev := hrun d (by omega)
    have hm := h.mono (j := ks + d) (k := ks') hlt' (by omega) hprev.1 hu'
    have hne : qt ks' ≠ kb := by
      intro e
      have := (h.cont (ks + d) (by omega) (by rw [← hd]; exact hu')).mpr
        ⟨hprev.1, by rw [← hd, e, hprev.2, r3]⟩
      rw [← hd, hs5] at this; cases this
    have hgt : kb < qt ks' := by omega
    have hocc := (h.occ (qt ks') (by have := h.le ks' hlt' hu'; omega)).mpr ⟨ks', hlt', hu', rfl⟩
    by_cases c2 : qt ks' < kb'
    · have := hb4 _ hgt c2; rw [this] at hocc; cases hocc
    · omega
  refine ⟨hb2, ?_, hs2, ?_, hnext, ?_⟩
  · by_cases c2 : ka < ks'
    · omega
    · have hu' := cluster_used c (k := ks') (by omega) (by omega)
      have := hnext (by omega) hu'
      have := h.le ks' (by omega) hu'
      omega
  · intro k hk
    by_cases c2 : k < ks
    · have := i4 k c2; exact ⟨this.1, by omega⟩
    · have := hrun (k - ks) (by omega)
      rw [show ks + (k - ks) = k by omega] at this
      exact ⟨this.1, by omega⟩
  · intro hlt'
    rcases hb5 with h5 | h5
    · exact h5
    · omega

theorem walkFwd_spec (c : ClusterCtx t z qt ka) {oi : Bool}
    (hstop : (t.at z ka).occ = true ∨ oi = true) : ∀ fuel kb ks, FwdInv t z qt ka kb ks →
    ka < kb + fuel →
    ∃ ks', walkFwd t (pos z ka) oi fuel (pos z kb) (pos z ks) = some (pos z ks') ∧
      FwdInv t z qt ka ka ks' := by
  intro fuel
  induction fuel with
  | zero => intro kb ks hI hf; have := hI.1; omega
  | succ f ih =>
    intro kb ks hI hf
    have hka := c.hka
    by_cases e : kb = ka
    · subst e
      exact ⟨ks, by simp [walkFwd], hI⟩
    · have hlt : kb < ka := by have := hI.1; omega
      have hne : (pos z kb == pos z ka) = false := by
        rw [beq_eq_false_iff_ne]; intro hp; exact e (pos_inj (by omega) hka hp)
      obtain ⟨i1, i2, i3, i4, i5, i6⟩ := hI
      obtain ⟨r1, r2, r3⟩ := run_start_of_occ c.inv (by omega) i2 i4 i5 (i6 hlt)
      obtain ⟨ks', s1, s2, s3, s4, s5⟩ := skipRun_spec c.inv.cont0 (N + 1) ks r1 (by omega)
      obtain ⟨kb', b1, b2, b3, b4, b5⟩ := nextOcc_spec hka hstop (N + 1) kb hlt (by omega)
      have hI' := fwdInv_step c ⟨i1, i2, i3, i4, i5, i6⟩ hlt s1 s2 s4 s5 b1 b2 b4 b5
      obtain ⟨ks'', w1, w2⟩ := ih kb' ks' hI' (by omega)
      refine ⟨ks'', ?_, w2⟩
      simp [walkFwd, hne, s3, b3, w1]

end Pds.Quotient
