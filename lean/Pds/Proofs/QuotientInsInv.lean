import Pds.Proofs.QuotientInv
/-!
The state after an insertion, described slot by slot (`InsData`), satisfies the invariant again.
`kp` is the insertion point, `ke` the first unused slot at or after it; the slots `kp … ke-1` move
one step to the right.
-/
namespace Pds.Quotient
variable {N : Nat}

structure InsData (t tf : St N) (z : Fin N) (qt qt' : Nat → Nat) (ka r kp ke : Nat) : Prop where
  inv : LInv t z qt
  ka_le : ka ≤ kp
  kp_le : kp ≤ ke
  ke_lt : ke < N
  used_mid : ∀ k, kp ≤ k → k < ke → (t.at z k).used = true
  unused_ke : (t.at z ke).used = false
  low : ∀ k, k < kp → (t.at z k).used = true ∧ (qt k < ka ∨ (qt k = ka ∧ (t.at z k).rem < r))
  hi : kp < ke → (ka < qt kp ∨ (qt kp = ka ∧ r < (t.at z kp).rem))
  occ' : ∀ k, k < N → (tf.at z k).occ = ((t.at z k).occ || decide (k = ka))
  out : ∀ k, k < N → (k < kp ∨ ke < k) → (tf.at z k).cont = (t.at z k).cont ∧
    (tf.at z k).shift = (t.at z k).shift ∧ (tf.at z k).rem = (t.at z k).rem
  at_kp_cont : ((tf.at z kp).cont = true ↔ 0 < kp ∧ qt (kp - 1) = ka)
  at_kp_shift : (tf.at z kp).shift = (decide (kp ≠ ka) || (t.at z kp).shift)
  at_kp_rem : (tf.at z kp).rem = r
  at_kp1_cont : kp < ke → ((tf.at z (kp + 1)).cont = true ↔ qt kp = ka)
  mid_cont : ∀ k, kp < k → k < ke → (tf.at z (k + 1)).cont = (t.at z k).cont
  mid_shift : ∀ k, kp ≤ k → k < ke → (tf.at z (k + 1)).shift = true
  mid_rem : ∀ k, kp ≤ k → k < ke → (tf.at z (k + 1)).rem = (t.at z k).rem
  qt'_out : ∀ k, (k < kp ∨ ke < k) → qt' k = qt k
  qt'_kp : qt' kp = ka
  qt'_mid : ∀ k, kp ≤ k → k < ke → qt' (k + 1) = qt k

namespace InsData
variable {t tf : St N} {z : Fin N} {qt qt' : Nat → Nat} {ka r kp ke : Nat}

theorem used_lt_ke (D : InsData t tf z qt qt' ka r kp ke) {k : Nat} (hk : k < ke) :
    (t.at z k).used = true := by
  by_cases c : k < kp
  · exact (D.low k c).1
  · exact D.used_mid k (by omega) hk

theorem qt_gt_ke (D : InsData t tf z qt qt' ka r kp ke) {k : Nat} (h1 : ke < k) (h2 : k < N)
    (hu : (t.at z k).used = true) : ke < qt k := by
  by_cases c : ke < qt k
  · exact c
  · have := D.inv.chain_down h2 hu (k - ke) ke (by omega) (by omega)
    rw [D.unused_ke] at this; cases this.1

theorem used' (D : InsData t tf z qt qt' ka r kp ke) {k : Nat} (hk : k < N) :
    (tf.at z k).used = true ↔ ((t.at z k).used = true ∨ k = ke) := by
  have ho := D.occ' k hk
  rcases Nat.lt_trichotomy k kp with c | c | c
  · have hu := (D.low k c).1
    have hs := (D.out k hk (Or.inl c)).2.1
    simp only [Slot.used, ho, hs] at hu ⊢
    simp only [Bool.or_eq_true] at hu ⊢
    constructor
    · intro _; exact Or.inl hu
    · intro _; rcases hu with h | h
      · exact Or.inl (Or.inl h)
      · exact Or.inr h
  · subst c
    have hs := D.at_kp_shift
    have hlhs : (tf.at z k).used = true := by
      simp only [Slot.used, ho, hs]
      by_cases e : k = ka <;> simp [e]
    simp only [hlhs, true_iff]
    by_cases e : k = ke
    · exact Or.inr e
    · exact Or.inl (D.used_mid k (Nat.le_refl _) (by have := D.kp_le; omega))
  · by_cases c2 : k ≤ ke
    · obtain ⟨j, rfl⟩ : ∃ j, k = j + 1 := ⟨k - 1, by omega⟩
      have hs := D.mid_shift j (by omega) (by omega)
      have hlhs : (tf.at z (j + 1)).used = true := by simp [Slot.used, hs]
      simp only [hlhs, true_iff]
      by_cases e : j + 1 = ke
      · exact Or.inr e
      · exact Or.inl (D.used_mid _ (by omega) (by omega))
    · have hs := (D.out k hk (Or.inr (by omega))).2.1
      have hne : ¬ k = ka := by have := D.ka_le; have := D.kp_le; omega
      simp only [Slot.used, ho, hs, hne, decide_false, Bool.or_false]
      constructor
      · intro h; exact Or.inl h
      · rintro (h | h)
        · exact h
        · omega

theorem new_le (D : InsData t tf z qt qt' ka r kp ke) :
    ∀ k, k < N → (tf.at z k).used = true → qt' k ≤ k := by
  intro k hk hu
  rcases Nat.lt_trichotomy k kp with c | c | c
  · rw [D.qt'_out k (Or.inl c)]; exact D.inv.le k hk (D.low k c).1
  · subst c; rw [D.qt'_kp]; exact D.ka_le
  · by_cases c2 : k ≤ ke
    · obtain ⟨j, rfl⟩ : ∃ j, k = j + 1 := ⟨k - 1, by omega⟩
      rw [D.qt'_mid j (by omega) (by omega)]
      have := D.inv.le j (by omega) (D.used_mid j (by omega) (by omega)); omega
    · rw [D.qt'_out k (Or.inr (by omega))]
      rcases (D.used' hk).mp hu with h | h
      · exact D.inv.le k hk h
      · omega

theorem new_z0 (D : InsData t tf z qt qt' ka r kp ke) : (tf.at z 0).shift = false := by
  have hN : 0 < N := by have := D.ke_lt; omega
  by_cases c : 0 < kp
  · rw [(D.out 0 hN (Or.inl c)).2.1]; exact D.inv.z0
  · have e : kp = 0 := by omega
    have e2 : ka = 0 := by have := D.ka_le; omega
    have := D.at_kp_shift
    rw [e, e2] at this
    rw [this, D.inv.z0]; simp

theorem new_chain (D : InsData t tf z qt qt' ka r kp ke) :
    ∀ k, k + 1 < N → (tf.at z (k + 1)).used = true → qt' (k + 1) < k + 1 →
    (tf.at z k).used = true ∧ qt' k ≤ qt' (k + 1) := by
  intro k hk hu hq
  have h := D.inv
  rcases Nat.lt_trichotomy (k + 1) kp with c | c | c
  · rw [D.qt'_out _ (Or.inl c)] at hq ⊢; rw [D.qt'_out k (Or.inl (by omega))]
    have := h.chain k hk (D.low _ c).1 hq
    exact ⟨(D.used' (by omega)).mpr (Or.inl this.1), this.2⟩
  · have hl := D.low k (by omega)
    rw [c, D.qt'_kp, D.qt'_out k (Or.inl (by omega))]
    exact ⟨(D.used' (by omega)).mpr (Or.inl hl.1), by omega⟩
  · by_cases c2 : k + 1 ≤ ke
    · have huk := D.used_mid k (by omega) (by omega)
      refine ⟨(D.used' (by omega)).mpr (Or.inl huk), ?_⟩
      rw [D.qt'_mid k (by omega) (by omega)]
      by_cases c3 : k = kp
      · subst c3; rw [D.qt'_kp]
        have := D.hi (by omega); omega
      · obtain ⟨j, rfl⟩ : ∃ j, k = j + 1 := ⟨k - 1, by omega⟩
        rw [D.qt'_mid j (by omega) (by omega)]
        exact h.mono (by omega) (by omega) (D.used_mid j (by omega) (by omega)) huk
    · rw [D.qt'_out (k + 1) (Or.inr (by omega))] at hq ⊢
      have hu1 : (t.at z (k + 1)).used = true := by
        rcases (D.used' hk).mp hu with h1 | h1
        · exact h1
        · omega
      have := h.chain k hk hu1 hq
      have hne : k ≠ ke := by
        intro e; rw [e, D.unused_ke] at this; cases this.1
      rw [D.qt'_out k (Or.inr (by omega))]
      exact ⟨(D.used' (by omega)).mpr (Or.inl this.1), this.2⟩

theorem new_shift (D : InsData t tf z qt qt' ka r kp ke) :
    ∀ k, k < N → (tf.at z k).used = true → ((tf.at z k).shift = true ↔ qt' k ≠ k) := by
  intro k hk hu
  have h := D.inv
  rcases Nat.lt_trichotomy k kp with c | c | c
  · rw [D.qt'_out k (Or.inl c), (D.out k hk (Or.inl c)).2.1]
    exact h.shift k hk (D.low k c).1
  · subst c
    rw [D.qt'_kp, D.at_kp_shift]
    by_cases e : k = ka
    · have hsf : (t.at z k).shift = false := by
        cases hu0 : (t.at z k).used
        · simp only [Slot.used, Bool.or_eq_false_iff] at hu0; exact hu0.2
        · have hlt : k < ke := by
            by_cases e2 : k = ke
            · rw [e2, D.unused_ke] at hu0; cases hu0
            · have := D.kp_le; omega
          have := D.hi hlt
          have hle := h.le k hk hu0
          cases hs : (t.at z k).shift
          · rfl
          · have := (h.shift k hk hu0).mp hs; omega
      subst e
      simp [hsf]
    · simp only [ne_eq, e, not_false_eq_true, decide_true, Bool.true_or, true_iff]
      omega
  · by_cases c2 : k ≤ ke
    · obtain ⟨j, rfl⟩ : ∃ j, k = j + 1 := ⟨k - 1, by omega⟩
      rw [D.qt'_mid j (by omega) (by omega), D.mid_shift j (by omega) (by omega)]
      have := h.le j (by omega) (D.used_mid j (by omega) (by omega))
      simp only [true_iff]; omega
    · rw [D.qt'_out k (Or.inr (by omega)), (D.out k hk (Or.inr (by omega))).2.1]
      rcases (D.used' hk).mp hu with h1 | h1
      · exact h.shift k hk h1
      · omega

theorem new_cont0 (D : InsData t tf z qt qt' ka r kp ke) : (tf.at z 0).cont = false := by
  have hN : 0 < N := by have := D.ke_lt; omega
  by_cases c : 0 < kp
  · rw [(D.out 0 hN (Or.inl c)).1]; exact D.inv.cont0
  · have e : kp = 0 := by omega
    cases hc : (tf.at z 0).cont
    · rfl
    · have := D.at_kp_cont
      rw [e] at this
      have := this.mp hc
      omega

theorem new_emp (D : InsData t tf z qt qt' ka r kp ke) :
    ∀ k, k < N → (tf.at z k).used = false → (tf.at z k).cont = false := by
  intro k hk hu
  have hnu : ¬ ((t.at z k).used = true ∨ k = ke) := by
    intro hx; rw [(D.used' hk).mpr hx] at hu; cases hu
  have h1 : ke < k := by
    by_cases c : ke < k
    · exact c
    · exfalso; apply hnu
      by_cases e : k = ke
      · exact Or.inr e
      · exact Or.inl (D.used_lt_ke (by omega))
  rw [(D.out k hk (Or.inr h1)).1]
  apply D.inv.emp k hk
  cases hx : (t.at z k).used
  · rfl
  · exact absurd (Or.inl hx) hnu

end InsData
end Pds.Quotient
