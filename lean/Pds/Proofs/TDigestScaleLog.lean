import Pds.Proofs.TDigestScaleReal
import Pds.Proofs.TDigestScaleUnit
/-!
Helper lemmas for the t-digest model, part 9 (C04): the logarithmic scale functions `K2`, `K3` over
`ℝ`, on the quantile interval `[1/n, 1 − 1/n]` (where `f` is finite also in floating point).
-/
set_option linter.unusedSectionVars false
namespace Pds.TDigest

theorem scaleX_eq (δ c : ℝ) (n : Nat) : scaleX δ c n = δ / (4 * Real.log ((n : ℝ) / δ) + c) := by
  simp [scaleX]

/-- `x(n) > 0` and `4·ln(n−1) ≤` its denominator, when `4 ln δ ≤ c` and `n ≥ 2` -/
theorem scaleX_den {δ c : ℝ} (hδ : 0 < δ) (hc : 4 * Real.log δ ≤ c) {n : Nat} (hn : 2 ≤ n) :
    0 < 4 * Real.log ((n : ℝ) / δ) + c ∧ 4 * Real.log (n : ℝ) ≤ 4 * Real.log ((n : ℝ) / δ) + c := by
  have hn' : (2 : ℝ) ≤ n := by exact_mod_cast hn
  have hlog : 0 < Real.log (n : ℝ) := Real.log_pos (by linarith)
  rw [Real.log_div (by linarith) hδ.ne']
  constructor <;> linarith

theorem scaleX_pos {δ c : ℝ} (hδ : 0 < δ) (hc : 4 * Real.log δ ≤ c) {n : Nat} (hn : 2 ≤ n) :
    0 < scaleX δ c n := by
  rw [scaleX_eq]; exact div_pos hδ (scaleX_den hδ hc hn).1

theorem interval_mem {n : Nat} (hn : 2 ≤ n) {q : ℝ} (h0 : 1 / (n : ℝ) ≤ q) (h1 : q ≤ 1 - 1 / (n : ℝ)) :
    0 < q ∧ q < 1 := by
  have hn' : (2 : ℝ) ≤ n := by exact_mod_cast hn
  have : 0 < 1 / (n : ℝ) := by positivity
  constructor <;> linarith

/-! ### `K2` -/

theorem k2_f_eq (δ c : ℝ) (n : Nat) {q : ℝ} (h0 : 0 ≤ q) (h1 : q ≤ 1) :
    (k2 δ c).f q n = scaleX δ c n * Real.log (q / (1 - q)) := by
  simp [k2, clampTo_of_mem h0 h1]

theorem k2_fInv_eq (δ c : ℝ) (n : Nat) (k : ℝ) :
    (k2 δ c).fInv k n = Real.exp (k / scaleX δ c n) / (Real.exp (k / scaleX δ c n) + 1) := by
  simp [k2]

theorem scaleOKOn_k2 {δ c : ℝ} {n : Nat} (hn : 2 ≤ n) (hx : 0 < scaleX δ c n) :
    ScaleOKOn (k2 δ c) n (1 / (n : ℝ)) (1 - 1 / (n : ℝ)) := by
  refine ⟨?_, ?_, ?_⟩
  · intro q q' h0 hqq h1
    obtain ⟨hq0, hq1⟩ := interval_mem hn h0 (le_trans hqq h1)
    obtain ⟨hq0', hq1'⟩ := interval_mem hn (le_trans h0 hqq) h1
    rw [k2_f_eq δ c n hq0.le hq1.le, k2_f_eq δ c n hq0'.le hq1'.le]
    apply mul_le_mul_of_nonneg_left _ hx.le
    apply Real.log_le_log (div_pos hq0 (by linarith))
    rw [div_le_div_iff₀ (by linarith) (by linarith)]
    nlinarith
  · intro k k' hk
    rw [k2_fInv_eq, k2_fInv_eq]
    have hz : Real.exp (k / scaleX δ c n) ≤ Real.exp (k' / scaleX δ c n) :=
      Real.exp_le_exp.2 (div_le_div_of_nonneg_right hk hx.le)
    have h1 := Real.exp_pos (k / scaleX δ c n)
    have h2 := Real.exp_pos (k' / scaleX δ c n)
    rw [div_le_div_iff₀ (by linarith) (by linarith)]
    nlinarith
  · intro q h0 h1
    obtain ⟨hq0, hq1⟩ := interval_mem hn h0 h1
    rw [k2_f_eq δ c n hq0.le hq1.le, k2_fInv_eq]
    have e : scaleX δ c n * Real.log (q / (1 - q)) / scaleX δ c n = Real.log (q / (1 - q)) := by
      field_simp
    rw [e, Real.exp_log (div_pos hq0 (by linarith))]
    have : 1 - q ≠ 0 := by linarith
    field_simp
    ring

theorem k2_span {δ c : ℝ} {n : Nat} (hn : 2 ≤ n) :
    (k2 δ c).f (1 - 1 / (n : ℝ)) n - (k2 δ c).f (1 / (n : ℝ)) n
      = 2 * scaleX δ c n * Real.log ((n : ℝ) - 1) := by
  have hn' : (2 : ℝ) ≤ n := by exact_mod_cast hn
  have hn0 : (n : ℝ) ≠ 0 := by linarith
  have hpos : 0 < 1 / (n : ℝ) := by positivity
  have hle : 1 / (n : ℝ) ≤ 1 / 2 := by
    rw [div_le_div_iff₀ (by linarith) (by norm_num)]; linarith
  rw [k2_f_eq δ c n (by linarith) (by linarith), k2_f_eq δ c n hpos.le (by linarith)]
  have e1 : (1 - 1 / (n : ℝ)) / (1 - (1 - 1 / (n : ℝ))) = (n : ℝ) - 1 := by field_simp; ring
  have e2 : 1 / (n : ℝ) / (1 - 1 / (n : ℝ)) = ((n : ℝ) - 1)⁻¹ := by
    have : (n : ℝ) - 1 ≠ 0 := by linarith
    field_simp
  rw [e1, e2, Real.log_inv]
  ring

/-! ### `K3` -/

theorem k3_f_eq (δ c : ℝ) (n : Nat) {q : ℝ} (h0 : 0 ≤ q) (h1 : q ≤ 1) :
    (k3 δ c).f q n = scaleX δ c n *
      (if q ≤ 1 / 2 then Real.log (2 * q) else -Real.log (2 * (1 - q))) := by
  simp [k3, clampTo_of_mem h0 h1, half_eq]

theorem k3_fInv_eq (δ c : ℝ) (n : Nat) (k : ℝ) :
    (k3 δ c).fInv k n = if k ≤ 0 then Real.exp (k / scaleX δ c n) / 2
      else 1 - Real.exp (-k / scaleX δ c n) / 2 := by
  simp [k3]

/-- the inner function of `K3` -/
noncomputable def y3 (q : ℝ) : ℝ := if q ≤ 1 / 2 then Real.log (2 * q) else -Real.log (2 * (1 - q))

theorem y3_mono {q q' : ℝ} (h0 : 0 < q) (hqq : q ≤ q') (h1 : q' < 1) : y3 q ≤ y3 q' := by
  unfold y3
  by_cases ha : q ≤ 1 / 2 <;> by_cases hb : q' ≤ 1 / 2
  · simp only [ha, hb, if_true]
    exact Real.log_le_log (by linarith) (by linarith)
  · simp only [ha, hb, if_true, if_false]
    have h1' : Real.log (2 * q) ≤ 0 := Real.log_nonpos (by linarith) (by linarith)
    have h2' : Real.log (2 * (1 - q')) ≤ 0 := Real.log_nonpos (by linarith) (by linarith)
    linarith
  · exact absurd (le_trans hqq hb) ha
  · simp only [ha, hb, if_false]
    have := Real.log_le_log (show 0 < 2 * (1 - q') by linarith) (show 2 * (1 - q') ≤ 2 * (1 - q) by linarith)
    linarith

theorem scaleOKOn_k3 {δ c : ℝ} {n : Nat} (hn : 2 ≤ n) (hx : 0 < scaleX δ c n) :
    ScaleOKOn (k3 δ c) n (1 / (n : ℝ)) (1 - 1 / (n : ℝ)) := by
  refine ⟨?_, ?_, ?_⟩
  · intro q q' h0 hqq h1
    obtain ⟨hq0, hq1⟩ := interval_mem hn h0 (le_trans hqq h1)
    obtain ⟨hq0', hq1'⟩ := interval_mem hn (le_trans h0 hqq) h1
    rw [k3_f_eq δ c n hq0.le hq1.le, k3_f_eq δ c n hq0'.le hq1'.le]
    exact mul_le_mul_of_nonneg_left (y3_mono hq0 hqq hq1') hx.le
  · intro k k' hk
    rw [k3_fInv_eq, k3_fInv_eq]
    by_cases ha : k ≤ 0 <;> by_cases hb : k' ≤ 0
    · simp only [ha, hb, if_true]
      have := Real.exp_le_exp.2 (div_le_div_of_nonneg_right hk hx.le)
      linarith
    · simp only [ha, hb, if_true, if_false]
      have h1 : Real.exp (k / scaleX δ c n) ≤ 1 := by
        rw [← Real.exp_zero]; exact Real.exp_le_exp.2 (div_nonpos_of_nonpos_of_nonneg ha hx.le)
      have h2 : Real.exp (-k' / scaleX δ c n) ≤ 1 := by
        rw [← Real.exp_zero]
        exact Real.exp_le_exp.2 (div_nonpos_of_nonpos_of_nonneg (by linarith) hx.le)
      linarith
    · exact absurd (le_trans hk hb) ha
    · simp only [ha, hb, if_false]
      have := Real.exp_le_exp.2 (div_le_div_of_nonneg_right (show -k' ≤ -k by linarith) hx.le)
      linarith
  · intro q h0 h1
    obtain ⟨hq0, hq1⟩ := interval_mem hn h0 h1
    rw [k3_f_eq δ c n hq0.le hq1.le, k3_fInv_eq]
    by_cases ha : q ≤ 1 / 2
    · simp only [ha, if_true]
      have hl : Real.log (2 * q) ≤ 0 := Real.log_nonpos (by linarith) (by linarith)
      have hk : scaleX δ c n * Real.log (2 * q) ≤ 0 := mul_nonpos_of_nonneg_of_nonpos hx.le hl
      simp only [hk, if_true]
      have e : scaleX δ c n * Real.log (2 * q) / scaleX δ c n = Real.log (2 * q) := by field_simp
      rw [e, Real.exp_log (by linarith)]
      ring
    · simp only [ha, if_false]
      have hl : Real.log (2 * (1 - q)) < 0 := Real.log_neg (by linarith) (by linarith)
      have hk : ¬ scaleX δ c n * -Real.log (2 * (1 - q)) ≤ 0 := by
        have : 0 < scaleX δ c n * -Real.log (2 * (1 - q)) := mul_pos hx (by linarith)
        linarith
      simp only [hk, if_false]
      have e : -(scaleX δ c n * -Real.log (2 * (1 - q))) / scaleX δ c n = Real.log (2 * (1 - q)) := by
        field_simp
      rw [e, Real.exp_log (by linarith)]
      ring

theorem k3_span {δ c : ℝ} {n : Nat} (hn : 2 ≤ n) :
    (k3 δ c).f (1 - 1 / (n : ℝ)) n - (k3 δ c).f (1 / (n : ℝ)) n
      = 2 * scaleX δ c n * Real.log ((n : ℝ) / 2) := by
  have hn' : (2 : ℝ) ≤ n := by exact_mod_cast hn
  have hn0 : (n : ℝ) ≠ 0 := by linarith
  have hpos : 0 < 1 / (n : ℝ) := by positivity
  have hle : 1 / (n : ℝ) ≤ 1 / 2 := by
    rw [div_le_div_iff₀ (by linarith) (by norm_num)]; linarith
  rw [k3_f_eq δ c n (by linarith) (by linarith), k3_f_eq δ c n hpos.le (by linarith)]
  simp only [hle, if_true]
  have e1 : 2 * (1 / (n : ℝ)) = ((n : ℝ) / 2)⁻¹ := by field_simp
  have hy : (if 1 - 1 / (n : ℝ) ≤ 1 / 2 then Real.log (2 * (1 - 1 / (n : ℝ)))
      else -Real.log (2 * (1 - (1 - 1 / (n : ℝ))))) = Real.log ((n : ℝ) / 2) := by
    split
    · rename_i h
      have hn2 : (n : ℝ) = 2 := by
        have : 1 / 2 ≤ 1 / (n : ℝ) := by linarith
        rw [div_le_div_iff₀ (by norm_num) (by linarith)] at this
        linarith
      rw [hn2]; norm_num
    · have : 2 * (1 - (1 - 1 / (n : ℝ))) = ((n : ℝ) / 2)⁻¹ := by field_simp; ring
      rw [this, Real.log_inv]; ring
  rw [hy, e1, Real.log_inv]
  ring

/-! ### the final inequalities -/

theorem k2_final {δ c : ℝ} (hδ : 0 < δ) (hc : 4 * Real.log δ ≤ c) {n : Nat} (hn : 2 ≤ n) :
    2 * (2 * scaleX δ c n * Real.log ((n : ℝ) - 1)) ≤ δ := by
  have hn' : (2 : ℝ) ≤ n := by exact_mod_cast hn
  obtain ⟨hd, hle⟩ := scaleX_den hδ hc hn
  have hlog : Real.log ((n : ℝ) - 1) ≤ Real.log (n : ℝ) :=
    Real.log_le_log (by linarith) (by linarith)
  rw [scaleX_eq]
  have : 2 * (2 * (δ / (4 * Real.log ((n : ℝ) / δ) + c)) * Real.log ((n : ℝ) - 1))
      = δ * (4 * Real.log ((n : ℝ) - 1)) / (4 * Real.log ((n : ℝ) / δ) + c) := by ring
  rw [this, div_le_iff₀ hd]
  exact mul_le_mul_of_nonneg_left (by linarith) hδ.le

theorem k3_final {δ c : ℝ} (hδ : 0 < δ) (hc : 4 * Real.log δ ≤ c) {n : Nat} (hn : 2 ≤ n) :
    2 * (2 * scaleX δ c n * Real.log ((n : ℝ) / 2)) ≤ δ := by
  have hn' : (2 : ℝ) ≤ n := by exact_mod_cast hn
  obtain ⟨hd, hle⟩ := scaleX_den hδ hc hn
  have hlog : Real.log ((n : ℝ) / 2) ≤ Real.log (n : ℝ) :=
    Real.log_le_log (by linarith) (by linarith)
  rw [scaleX_eq]
  have : 2 * (2 * (δ / (4 * Real.log ((n : ℝ) / δ) + c)) * Real.log ((n : ℝ) / 2))
      = δ * (4 * Real.log ((n : ℝ) / 2)) / (4 * Real.log ((n : ℝ) / δ) + c) := by ring
  rw [this, div_le_iff₀ hd]
  exact mul_le_mul_of_nonneg_left (by linarith) hδ.le

end Pds.TDigest
