import Pds.Proofs.TDigestQuantile
/-!
Helper lemmas for the t-digest model, part 4: shape of `quantileInner` / `cdfInner` on well-formed
states (range, end points, monotonicity, inverse), derived from the knot characterisation.
-/
set_option linter.unusedSectionVars false
namespace Pds.TDigest
open Pds.PL
variable {α : Type} [Field α] [LinearOrder α] [IsStrictOrderedRing α]

/-- the data of a non-empty well-formed state -/
structure Shape (s : St α) (c0 : Centroid α) (cs : List (Centroid α)) (mn mx : α) : Prop where
  hc : s.centroids = c0 :: cs
  hmin : s.min = some mn
  hmax : s.max = some mx
  pos : ∀ c ∈ s.centroids, 0 < c.count
  range : ∀ c ∈ s.centroids, mn ≤ c.mean ∧ c.mean ≤ mx
  mono : Mono (0, mn) (knots mx 0 (c0 :: cs))
  sabs : StrictAbs (0, mn) (knots mx 0 (c0 :: cs))
  spos : 0 < sumCount (c0 :: cs)
  mnmx : mn ≤ mx

theorem WF.shape {s : St α} (h : WF s) (hne : s.centroids ≠ []) :
    ∃ c0 cs mn mx, Shape s c0 cs mn mx := by
  obtain ⟨mn, mx, hmin, hmax, hr⟩ := h.bounds hne
  cases hc : s.centroids with
  | nil => exact absurd hc hne
  | cons c0 cs =>
    have hpos : ∀ c ∈ c0 :: cs, 0 < c.count := by rw [← hc]; exact h.pos
    have hr' : ∀ c ∈ c0 :: cs, mn ≤ c.mean ∧ c.mean ≤ mx := by rw [← hc]; exact hr
    have hmm : mn ≤ mx := le_trans (hr' c0 (by simp)).1 (hr' c0 (by simp)).2
    refine ⟨c0, cs, mn, mx, hc, hmin, hmax, h.pos, hr, ?_, ?_, sumCount_pos hpos (by simp), hmm⟩
    · exact knots_mono mx (c0 :: cs) 0 (0, mn) le_rfl hpos (by rw [← hc]; exact h.sorted) hr' hmm
    · exact knots_strictAbs mx (c0 :: cs) 0 (0, mn) (Or.inr ⟨le_rfl, by simp⟩) hpos

section
variable {s : St α} {c0 : Centroid α} {cs : List (Centroid α)} {mn mx : α}

/-- the value of the quantile function -/
def qv (c0 : Centroid α) (cs : List (Centroid α)) (mn mx q : α) : α :=
  plLE (0, mn) (knots mx 0 (c0 :: cs)) (sumCount (c0 :: cs) * q)

theorem Shape.quantile_eq (h : Shape s c0 cs mn mx) {q : α} (hq0 : 0 ≤ q) (hq1 : q ≤ 1) :
    quantileInner s q = .val (qv c0 cs mn mx q) :=
  quantileInner_eq h.hc h.hmin h.hmax h.pos h.range hq0 hq1

theorem Shape.qv_ge (h : Shape s c0 cs mn mx) {q : α} (hq0 : 0 ≤ q) : mn ≤ qv c0 cs mn mx q :=
  plLE_ge h.mono (mul_nonneg h.spos.le hq0)

theorem Shape.qv_le (h : Shape s c0 cs mn mx) {q : α} (hq0 : 0 ≤ q) : qv c0 cs mn mx q ≤ mx := by
  have := plLE_le h.mono (x := sumCount (c0 :: cs) * q) (mul_nonneg h.spos.le hq0)
  rwa [knots_lastOrd] at this

theorem Shape.qv_zero (h : Shape s c0 cs mn mx) : qv c0 cs mn mx 0 = mn := by
  unfold qv; rw [mul_zero]; exact plLE_left (0, mn) _ h.mono

theorem Shape.qv_one (h : Shape s c0 cs mn mx) : qv c0 cs mn mx 1 = mx := by
  unfold qv
  have := plLE_last h.sabs
  rw [knots_lastAbs, knots_lastOrd, zero_add] at this
  rw [mul_one]; exact this

theorem Shape.qv_mono (h : Shape s c0 cs mn mx) {q1 q2 : α} (hq0 : 0 ≤ q1) (hq : q1 ≤ q2) :
    qv c0 cs mn mx q1 ≤ qv c0 cs mn mx q2 :=
  plLE_mono h.mono (mul_nonneg h.spos.le hq0) (mul_le_mul_of_nonneg_left hq h.spos.le)

/-- the value of the cdf for `min ≤ x` -/
def cv (c0 : Centroid α) (cs : List (Centroid α)) (mn mx x : α) : α :=
  plLT (mn, 0) (swap (knots mx 0 (c0 :: cs))) x / sumCount (c0 :: cs)

theorem Shape.cdf_eq (h : Shape s c0 cs mn mx) {x : α} (hx : mn ≤ x) :
    cdfInner s x = some (cv c0 cs mn mx x) :=
  cdfInner_eq h.hc h.hmin h.hmax h.pos h.range hx

theorem Shape.cdf_lt (h : Shape s c0 cs mn mx) {x : α} (hx : x < mn) : cdfInner s x = some 0 :=
  cdfInner_lt_min h.hc h.hmin h.hmax hx

theorem Shape.monoSw (h : Shape s c0 cs mn mx) : Mono (mn, 0) (swap (knots mx 0 (c0 :: cs))) :=
  Pds.PL.mono_swap h.mono

theorem Shape.cv_nonneg (h : Shape s c0 cs mn mx) {x : α} (hx : mn ≤ x) : 0 ≤ cv c0 cs mn mx x :=
  div_nonneg (plLT_ge h.monoSw hx) h.spos.le

theorem Shape.cv_le_one (h : Shape s c0 cs mn mx) {x : α} (hx : mn ≤ x) : cv c0 cs mn mx x ≤ 1 := by
  unfold cv
  rw [div_le_one h.spos]
  have := plLT_le h.monoSw (x := x) hx
  have e := lastOrd_swap (0, mn) (knots mx 0 (c0 :: cs))
  rw [knots_lastAbs, zero_add] at e
  change lastOrd (mn, 0) _ = _ at e
  rwa [e] at this

theorem Shape.cv_ge_max (h : Shape s c0 cs mn mx) {x : α} (hx : mx ≤ x) : cv c0 cs mn mx x = 1 := by
  unfold cv
  have e := lastAbs_swap (0, mn) (knots mx 0 (c0 :: cs))
  rw [knots_lastOrd] at e
  change lastAbs (mn, 0) _ = _ at e
  have := plLT_ge_last h.monoSw (x := x) (by rw [e]; exact hx)
  rw [this]
  have e2 := lastOrd_swap (0, mn) (knots mx 0 (c0 :: cs))
  rw [knots_lastAbs, zero_add] at e2
  change lastOrd (mn, 0) _ = _ at e2
  rw [e2, div_self h.spos.ne']

theorem Shape.cv_mono (h : Shape s c0 cs mn mx) {x y : α} (hx : mn ≤ x) (hxy : x ≤ y) :
    cv c0 cs mn mx x ≤ cv c0 cs mn mx y :=
  div_le_div_of_nonneg_right (plLT_mono h.monoSw hx hxy) h.spos.le

/-- knot ordinates strictly increasing: `min < mean₀ < … < mean_last < max` -/
def StrictKnots (s : St α) : Prop :=
  StrictSortedMean s.centroids ∧
    ∀ mn mx, s.min = some mn → s.max = some mx → ∀ c ∈ s.centroids, mn < c.mean ∧ c.mean < mx

theorem Shape.cv_qv (h : Shape s c0 cs mn mx) (hk : StrictKnots s) {q : α} (hq0 : 0 ≤ q) (hq1 : q ≤ 1) :
    cv c0 cs mn mx (qv c0 cs mn mx q) = q := by
  have hpos : ∀ c ∈ c0 :: cs, 0 < c.count := by rw [← h.hc]; exact h.pos
  have hr : ∀ c ∈ c0 :: cs, mn < c.mean ∧ c.mean < mx := by
    rw [← h.hc]; exact hk.2 mn mx h.hmin h.hmax
  have hsm : StrictMono (0, mn) (knots mx 0 (c0 :: cs)) :=
    knots_strictMono mx (c0 :: cs) 0 (0, mn) (Or.inr ⟨le_rfl, by simp⟩) hpos
      (by rw [← h.hc]; exact hk.1) hr (lt_trans (hr c0 (by simp)).1 (hr c0 (by simp)).2)
  have hl : sumCount (c0 :: cs) * q ≤ lastAbs (0, mn) (knots mx 0 (c0 :: cs)) := by
    rw [knots_lastAbs, zero_add]
    have := mul_le_mul_of_nonneg_left hq1 h.spos.le
    simpa using this
  have := plLT_swap_plLE hsm (x := sumCount (c0 :: cs) * q) (mul_nonneg h.spos.le hq0) hl
  unfold cv qv
  change plLT (0, mn).swap _ _ / _ = _
  rw [this, mul_comm, mul_div_assoc, div_self h.spos.ne', mul_one]

end

/-! ### empty digest -/

theorem quantileInner_nil {s : St α} (h : s.centroids = []) (q : α) : quantileInner s q = .nan := by
  obtain ⟨cents, n, mn', mx', bl, mb⟩ := s
  simp only at h; subst h; rfl

theorem cdfInner_nil {s : St α} (h : s.centroids = []) (x : α) : cdfInner s x = some 0 := by
  obtain ⟨cents, n, mn', mx', bl, mb⟩ := s
  simp only at h; subst h; rfl

/-- `reachable_wf` -/
theorem wf_reachable (sf : ScaleFn α) {mb : Nat} {ops : List (Op α)} {s : St α}
    (h : run sf (new mb) ops = some s) : WF (merge sf s) :=
  wf_of_inv (inv_merge sf (inv_reachable sf h)) (merge_backlog sf s)

end Pds.TDigest
