import Pds.Proofs.TDigestScale
/-!
Helper lemmas for the t-digest model, part 8 (C04): histories of unit-weight insertions.  Then every
centroid weighs at least 1 and the total weight is `nSamples`, so only the first centroid starts
below the quantile `1/n` and only the last one ends above `1 − 1/n`; the counting argument is applied
to the centroids in between.
-/
set_option linter.unusedSectionVars false
namespace Pds.TDigest
variable {α : Type} [Field α] [LinearOrder α] [IsStrictOrderedRing α]

/-- all insertions of the history have weight 1 -/
def UnitOps (ops : List (Op α)) : Prop := ∀ x w, Op.insert x w ∈ ops → w = 1

/-- invariant of unit-weight histories -/
structure InvU (s : St α) : Prop where
  ge : ∀ c ∈ s.centroids ++ s.backlog, 1 ≤ c.count
  tot : sumCount (s.centroids ++ s.backlog) = (s.nSamples : α)

theorem Fused.ge_one {inp out : List (Centroid α)} (h : Fused inp out) (hp : ∀ c ∈ inp, 1 ≤ c.count) :
    ∀ c ∈ out, 1 ≤ c.count := by
  induction h with
  | last c => exact hp
  | @fuse cur next rest out _ ih =>
    apply ih
    intro c hc
    rcases List.mem_cons.1 hc with rfl | hc
    · have := hp cur (by simp); have := hp next (by simp); simp; linarith
    · exact hp c (by simp [hc])
  | @push cur next rest out _ ih =>
    intro c hc
    rcases List.mem_cons.1 hc with rfl | hc
    · exact hp _ (by simp)
    · exact ih (fun d hd => hp d (List.mem_cons_of_mem _ hd)) c hc

theorem invU_merge (sf : ScaleFn α) {s : St α} (h : InvU s) : InvU (merge sf s) := by
  rcases merge_centroids sf s with ⟨hb, _⟩ | ⟨x, hperm, _, hf⟩
  · rw [merge_of_nil hb]; exact h
  · constructor
    · rw [merge_backlog, List.append_nil]
      exact hf.ge_one (fun c hc => h.ge c (hperm.mem_iff.1 hc))
    · rw [merge_backlog, List.append_nil, hf.sumCount, sumCount_perm hperm, h.tot, merge_nSamples]

theorem invU_step (sf : ScaleFn α) {s s' : St α} (h : InvU s) (op : Op α)
    (hu : ∀ x w, op = Op.insert x w → w = 1) (hs : step sf s op = some s') : InvU s' := by
  cases op with
  | insert x w =>
    have hw : w = 1 := hu x w rfl
    subst hw
    simp only [step] at hs
    rw [insertWeighted_pos sf s x zero_lt_one] at hs
    cases hs
    have hp : InvU (pushed s x 1) := by
      have hperm : (s.centroids ++ (⟨x * 1, 1⟩ : Centroid α) :: s.backlog).Perm
          (⟨x * 1, 1⟩ :: (s.centroids ++ s.backlog)) := List.perm_middle
      constructor
      · intro c hc
        rcases List.mem_cons.1 (hperm.mem_iff.1 hc) with rfl | hc
        · exact le_rfl
        · exact h.ge c hc
      · simp only [pushed, sumCount_perm hperm, sumCount_cons, h.tot]
        push_cast; ring
    split
    · exact invU_merge sf hp
    · exact hp
  | read => simp only [step] at hs; cases hs; exact invU_merge sf h
  | clear => simp only [step] at hs; cases hs; exact ⟨by simp [clear], by simp [clear]⟩

theorem invU_run (sf : ScaleFn α) {s s' : St α} (h : InvU s) (ops : List (Op α)) (hu : UnitOps ops)
    (hs : run sf s ops = some s') : InvU s' := by
  induction ops generalizing s with
  | nil => simp only [run] at hs; cases hs; exact h
  | cons op ops ih =>
    simp only [run] at hs
    cases h1 : step sf s op with
    | none => rw [h1] at hs; cases hs
    | some s1 =>
      rw [h1] at hs
      exact ih (invU_step sf h op (fun x w e => hu x w (by simp [e])) h1)
        (fun x w hm => hu x w (List.mem_cons_of_mem _ hm)) hs

theorem invU_reachable (sf : ScaleFn α) {mb : Nat} {s : St α} {ops : List (Op α)} (hu : UnitOps ops)
    (h : run sf (new mb) ops = some s) : InvU (merge sf s) :=
  invU_merge sf (invU_run sf ⟨by simp [new], by simp [new]⟩ ops hu h)

theorem length_le_sumCount {l : List (Centroid α)} (h : ∀ c ∈ l, 1 ≤ c.count) :
    (l.length : α) ≤ sumCount l := by
  induction l with
  | nil => simp
  | cons a l ih =>
    have := h a (by simp)
    have := ih (fun d hd => h d (by simp [hd]))
    simp only [List.length_cons, sumCount_cons]; push_cast; linarith

/-- counting for unit-weight digests: with `m ≥ 2` centroids of weight `≥ 1` and total weight `n`,
greedy w.r.t. a scale function that is fine on `[1/n, 1 − 1/n]`: `m ≤ 2·(f(1 − 1/n) − f(1/n)) + 3` -/
theorem unit_length_bound {sf : ScaleFn α} {n : Nat} (l : List (Centroid α))
    (hok : ScaleOKOn sf n (1 / (n : α)) (1 - 1 / (n : α)))
    (hge : ∀ c ∈ l, 1 ≤ c.count) (htot : sumCount l = (n : α))
    (hg : Greedy sf n (sumCount l) 0 l) (h2 : 2 ≤ l.length) :
    (l.length : α) ≤ 2 * (sf.f (1 - 1 / (n : α)) n - sf.f (1 / (n : α)) n) + 3 := by
  match l, h2 with
  | a :: t, h2 =>
    have htne : t ≠ [] := by intro e; rw [e] at h2; simp at h2
    obtain ⟨mid, z, rfl⟩ : ∃ mid z, t = mid ++ [z] :=
      ⟨t.dropLast, t.getLast htne, (List.dropLast_append_getLast htne).symm⟩
    have hpos : ∀ c ∈ a :: (mid ++ [z]), 0 < c.count :=
      fun c hc => lt_of_lt_of_le zero_lt_one (hge c hc)
    have hS : 0 < sumCount (a :: (mid ++ [z])) := sumCount_pos hpos (by simp)
    have hn : (0 : α) < n := by rw [← htot]; exact hS
    apply scale_length_bound_interior hok a z mid hpos hg
    · rw [htot]; exact div_le_div_of_nonneg_right (hge a (by simp)) hn.le
    · rw [htot]
      have := div_le_div_of_nonneg_right (hge z (by simp)) hn.le
      linarith

end Pds.TDigest
