import Pds.Proofs.QuotientScan
/-!
The swap chain of `insert_internal`: it shifts the slots `kc+1 … kc+d` one step to the right,
where `kc+d` is the first unused slot.
-/
namespace Pds.Quotient
variable {N : Nat}

theorem at_set (t : St N) (z : Fin N) {j k : Nat} (hj : j < N) (hk : k < N) (s : Slot) :
    (t.set (pos z j) s).at z k = if k = j then s else t.at z k := by
  simp only [St.at, get_set]
  by_cases e : k = j
  · subst e; simp
  · have : pos z j ≠ pos z k := fun hp => e (pos_inj hj hk hp).symm
    simp [this, e]

/-- contents of slot `k` after the chain started at `kc` with carried bits `c`, `rm` -/
def shifted (t : St N) (z : Fin N) (kc : Nat) (c : Bool) (rm : Nat) (k : Nat) : Slot :=
  ⟨(t.at z k).occ, if k = kc + 1 then c else (t.at z (k - 1)).cont, true,
    if k = kc + 1 then rm else (t.at z (k - 1)).rem⟩

theorem swapLoop_spec (z : Fin N) {start : Fin N} {kp : Nat} (hstart : start = pos z kp) :
    ∀ d (t : St N) kc c rm fuel, kp ≤ kc → kc + d < N →
    (∀ k, kc < k → k < kc + d → (t.at z k).used = true) →
    (0 < d → (t.at z (kc + d)).used = false) → d < fuel →
    ∃ t2, swapLoop t start fuel (pos z kc) c rm (decide (0 < d)) = some t2 ∧ t2.n = t.n ∧
      ∀ k, k < N → t2.at z k = if kc < k ∧ k ≤ kc + d then shifted t z kc c rm k else t.at z k := by
  intro d
  induction d with
  | zero =>
    intro t kc c rm fuel _ _ _ _ hf
    obtain ⟨f, rfl⟩ : ∃ f, fuel = f + 1 := ⟨fuel - 1, by omega⟩
    refine ⟨t, by simp [swapLoop], rfl, ?_⟩
    intro k hk
    have : ¬ (kc < k ∧ k ≤ kc + 0) := by omega
    rw [if_neg this]
  | succ d ih =>
    intro t kc c rm fuel hkp hN hused hend hf
    obtain ⟨f, rfl⟩ : ∃ f, fuel = f + 1 := ⟨fuel - 1, by omega⟩
    let nx := t.at z (kc + 1)
    let t' := t.set (pos z (kc + 1)) ⟨nx.occ, c, true, rm⟩
    have hat' : ∀ k, k < N → t'.at z k = if k = kc + 1 then ⟨nx.occ, c, true, rm⟩ else t.at z k :=
      fun k hk => at_set t z (by omega) hk _
    have hne : (pos z (kc + 1) == start) = false := by
      rw [beq_eq_false_iff_ne, hstart]; intro hp
      have := pos_inj (by omega) (by omega) hp; omega
    have hnu : (nx.occ || nx.shift) = decide (0 < d) := by
      change nx.used = _
      by_cases e : d = 0
      · subst e; simp only [Nat.lt_irrefl, decide_false]
        exact hend (by omega)
      · simp only [show 0 < d by omega, decide_true]
        exact hused (kc + 1) (by omega) (by omega)
    obtain ⟨t2, h1, h2, h3⟩ := ih t' (kc + 1) nx.cont nx.rem f (by omega) (by omega)
      (by
        intro k hk1 hk2
        rw [hat' k (by omega), if_neg (by omega)]
        exact hused k (by omega) (by omega))
      (by
        intro hd
        rw [hat' _ (by omega), if_neg (by omega)]
        have := hend (by omega)
        rwa [show kc + (d + 1) = kc + 1 + d by omega] at this)
      (by omega)
    refine ⟨t2, ?_, by rw [h2]; rfl, ?_⟩
    · rw [← hnu] at h1
      simp only [swapLoop, Bool.false_eq_true, if_false, incr_pos, hne]
      exact h1
    · intro k hk
      rw [h3 k hk]
      by_cases c1 : kc + 1 < k ∧ k ≤ kc + 1 + d
      · rw [if_pos c1, if_pos (by omega)]
        simp only [shifted]
        rw [hat' k hk, if_neg (by omega), hat' (k - 1) (by omega)]
        by_cases c2 : k = kc + 1 + 1
        · subst c2
          simp [nx]
        · simp only [if_neg c2, if_neg (show ¬ k - 1 = kc + 1 by omega),
            if_neg (show ¬ k = kc + 1 by omega)]
      · rw [if_neg c1, hat' k hk]
        by_cases c2 : k = kc + 1
        · subst c2
          rw [if_pos rfl, if_pos (by omega)]
          simp [shifted, nx]
        · rw [if_neg c2, if_neg (by omega)]

end Pds.Quotient
