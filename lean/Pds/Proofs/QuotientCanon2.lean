import Pds.Proofs.QuotientCanon1
import Mathlib.Order.Interval.Finset.Nat
/-!
Canonicity, part 2: a slot that is unshifted in one table is unshifted in every table storing the
same pairs (pigeonhole: otherwise `L + 1` pairs would have to live in `L` slots), hence the two
tables can be compared relative to a common reference slot.
-/
namespace Pds.Quotient
variable {N : Nat}

theorem common_ref {t t' : St N} {z z' : Fin N} {qt qt' : Nat → Nat} (h : LInv t z qt)
    (h' : LInv t' z' qt') (hA : ∀ a r, Abs t z qt a r ↔ Abs t' z' qt' a r) :
    (t'.get z).shift = false := by
  obtain ⟨m, hm, rfl⟩ := exists_pos z' z
  cases hs : (t'.get (pos z' m)).shift
  · rfl
  · exfalso
    have hs' : (t'.at z' m).shift = true := hs
    obtain ⟨kb, b1, _, b3, b4⟩ := walkBack_spec h' m (N + 1) hm (by omega)
    have hkbm : kb < m := by
      by_cases e : kb = m
      · rw [e, hs'] at b3; cases b3
      · omega
    have hge := h'.ge_of_unshifted b3
    have hum : (t'.at z' m).used = true := LInv.used_of_shift hs'
    have hqm : qt' m < m := by
      have := (h'.shift m hm hum).mp hs'
      have := h'.le m hm hum
      omega
    have husedj : ∀ j, kb ≤ j → j ≤ m → (t'.at z' j).used = true := by
      intro j h1 h2
      by_cases e : j = kb
      · subst e
        have hs1 := b4 (j + 1) (by omega) (by omega)
        have hu1 := LInv.used_of_shift hs1
        have := (h'.shift (j + 1) (by omega) hu1).mp hs1
        have := h'.le (j + 1) (by omega) hu1
        exact (h'.chain j (by omega) hu1 (by omega)).1
      · exact LInv.used_of_shift (b4 j (by omega) h2)
    -- the `m - kb + 1` pairs stored in slots `kb … m` of `t'`
    let A := (Finset.Icc kb m).image (pairAt t' z' qt')
    let B := (Finset.Ico (N - (m - kb)) N).image (pairAt t (pos z' m) qt)
    have hinj : Set.InjOn (pairAt t' z' qt') (↑(Finset.Icc kb m) : Set Nat) := by
      intro i hi j hj hij
      simp only [Finset.coe_Icc, Set.mem_Icc] at hi hj
      have hui := husedj i hi.1 hi.2
      have huj := husedj j hj.1 hj.2
      have := pair_eq h' h' (by omega) (by omega) hui huj hij
      exact h'.slot_inj (by omega) (by omega) hui huj this.1 this.2
    have hcardA : A.card = m + 1 - kb := by
      rw [Finset.card_image_of_injOn hinj, Nat.card_Icc]
    have hcardB : B.card ≤ m - kb := by
      calc B.card ≤ (Finset.Ico (N - (m - kb)) N).card := Finset.card_image_le
        _ = m - kb := by rw [Nat.card_Ico]; omega
    have hsub : A ⊆ B := by
      intro x hx
      obtain ⟨j, hj, rfl⟩ := Finset.mem_image.mp hx
      simp only [Finset.mem_Icc] at hj
      have huj := husedj j hj.1 hj.2
      have hq1 := hge j hj.1 (by omega) huj
      have hq2 := h'.mono hm hj.2 huj hum
      obtain ⟨k, hk, hu, hp, hr⟩ := (hA _ _).mpr ⟨j, by omega, huj, rfl, rfl⟩
      have hle := h.le k hk hu
      have hconv : pos (pos z' m) (N - (m - qt' j)) = pos z' (qt' j) := by
        rw [pos_pos, ← pos_add_N z' (qt' j)]; congr 1; omega
      have hqk : qt k = N - (m - qt' j) := by
        apply pos_inj (z := pos z' m) (by omega) (by omega)
        rw [hp, hconv]
      refine Finset.mem_image.mpr ⟨k, Finset.mem_Ico.mpr ⟨by omega, hk⟩, ?_⟩
      simp only [pairAt, hp, hr]
    have := Finset.card_le_card hsub
    omega

/-- two well-formed tables with the same contents agree in every slot (bits, and remainders of
used slots) -/
theorem stores_agree {t t' : St N} {P : Fin N → Nat → Prop} (hs : Stores t P) (hs' : Stores t' P) :
    ∀ p, SlotAgree (t.get p) (t'.get p) := by
  obtain ⟨z, qt, h, hP⟩ := hs
  obtain ⟨z', qt', h', hP'⟩ := hs'
  have hA : ∀ a r, Abs t z qt a r ↔ Abs t' z' qt' a r := fun a r => by rw [hP, hP']
  have hsh := common_ref h h' hA
  obtain ⟨m, hm, hz⟩ := exists_pos z' z
  have hsh' : (t'.at z' m).shift = false := by rw [← hz] at hsh; exact hsh
  have h'' := h'.rebase hm hsh'
  have hA'' : ∀ a r, Abs t z qt a r ↔ Abs t' (pos z' m) (rebQt N m qt') a r := fun a r => by
    rw [hA, h'.rebase_abs hm hsh']
  rw [hz] at h'' hA''
  intro p
  obtain ⟨k, hk, rfl⟩ := exists_pos z p
  exact same_ref_agree h h'' hA'' k hk

end Pds.Quotient
