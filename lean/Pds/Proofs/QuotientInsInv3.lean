import Pds.Proofs.QuotientInsInv2
/-!
Sortedness after insertion, the assembled invariant, and the abstraction after insertion.
-/
namespace Pds.Quotient
variable {N : Nat}
namespace InsData
variable {t tf : St N} {z : Fin N} {qt qt' : Nat → Nat} {ka r kp ke : Nat}

theorem new_sorted (D : InsData t tf z qt qt' ka r kp ke) :
    ∀ k, k + 1 < N → (tf.at z (k + 1)).used = true → (tf.at z (k + 1)).cont = true →
    (tf.at z k).rem < (tf.at z (k + 1)).rem := by
  intro k hk hu hc
  have h := D.inv
  have hkpN : kp ≤ ke := D.kp_le
  have hkeN : ke < N := D.ke_lt
  rcases Nat.lt_trichotomy (k + 1) kp with c | c | c
  · rw [(D.out (k + 1) hk (Or.inl c)).1] at hc
    rw [(D.out (k + 1) hk (Or.inl c)).2.2, (D.out k (by omega) (Or.inl (by omega))).2.2]
    exact h.sorted k hk (D.low _ c).1 hc
  · rw [c] at hc ⊢
    have := D.at_kp_cont.mp hc
    rw [show kp - 1 = k by omega] at this
    have hl := (D.low k (by omega)).2
    rw [D.at_kp_rem, (D.out k (by omega) (Or.inl (by omega))).2.2]
    omega
  · by_cases c2 : k + 1 ≤ ke
    · by_cases c3 : k = kp
      · subst c3
        have := (D.at_kp1_cont (by omega)).mp hc
        have hh := D.hi (by omega)
        rw [D.at_kp_rem, D.mid_rem k (Nat.le_refl _) (by omega)]
        omega
      · obtain ⟨j, rfl⟩ : ∃ j, k = j + 1 := ⟨k - 1, by omega⟩
        rw [D.mid_cont (j + 1) (by omega) (by omega)] at hc
        rw [D.mid_rem (j + 1) (by omega) (by omega), D.mid_rem j (by omega) (by omega)]
        exact h.sorted j (by omega) (D.used_mid (j + 1) (by omega) (by omega)) hc
    · have hu1 := D.used_of_used' hk (by omega) hu
      rw [(D.out (k + 1) hk (Or.inr (by omega))).1] at hc
      have hcc := (h.cont k hk hu1).mp hc
      have hne : k ≠ ke := by intro e; rw [e, D.unused_ke] at hcc; cases hcc.1
      rw [(D.out (k + 1) hk (Or.inr (by omega))).2.2, (D.out k (by omega) (Or.inr (by omega))).2.2]
      exact h.sorted k hk hu1 hc

/-- the state after the insertion satisfies the invariant -/
theorem linv (D : InsData t tf z qt qt' ka r kp ke) : LInv tf z qt' where
  z0 := D.new_z0
  le := D.new_le
  chain := D.new_chain
  shift := D.new_shift
  cont0 := D.new_cont0
  cont := D.new_cont
  occ := D.new_occ
  sorted := D.new_sorted
  emp := D.new_emp

/-- … and stores exactly one more pair -/
theorem abs (D : InsData t tf z qt qt' ka r kp ke) (a' : Fin N) (r' : Nat) :
    Abs tf z qt' a' r' ↔ (Abs t z qt a' r' ∨ (a' = pos z ka ∧ r' = r)) := by
  have hkpN : kp ≤ ke := D.kp_le
  have hkeN : ke < N := D.ke_lt
  constructor
  · rintro ⟨k, hk, hu, hq, hr⟩
    rcases Nat.lt_trichotomy k kp with c | c | c
    · rw [D.qt'_out k (Or.inl c)] at hq; rw [(D.out k hk (Or.inl c)).2.2] at hr
      exact Or.inl ⟨k, hk, (D.low k c).1, hq, hr⟩
    · subst c; rw [D.qt'_kp] at hq; rw [D.at_kp_rem] at hr
      exact Or.inr ⟨hq.symm, hr.symm⟩
    · by_cases c2 : k ≤ ke
      · obtain ⟨j, rfl⟩ : ∃ j, k = j + 1 := ⟨k - 1, by omega⟩
        rw [D.qt'_mid j (by omega) (by omega)] at hq
        rw [D.mid_rem j (by omega) (by omega)] at hr
        exact Or.inl ⟨j, by omega, D.used_mid j (by omega) (by omega), hq, hr⟩
      · rw [D.qt'_out k (Or.inr (by omega))] at hq; rw [(D.out k hk (Or.inr (by omega))).2.2] at hr
        exact Or.inl ⟨k, hk, D.used_of_used' hk (by omega) hu, hq, hr⟩
  · rintro (⟨k, hk, hu, hq, hr⟩ | ⟨rfl, rfl⟩)
    · by_cases c : k < kp
      · exact ⟨k, hk, D.used'_of_used hk hu, by rw [D.qt'_out k (Or.inl c)]; exact hq,
          by rw [(D.out k hk (Or.inl c)).2.2]; exact hr⟩
      · by_cases c2 : k < ke
        · have hu' : (tf.at z (k + 1)).used = true := by
            apply (D.used' (by omega)).mpr
            by_cases e : k + 1 = ke
            · exact Or.inr e
            · exact Or.inl (D.used_mid (k + 1) (by omega) (by omega))
          exact ⟨k + 1, by omega, hu', by rw [D.qt'_mid k (by omega) c2]; exact hq,
            by rw [D.mid_rem k (by omega) c2]; exact hr⟩
        · have hne : k ≠ ke := by intro e; rw [e, D.unused_ke] at hu; cases hu
          exact ⟨k, hk, D.used'_of_used hk hu, by rw [D.qt'_out k (Or.inr (by omega))]; exact hq,
            by rw [(D.out k hk (Or.inr (by omega))).2.2]; exact hr⟩
    · exact ⟨kp, by omega, D.used'_kp, by rw [D.qt'_kp], D.at_kp_rem⟩

end InsData
end Pds.Quotient
