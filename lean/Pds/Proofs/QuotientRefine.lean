import Pds.Proofs.QuotientGen
import Mathlib.Data.Finset.Card
/-!
The finite-set view: `Rep t S` — the table `t` represents the finite set `S` of
(quotient, remainder) pairs — and the refinement of histories of inserts.
-/
namespace Pds.Quotient
variable {N : Nat}

/-- `t` is well formed, stores exactly the pairs in `S`, and its counter is `|S|` -/
def Rep (t : St N) (S : Finset (Fin N × Nat)) : Prop :=
  Stores t (fun a r => (a, r) ∈ S) ∧ t.n = S.card

theorem rep_empty (hN : 0 < N) : Rep (empty N) ∅ := by
  refine ⟨?_, by simp⟩
  have := stores_empty hN
  simpa using this

/-- the pair stored in slot `k` -/
def pairAt (t : St N) (z : Fin N) (qt : Nat → Nat) (k : Nat) : Fin N × Nat :=
  (pos z (qt k), (t.at z k).rem)

theorem pairAt_injOn {t : St N} {z : Fin N} {qt : Nat → Nat} (h : LInv t z qt)
    (hall : ∀ k, k < N → (t.at z k).used = true) :
    Set.InjOn (pairAt t z qt) (↑(Finset.range N) : Set Nat) := by
  intro i hi j hj hij
  simp only [Finset.coe_range, Set.mem_Iio] at hi hj
  simp only [pairAt, Prod.mk.injEq] at hij
  have h1 := h.le i hi (hall i hi)
  have h2 := h.le j hj (hall j hj)
  exact h.slot_inj hi hj (hall i hi) (hall j hj) (pos_inj (by omega) (by omega) hij.1) hij.2

/-- a table with fewer than `N` elements has an unused slot -/
theorem rep_free {t : St N} {S : Finset (Fin N × Nat)} (hr : Rep t S) (hn : t.n < N) :
    ∃ p, (t.get p).used = false := by
  obtain ⟨⟨z, qt, h, hP⟩, hcard⟩ := hr
  by_cases hall : ∀ k, k < N → (t.at z k).used = true
  · exfalso
    have hmaps : Set.MapsTo (pairAt t z qt) (↑(Finset.range N) : Set Nat) (↑S : Set (Fin N × Nat)) := by
      intro k hk
      simp only [Finset.coe_range, Set.mem_Iio] at hk
      have : Abs t z qt (pos z (qt k)) (t.at z k).rem := ⟨k, hk, hall k hk, rfl, rfl⟩
      exact (hP _ _).mp this
    have := Finset.card_le_card_of_injOn _ hmaps (pairAt_injOn h hall)
    rw [Finset.card_range] at this
    omega
  · have : ∃ k, k < N ∧ (t.at z k).used = false := by
      by_cases hx : ∃ k, k < N ∧ (t.at z k).used = false
      · exact hx
      · exfalso; apply hall
        intro k hk
        cases hu : (t.at z k).used
        · exact absurd ⟨k, hk, hu⟩ hx
        · rfl
    obtain ⟨k, _, hu⟩ := this
    exact ⟨pos z k, hu⟩

/-- a represented set never has more than `N` elements -/
theorem rep_card_le {t : St N} {S : Finset (Fin N × Nat)} (hr : Rep t S) : S.card ≤ N := by
  obtain ⟨⟨z, qt, h, hP⟩, _⟩ := hr
  have hsub : S ⊆ Finset.image (pairAt t z qt) (Finset.range N) := by
    intro x hx
    obtain ⟨a, r⟩ := x
    obtain ⟨k, hk, _, hq, hr⟩ := (hP a r).mpr hx
    exact Finset.mem_image.mpr ⟨k, Finset.mem_range.mpr hk, by simp [pairAt, hq, hr]⟩
  calc S.card ≤ (Finset.image (pairAt t z qt) (Finset.range N)).card := Finset.card_le_card hsub
    _ ≤ (Finset.range N).card := Finset.card_image_le
    _ = N := Finset.card_range N

/-- `scan` (both modes) decides membership -/
theorem rep_scan {t : St N} {S : Finset (Fin N × Nat)} (hr : Rep t S) (a : Fin N) (r : Nat)
    (oi : Bool) : ∃ sr, scan t a r oi = some sr ∧ (sr.present = true ↔ (a, r) ∈ S) :=
  scan_gen hr.1 a r oi

/-- specification of one insert on the abstract set -/
def specStep (S : Finset (Fin N × Nat)) (x : Fin N × Nat) : Finset (Fin N × Nat) × Res :=
  if x ∈ S then (S, .ok false) else if S.card = N then (S, .full) else (Insert.insert x S, .ok true)

/-- the model refines the specification, one insert at a time -/
theorem rep_insert {t : St N} {S : Finset (Fin N × Nat)} (hr : Rep t S) (x : Fin N × Nat) :
    ∃ t', insertInternal t x.1 x.2 = some (t', (specStep S x).2) ∧ Rep t' (specStep S x).1 := by
  obtain ⟨a, r⟩ := x
  unfold specStep
  by_cases hmem : (a, r) ∈ S
  · rw [if_pos hmem]
    exact ⟨t, insert_known hr.1 hmem, hr⟩
  · rw [if_neg hmem]
    by_cases hfull : S.card = N
    · rw [if_pos hfull]
      exact ⟨t, insert_full hr.1 hmem (by rw [hr.2, hfull]), hr⟩
    · rw [if_neg hfull]
      have hle := rep_card_le hr
      have hlt : t.n < N := by rw [hr.2]; omega
      obtain ⟨tf, h1, h2, h3, _⟩ := insert_fresh hr.1 hmem (by omega) (rep_free hr hlt)
      refine ⟨tf, h1, ?_, ?_⟩
      · obtain ⟨z, qt, hi, hP⟩ := h3
        refine ⟨z, qt, hi, ?_⟩
        intro a' r'
        rw [hP]
        show ((a', r') ∈ S ∨ a' = a ∧ r' = r) ↔ (a', r') ∈ Insert.insert (a, r) S
        rw [Finset.mem_insert, Prod.mk.injEq]
        exact or_comm
      · rw [h2, hr.2, Finset.card_insert_of_notMem hmem]

/-- run a history of inserts on the model; `none` = panic or non-termination -/
def runFrom (t : St N) : List (Fin N × Nat) → Option (St N × List Res)
  | [] => some (t, [])
  | x :: xs =>
    match insertInternal t x.1 x.2 with
    | none => none
    | some (t', res) => (runFrom t' xs).map (fun p => (p.1, res :: p.2))

/-- run a history on the abstract set -/
def specFrom (S : Finset (Fin N × Nat)) : List (Fin N × Nat) → Finset (Fin N × Nat) × List Res
  | [] => (S, [])
  | x :: xs => ((specFrom (specStep S x).1 xs).1, (specStep S x).2 :: (specFrom (specStep S x).1 xs).2)

theorem rep_run {t : St N} {S : Finset (Fin N × Nat)} (hr : Rep t S) (h : List (Fin N × Nat)) :
    ∃ t', runFrom t h = some (t', (specFrom S h).2) ∧ Rep t' (specFrom S h).1 := by
  induction h generalizing t S with
  | nil => exact ⟨t, rfl, hr⟩
  | cons x xs ih =>
    obtain ⟨t1, h1, h2⟩ := rep_insert hr x
    obtain ⟨t2, h3, h4⟩ := ih h2
    refine ⟨t2, ?_, h4⟩
    simp [runFrom, specFrom, h1, h3]

end Pds.Quotient
