import Pds.Proofs.QuotientSwap
import Pds.Proofs.QuotientInsInv3
/-!
`insertInternal` relative to the start `z` of the cluster of the quotient slot: unfolding the
computation into the slot-by-slot description `InsData`.
-/
namespace Pds.Quotient
variable {N : Nat}

/-- the state after writing the new remainder at the scan position -/
def insT1 (t : St N) (sr : ScanResult N) (a : Fin N) (r : Nat) : St N :=
  let cur := t.get sr.position
  let s1 : Slot := { cur with rem := r }
  let s2 : Slot := if sr.hasRun && !sr.atStartOfRun then { s1 with cont := true } else s1
  let s3 : Slot := if sr.position != a then { s2 with shift := true } else s2
  t.set sr.position s3

def insFin (t2 : St N) (a : Fin N) : St N :=
  let t3 := t2.set a { t2.get a with occ := true }
  { t3 with n := t3.n + 1 }

theorem insertInternal_eq (t : St N) (a : Fin N) (r : Nat) :
    insertInternal t a r =
      match scan t a r true with
      | none => none
      | some sr =>
        if sr.present then some (t, .ok false) else
        if t.n = N then some (t, .full) else
        match swapLoop (insT1 t sr a r) sr.position (N + 1) sr.position
            ((t.get sr.position).cont || sr.atStartOfRun) (t.get sr.position).rem
            (t.get sr.position).used with
        | none => none
        | some t2 => some (insFin t2 a, .ok true) := rfl

theorem insT1_slot (t : St N) (sr : ScanResult N) (a : Fin N) (r : Nat) :
    insT1 t sr a r = t.set sr.position
      ⟨(t.get sr.position).occ, (sr.hasRun && !sr.atStartOfRun) || (t.get sr.position).cont,
        (sr.position != a) || (t.get sr.position).shift, r⟩ := by
  unfold insT1
  cases (sr.hasRun && !sr.atStartOfRun) <;> cases (sr.position != a) <;> simp

theorem insFin_at (t2 : St N) (z : Fin N) {ka k : Nat} (hka : ka < N) (hk : k < N) :
    (insFin t2 (pos z ka)).at z k =
      if k = ka then { t2.at z k with occ := true } else t2.at z k := by
  have : (insFin t2 (pos z ka)).at z k = (t2.set (pos z ka) { t2.get (pos z ka) with occ := true }).at z k := rfl
  rw [this, at_set t2 z hka hk]
  by_cases e : k = ka
  · subst e; simp [St.at]
  · simp [e]

theorem first_unused (t : St N) (z : Fin N) : ∀ d kp, (t.at z (kp + d)).used = false →
    ∃ ke, kp ≤ ke ∧ ke ≤ kp + d ∧ (t.at z ke).used = false ∧
      ∀ k, kp ≤ k → k < ke → (t.at z k).used = true := by
  intro d
  induction d with
  | zero => intro kp h; exact ⟨kp, Nat.le_refl _, Nat.le_refl _, h, fun k h1 h2 => by omega⟩
  | succ d ih =>
    intro kp h
    cases hu : (t.at z kp).used
    · exact ⟨kp, Nat.le_refl _, by omega, hu, fun k h1 h2 => by omega⟩
    · obtain ⟨ke, h1, h2, h3, h4⟩ := ih (kp + 1) (by rwa [show kp + 1 + d = kp + (d + 1) by omega])
      refine ⟨ke, by omega, by omega, h3, ?_⟩
      intro k hk1 hk2
      by_cases e : k = kp
      · subst e; exact hu
      · exact h4 k (by omega) hk2

section flags
variable {t : St N} {z : Fin N} {qt : Nat → Nat} {ka r kp ks : Nat} {sr : ScanResult N}

theorem flags_hasRun (IP : InsPoint t z qt ka r sr kp ks) : sr.hasRun = (t.at z ka).occ := by
  unfold ScanResult.hasRun; rw [IP.start]
  cases (t.at z ka).occ <;> simp

theorem flags_atStart (IP : InsPoint t z qt ka r sr kp ks) (hkp : kp < N) :
    sr.atStartOfRun = ((t.at z ka).occ && decide (ks = kp)) := by
  unfold ScanResult.atStartOfRun; rw [IP.start, IP.pos_eq]
  cases (t.at z ka).occ
  · simp
  · by_cases e : ks = kp
    · subst e; simp
    · have : (pos z ks == pos z kp) = false := by
        rw [beq_eq_false_iff_ne]; intro hp
        exact e (pos_inj (by have := IP.ks_le; omega) hkp hp)
      simp [this, e]

theorem flags_neq (IP : InsPoint t z qt ka r sr kp ks) (hkp : kp < N) (hka : ka < N) :
    (sr.position != pos z ka) = decide (kp ≠ ka) := by
  rw [IP.pos_eq]
  by_cases e : kp = ka
  · subst e; simp
  · have : pos z kp ≠ pos z ka := fun hp => e (pos_inj hkp hka hp)
    simp [this, e]

/-- the new element continues a run iff its left neighbour has the same quotient -/
theorem newCont_iff (h : LInv t z qt) (IP : InsPoint t z qt ka r sr kp ks) (hkp : kp < N) :
    (((sr.hasRun && !sr.atStartOfRun) || (t.at z kp).cont) = true ↔ 0 < kp ∧ qt (kp - 1) = ka) := by
  rw [flags_hasRun IP, flags_atStart IP hkp]
  have hks := IP.ks_le
  by_cases c : ks < kp
  · have hm := IP.mid (kp - 1) (by omega) (by omega)
    cases ho : (t.at z ka).occ
    · have := IP.noocc ho; omega
    · have : ¬ ks = kp := by omega
      simp only [this, decide_false, Bool.and_false, Bool.not_false, Bool.and_self, Bool.true_or, true_iff]
      exact ⟨by omega, hm.2.1⟩
  · have e : ks = kp := by omega
    subst e
    have hc : (t.at z ks).cont = false := by
      cases hu : (t.at z ks).used
      · exact h.emp ks hkp hu
      · rcases ks with _ | j
        · exact h.cont0
        · cases hc : (t.at z (j + 1)).cont
          · rfl
          · have h1 := (h.cont j hkp hu).mp hc
            have h2 := (IP.low j (by omega)).2
            have h3 := IP.hi hkp hu
            omega
    have hr : ¬ (0 < ks ∧ qt (ks - 1) = ka) := by
      rintro ⟨h1, h2⟩
      have := (IP.low (ks - 1) (by omega)).2; omega
    simp only [hc, hr, iff_false]
    cases (t.at z ka).occ <;> simp

/-- the displaced element becomes a continuation iff it belongs to the run of the new element -/
theorem curCont_iff (h : LInv t z qt) (hka : ka < N) (IP : InsPoint t z qt ka r sr kp ks) (hkp : kp < N)
    (hu : (t.at z kp).used = true) :
    (((t.at z kp).cont || sr.atStartOfRun) = true ↔ qt kp = ka) := by
  rw [flags_atStart IP hkp]
  have hks := IP.ks_le
  have hhi := IP.hi hkp hu
  constructor
  · intro hx
    simp only [Bool.or_eq_true, Bool.and_eq_true, decide_eq_true_eq] at hx
    rcases hx with hx | ⟨h1, h2⟩
    · rcases kp with _ | j
      · rw [h.cont0] at hx; cases hx
      · have h1 := (h.cont j hkp hu).mp hx
        have h2 : qt j ≤ ka := by
          by_cases c : j < ks
          · have := (IP.low j c).2; omega
          · have := (IP.mid j (by omega) (by omega)).2.1; omega
        omega
    · subst h2; exact (IP.occ_run h1).2.2
  · intro hq
    have ho : (t.at z ka).occ = true := (h.occ ka hka).mpr ⟨kp, hkp, hu, hq⟩
    by_cases c : ks = kp
    · simp [ho, c]
    · obtain ⟨j, rfl⟩ : ∃ j, kp = j + 1 := ⟨kp - 1, by omega⟩
      have hm := IP.mid j (by omega) (by omega)
      have := (h.cont j hkp hu).mpr ⟨hm.1, by omega⟩
      simp [this]

end flags
end Pds.Quotient
