/-
Space bound of the `LossyCounter` model (Manku–Motwani): at most `width * H(⌈n/width⌉)` entries.
-/
import Pds.Proofs.LossyQuery
import Pds.Proofs.LossyHarmonic
namespace Pds.Proofs.Lossy
open Pds.Lossy Pds.Proofs.LossyHarmonic

theorem sum_map_le {α : Type} (l : List α) (g h : α → Nat) (hle : ∀ a ∈ l, g a ≤ h a) :
    (l.map g).sum ≤ (l.map h).sum := by
  induction l with
  | nil => simp
  | cons a l ih =>
    simp only [List.map_cons, List.sum_cons]
    have h1 := hle a (by simp)
    have h2 := ih (fun a ha => hle a (by simp [ha]))
    omega

theorem count_add_filter_ne (k : Nat) (ys : List Nat) :
    ys.count k + (ys.filter (· != k)).length = ys.length := by
  induction ys with
  | nil => simp
  | cons y ys ih =>
    by_cases h : y = k
    · subst h; simp; omega
    · simp [h]; omega

/-- distinct keys account for disjoint parts of a stream -/
theorem sum_count_le (ks : List Nat) (hnd : ks.Nodup) (ys : List Nat) :
    (ks.map (fun k => ys.count k)).sum ≤ ys.length := by
  induction ks generalizing ys with
  | nil => simp
  | cons k ks ih =>
    have hnd' := List.nodup_cons.1 hnd
    simp only [List.map_cons, List.sum_cons]
    have h1 : (ks.map (fun k' => ys.count k')).sum
        = (ks.map (fun k' => (ys.filter (· != k)).count k')).sum := by
      congr 1
      apply List.map_congr_left
      intro k' hk'
      rw [List.count_filter]
      simp only [bne_iff_ne, ne_eq]
      rintro rfl
      exact hnd'.1 hk'
    rw [h1]
    have h2 := ih hnd'.2 (ys.filter (· != k))
    have h3 := count_add_filter_ne k ys
    omega

theorem ceil_le_div_succ {n w : Nat} (hw : 0 < w) : (n + w - 1) / w ≤ n / w + 1 := by
  have h : (n + w - 1) / w < n / w + 2 := by
    rw [Nat.div_lt_iff_lt_mul hw, Nat.add_mul]
    have h1 := Nat.div_add_mod n w
    have h2 := Nat.mod_lt n hw
    rw [Nat.mul_comm] at h1
    omega
  omega

theorem le_ceil_mul {n w : Nat} (hw : 0 < w) : n ≤ (n + w - 1) / w * w := by
  have h1 := Nat.div_add_mod (n + w - 1) w
  have h2 := Nat.mod_lt (n + w - 1) hw
  rw [Nat.mul_comm] at h1
  omega

theorem drop_count_mono (xs : List Nat) (k : Nat) {a b : Nat} (h : a ≤ b) :
    (xs.drop b).count k ≤ (xs.drop a).count k := by
  have : xs.drop b = (xs.drop a).drop (b - a) := by
    rw [List.drop_drop]; congr 1; omega
  rw [this]
  exact List.Sublist.count_le k (List.drop_sublist _ _)

/-- the entries whose window is among the last `j` account for at most `j * w` stream elements -/
theorem recent_sum_le {w : Nat} (hw : 1 ≤ w) (xs : List Nat) (j : Nat)
    (hj : j ≤ (xs.length + w - 1) / w) :
    ((((after w xs).known.filter
        (fun e => decide ((xs.length + w - 1) / w - e.delta ≤ j))).map (·.f)).sum) ≤ j * w := by
  have inv := inv_run w xs
  generalize hb : (xs.length + w - 1) / w = b at *
  generalize hK : (after w xs).known.filter (fun e => decide (b - e.delta ≤ j)) = K
  have hKmem : ∀ e ∈ K, e ∈ (after w xs).known ∧ b - e.delta ≤ j := by
    intro e he; rw [← hK] at he
    have := List.mem_filter.1 he
    exact ⟨this.1, by simpa using this.2⟩
  have hKnd : (keys K).Nodup := by rw [← hK]; exact keys_filter_nodup _ inv.nodup
  let ys := xs.drop ((b - j) * w)
  have step1 : (K.map (·.f)).sum ≤ (K.map (fun e => ys.count e.key)).sum := by
    apply sum_map_le
    intro e he
    obtain ⟨hm, hle⟩ := hKmem e he
    have ok := inv.entries e hm
    have h1 : (b - j) * w ≤ e.delta * w := Nat.mul_le_mul_right _ (by omega)
    exact Nat.le_trans ok.recent (drop_count_mono xs e.key h1)
  have step2 : (K.map (fun e => ys.count e.key)).sum ≤ ys.length := by
    have := sum_count_le (keys K) hKnd ys
    simpa [keys, List.map_map, Function.comp_def] using this
  have step3 : ys.length ≤ j * w := by
    have h1 : xs.length ≤ b * w := by rw [← hb]; exact le_ceil_mul hw
    have h2 : b * w = (b - j) * w + j * w := by rw [← Nat.add_mul]; congr 1; omega
    simp only [ys, List.length_drop]
    omega
  omega

/-- `|known| ≤ width * H(⌈n/width⌉)` -/
theorem size_le_harmonic {w : Nat} (hw : 1 ≤ w) (xs : List Nat) :
    ((after w xs).known.length : ℚ) ≤ w * H ((xs.length + w - 1) / w) := by
  have inv := inv_run w xs
  let b := (xs.length + w - 1) / w
  let l : List (Nat × Nat) := (after w xs).known.map (fun e => (b - e.delta, e.f))
  have hl : ∀ p ∈ l, 1 ≤ p.1 ∧ p.1 ≤ b ∧ p.1 ≤ p.2 := by
    intro p hp
    obtain ⟨e, he, rfl⟩ := List.mem_map.1 hp
    have ok := inv.entries e he
    have h1 : e.delta + 1 ≤ b := (delta_ceil_iff hw).2 ok.delta_lt
    have h2 := inv.alive e he
    have h3 : b ≤ xs.length / w + 1 := ceil_le_div_succ hw
    dsimp only
    omega
  have hsum : ∀ j, j ≤ b → ((l.filter (fun p => decide (p.1 ≤ j))).map (·.2)).sum ≤ j * w := by
    intro j hj
    have := recent_sum_le hw xs j hj
    simpa [l, List.filter_map, List.map_map, Function.comp_def] using this
  have := harmonic_count w b l hl hsum
  simpa [l] using this

end Pds.Proofs.Lossy
