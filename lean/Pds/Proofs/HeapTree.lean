/-
List-level facts about the two indexes of the `CMSHeap` model: the ordered `tree`
(`treeInsert`/`treeRemove`, order `lt` on `(count, key)`) and the association list `obj2count`
(`lookup`/`mapSet`/`mapRemove`).
-/
import Pds.Model.CmsHeap
namespace Pds.Proofs.Heap
open Pds.CmsHeap

/-- strictly ascending for `(count, key)` -/
abbrev Sorted (t : List (Nat × Nat)) : Prop := t.Pairwise (fun a b => lt a b = true)

/-- the keys of `obj2count` -/
def keys (m : List (Nat × Nat)) : List Nat := m.map Prod.fst

theorem snoc_induction {α : Type} {P : List α → Prop} (nil : P [])
    (snoc : ∀ xs x, P xs → P (xs ++ [x])) : ∀ xs, P xs := by
  intro xs
  rw [← List.reverse_reverse xs]
  induction xs.reverse with
  | nil => exact nil
  | cons a l ih => rw [List.reverse_cons]; exact snoc _ _ ih

theorem count_snoc_self (xs : List Nat) (z : Nat) : (xs ++ [z]).count z = xs.count z + 1 := by
  simp [List.count_append]

theorem count_snoc_ne (xs : List Nat) {x z : Nat} (h : x ≠ z) : (xs ++ [z]).count x = xs.count x := by
  simp [List.count_append, Ne.symm h]

theorem nodup_subset_length_le {l₁ l₂ : List Nat} (hnd : l₁.Nodup) (hsub : ∀ a ∈ l₁, a ∈ l₂) :
    l₁.length ≤ l₂.length := by
  induction l₁ generalizing l₂ with
  | nil => simp
  | cons a l ih =>
    have hnd' := List.nodup_cons.1 hnd
    have ha : a ∈ l₂ := hsub a (by simp)
    have h1 : l.length ≤ (l₂.erase a).length := by
      apply ih hnd'.2
      intro b hb
      have hne : b ≠ a := fun h => hnd'.1 (h ▸ hb)
      exact (List.mem_erase_of_ne hne).2 (hsub b (by simp [hb]))
    have h2 := List.length_erase_of_mem ha
    have h3 : 0 < l₂.length := List.length_pos_of_mem ha
    simp only [List.length_cons]
    omega

/-! ### the order -/

theorem lt_iff (a b : Nat × Nat) : lt a b = true ↔ a.1 < b.1 ∨ (a.1 = b.1 ∧ a.2 < b.2) := by
  simp [lt]

theorem lt_trans {a b c : Nat × Nat} (h1 : lt a b = true) (h2 : lt b c = true) : lt a c = true := by
  rw [lt_iff] at *; omega

theorem lt_of_not {a b : Nat × Nat} (h1 : ¬ lt a b = true) (h2 : a ≠ b) : lt b a = true := by
  rw [lt_iff] at *
  have : ¬ (a.1 = b.1 ∧ a.2 = b.2) := fun h => h2 (Prod.ext h.1 h.2)
  omega

theorem lt_irrefl (a : Nat × Nat) : ¬ lt a a = true := by
  rw [lt_iff]; omega

theorem lt_fst_le {a b : Nat × Nat} (h : lt a b = true) : a.1 ≤ b.1 := by
  rw [lt_iff] at h; omega

theorem sorted_nodup {t : List (Nat × Nat)} (h : Sorted t) : t.Nodup := by
  apply List.Pairwise.imp _ h
  intro a b hab heq
  subst heq
  exact lt_irrefl a hab

/-- the first entry of the tree is a minimum -/
theorem head_le {mn : Nat × Nat} {t : List (Nat × Nat)} (h : Sorted (mn :: t)) :
    ∀ a ∈ mn :: t, mn.1 ≤ a.1 := by
  intro a ha
  rcases List.mem_cons.1 ha with rfl | ha
  · exact Nat.le_refl _
  · exact lt_fst_le ((List.pairwise_cons.1 h).1 a ha)

/-! ### `treeInsert`, `treeRemove` -/

theorem mem_treeInsert (e a : Nat × Nat) (t : List (Nat × Nat)) :
    a ∈ treeInsert e t ↔ a = e ∨ a ∈ t := by
  induction t with
  | nil => simp [treeInsert]
  | cons x xs ih =>
    simp only [treeInsert]
    split
    · simp
    · split
      · rename_i h
        have hx : e = x := by simpa using h
        subst hx; simp
      · simp [ih, or_left_comm]

theorem sorted_treeInsert (e : Nat × Nat) {t : List (Nat × Nat)} (h : Sorted t) :
    Sorted (treeInsert e t) := by
  induction t with
  | nil => simp [treeInsert]
  | cons x xs ih =>
    have hx := List.pairwise_cons.1 h
    simp only [treeInsert]
    split
    · rename_i hlt
      refine List.pairwise_cons.2 ⟨?_, h⟩
      intro a ha
      rcases List.mem_cons.1 ha with rfl | ha
      · exact hlt
      · exact lt_trans hlt (hx.1 a ha)
    · split
      · exact h
      · rename_i hnlt hne
        have hne' : e ≠ x := by simpa using hne
        refine List.pairwise_cons.2 ⟨?_, ih hx.2⟩
        intro a ha
        rcases (mem_treeInsert e a xs).1 ha with rfl | ha
        · exact lt_of_not hnlt hne'
        · exact hx.1 a ha

theorem mem_treeRemove (e a : Nat × Nat) (t : List (Nat × Nat)) :
    a ∈ treeRemove e t ↔ a ∈ t ∧ a ≠ e := by
  simp [treeRemove]

theorem sorted_treeRemove (e : Nat × Nat) {t : List (Nat × Nat)} (h : Sorted t) :
    Sorted (treeRemove e t) :=
  List.Pairwise.filter _ h

/-! ### `lookup`, `mapSet`, `mapRemove` -/

theorem lookup_none_iff (x : Nat) (m : List (Nat × Nat)) : lookup x m = none ↔ x ∉ keys m := by
  induction m with
  | nil => simp [lookup, keys]
  | cons p rest ih =>
    obtain ⟨k, n⟩ := p
    simp only [lookup, keys, List.map_cons, List.mem_cons, not_or]
    by_cases h : k = x
    · simp [h]
    · simp only [h, if_false]
      rw [ih]; simp [keys, Ne.symm h]

theorem lookup_some_mem {x n : Nat} {m : List (Nat × Nat)} (h : lookup x m = some n) : (x, n) ∈ m := by
  induction m with
  | nil => simp [lookup] at h
  | cons p rest ih =>
    obtain ⟨k, c⟩ := p
    simp only [lookup] at h
    by_cases hk : k = x
    · rw [if_pos hk] at h
      have : c = n := by simpa using h
      subst this; subst hk; simp
    · rw [if_neg hk] at h
      simp [ih h]

/-- distinct keys: the association list is a function -/
theorem functional {m : List (Nat × Nat)} (hnd : (keys m).Nodup) {x a b : Nat}
    (ha : (x, a) ∈ m) (hb : (x, b) ∈ m) : a = b := by
  induction m with
  | nil => simp at ha
  | cons p rest ih =>
    simp only [keys, List.map_cons, List.nodup_cons] at hnd
    rcases List.mem_cons.1 ha with ha | ha <;> rcases List.mem_cons.1 hb with hb | hb
    · rw [← ha] at hb; exact (Prod.mk.inj hb).2.symm
    · exact absurd (List.mem_map.2 ⟨(x, b), hb, by rw [← ha]⟩) hnd.1
    · exact absurd (List.mem_map.2 ⟨(x, a), ha, by rw [← hb]⟩) hnd.1
    · exact ih hnd.2 ha hb

theorem mem_keys_of_mem {m : List (Nat × Nat)} {p : Nat × Nat} (h : p ∈ m) : p.1 ∈ keys m :=
  List.mem_map.2 ⟨p, h, rfl⟩

theorem mapSet_of_not_mem {x n : Nat} {m : List (Nat × Nat)} (h : x ∉ keys m) :
    mapSet x n m = m ++ [(x, n)] := by
  induction m with
  | nil => simp [mapSet]
  | cons p rest ih =>
    obtain ⟨k, c⟩ := p
    simp only [keys, List.map_cons, List.mem_cons, not_or] at h
    have hk : ¬ k = x := fun hh => h.1 hh.symm
    simp only [mapSet, hk, if_false, List.cons_append]
    rw [ih h.2]

theorem keys_mapSet_of_mem {x n : Nat} {m : List (Nat × Nat)} (h : x ∈ keys m) :
    keys (mapSet x n m) = keys m := by
  induction m with
  | nil => simp [keys] at h
  | cons p rest ih =>
    obtain ⟨k, c⟩ := p
    by_cases hk : k = x
    · simp [mapSet, hk, keys]
    · have hx : x ∈ keys rest := by
        simp only [keys, List.map_cons, List.mem_cons] at h
        rcases h with h | h
        · exact absurd h.symm hk
        · exact h
      simp only [mapSet, hk, if_false, keys, List.map_cons]
      have := ih hx
      simp only [keys] at this
      rw [this]

/-- with distinct keys, `mapSet` on a present key replaces exactly its pair -/
theorem mem_mapSet_of_mem {x n : Nat} {m : List (Nat × Nat)} (hnd : (keys m).Nodup) (h : x ∈ keys m)
    (p : Nat × Nat) : p ∈ mapSet x n m ↔ p = (x, n) ∨ (p ∈ m ∧ p.1 ≠ x) := by
  induction m with
  | nil => simp [keys] at h
  | cons q rest ih =>
    obtain ⟨k, c⟩ := q
    simp only [keys, List.map_cons, List.nodup_cons] at hnd
    by_cases hk : k = x
    · subst hk
      simp only [mapSet, if_true, List.mem_cons]
      constructor
      · rintro (h1 | h1)
        · exact Or.inl h1
        · right
          refine ⟨Or.inr h1, ?_⟩
          intro hp
          exact hnd.1 (List.mem_map.2 ⟨p, h1, hp⟩)
      · rintro (h1 | ⟨h1 | h1, h2⟩)
        · exact Or.inl h1
        · exact absurd (by rw [h1]) h2
        · exact Or.inr h1
    · have hx : x ∈ keys rest := by
        simp only [keys, List.map_cons, List.mem_cons] at h
        rcases h with h | h
        · exact absurd h.symm hk
        · exact h
      simp only [mapSet, hk, if_false, List.mem_cons]
      rw [ih hnd.2 hx]
      constructor
      · rintro (h1 | h1 | ⟨h1, h2⟩)
        · right; refine ⟨Or.inl h1, ?_⟩; rw [h1]; exact hk
        · exact Or.inl h1
        · exact Or.inr ⟨Or.inr h1, h2⟩
      · rintro (h1 | ⟨h1 | h1, h2⟩)
        · exact Or.inr (Or.inl h1)
        · exact Or.inl h1
        · exact Or.inr (Or.inr ⟨h1, h2⟩)

theorem mem_mapRemove (x : Nat) (m : List (Nat × Nat)) (p : Nat × Nat) :
    p ∈ mapRemove x m ↔ p ∈ m ∧ p.1 ≠ x := by
  simp [mapRemove]

theorem keys_mapRemove (x : Nat) (m : List (Nat × Nat)) :
    keys (mapRemove x m) = (keys m).filter (· != x) := by
  simp only [keys, mapRemove, List.filter_map]
  rfl

theorem length_mapRemove {x : Nat} {m : List (Nat × Nat)} (hnd : (keys m).Nodup) (hx : x ∈ keys m) :
    (mapRemove x m).length + 1 = m.length := by
  have h1 : (mapRemove x m).length = (keys (mapRemove x m)).length := by simp [keys]
  have h2 : m.length = (keys m).length := by simp [keys]
  rw [h1, h2, keys_mapRemove, ← List.Nodup.erase_eq_filter hnd, List.length_erase_of_mem hx]
  have := List.length_pos_of_mem hx
  omega

theorem nodup_keys_mapRemove {x : Nat} {m : List (Nat × Nat)} (hnd : (keys m).Nodup) :
    (keys (mapRemove x m)).Nodup := by
  rw [keys_mapRemove]; exact List.Nodup.sublist List.filter_sublist hnd

theorem nodup_keys_snoc {x n : Nat} {m : List (Nat × Nat)} (hnd : (keys m).Nodup) (hx : x ∉ keys m) :
    (keys (m ++ [(x, n)])).Nodup := by
  simp only [keys, List.map_append, List.map_cons, List.map_nil]
  rw [List.nodup_append]
  refine ⟨hnd, by simp, ?_⟩
  intro a ha b hb
  have : b = x := by simpa using hb
  subst this
  intro hab; subst hab; exact hx ha

end Pds.Proofs.Heap
