import Pds.Driver
open Pds.Driver

partial def loop (h : IO.FS.Stream) (out : IO.FS.Stream) (s : DState) : IO Unit := do
  let line ← h.getLine
  if line.isEmpty then return ()
  let toks := (line.trimAscii.toString.splitOn " ").filter (· ≠ "")
  match toks with
  | [] => loop h out s
  | t :: _ =>
    if t.startsWith "#" then loop h out s else
    let (s', ans) := step s toks
    out.putStrLn ans
    loop h out s'

def main : IO Unit := do
  let stdin ← IO.getStdin
  let stdout ← IO.getStdout
  loop stdin stdout {}
